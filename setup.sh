#!/bin/bash
# MANIFEST.setup_cmd: offline build of the harness from files on disk only.
set -e
cd "$(dirname "$0")"
export CARGO_NET_OFFLINE=true
mkdir -p .target evidence replays
cd harness && cargo build --offline --profile verif -p fv
