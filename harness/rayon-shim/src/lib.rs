//! Stand-in for `rayon` used only by the verification harness in /verif.
//!
//! It provides exactly the subset of rayon's API that fidget uses
//! (`ThreadPool{,Builder}`, `current_num_threads`, `into_par_iter` on `Vec`,
//! `par_iter` on `VecDeque`/slices, `par_chunks_mut`, `map`, `map_init`,
//! `enumerate`, `for_each`, `collect`) and executes parallel iterators under a
//! **controlled scheduler** (module [`verif`]):
//!
//! * `Mode::Sequential` (default): one job, run inline on the calling thread.
//! * `Mode::Controlled`: the item list is cut into contiguous jobs (each cut
//!   is a recorded binary choice), every job runs on its own OS thread but
//!   only the holder of a baton runs; the baton changes hands only at
//!   scheduling points (job start / end and `verif::yield_point`), and every
//!   such decision is a recorded choice that an explorer can enumerate.
//! * `Mode::Free(n)`: n real, free-running threads (sampling supplement only).
//!
//! `map_init`'s `init` runs once per job, which is rayon's documented
//! contract ("once per rayon job, at rayon's discretion").
#![allow(clippy::type_complexity)]

use std::collections::VecDeque;

pub mod verif;

pub mod prelude {
    pub use crate::{
        IndexedParallelIterator, IntoParallelIterator, IntoParallelRefIterator,
        ParallelIterator, ParallelSliceMut,
    };
}

////////////////////////////////////////////////////////////////////////////////
// Thread pools

#[derive(Debug)]
pub struct ThreadPoolBuildError;
impl std::fmt::Display for ThreadPoolBuildError {
    fn fmt(&self, f: &mut std::fmt::Formatter<'_>) -> std::fmt::Result {
        write!(f, "thread pool build error (shim)")
    }
}
impl std::error::Error for ThreadPoolBuildError {}

#[derive(Default)]
pub struct ThreadPoolBuilder {
    n: usize,
}

impl ThreadPoolBuilder {
    pub fn new() -> Self {
        Self { n: 0 }
    }
    pub fn num_threads(mut self, n: usize) -> Self {
        self.n = n;
        self
    }
    pub fn build(self) -> Result<ThreadPool, ThreadPoolBuildError> {
        Ok(ThreadPool {
            n: if self.n == 0 { 16 } else { self.n },
        })
    }
    pub fn build_global(self) -> Result<(), ThreadPoolBuildError> {
        Ok(())
    }
}

#[derive(Debug)]
pub struct ThreadPool {
    n: usize,
}

thread_local! {
    static CURRENT_POOL_THREADS: std::cell::Cell<usize> = const { std::cell::Cell::new(0) };
}

impl ThreadPool {
    pub fn install<OP, R>(&self, op: OP) -> R
    where
        OP: FnOnce() -> R + Send,
        R: Send,
    {
        let prev = CURRENT_POOL_THREADS.with(|c| c.replace(self.n));
        struct Restore(usize);
        impl Drop for Restore {
            fn drop(&mut self) {
                CURRENT_POOL_THREADS.with(|c| c.set(self.0));
            }
        }
        let _r = Restore(prev);
        op()
    }
    pub fn current_num_threads(&self) -> usize {
        self.n
    }
}

pub fn current_num_threads() -> usize {
    let n = CURRENT_POOL_THREADS.with(|c| c.get());
    if n == 0 {
        verif::global_threads()
    } else {
        n
    }
}

////////////////////////////////////////////////////////////////////////////////
// Parallel iterators: everything is materialised as a Vec of source items
// plus a statically-composed `Mapper`, whose `State` is created once per job
// (this is where `map_init`'s `init` runs).

/// Per-job mapping pipeline
pub trait Mapper<S, I>: Sync {
    type State;
    /// Called once at the start of each job
    fn start(&self) -> Self::State;
    /// Maps one source item (with its global index) to an output item
    fn apply(&self, st: &mut Self::State, idx: usize, s: S) -> I;
}

pub trait ParallelIterator: Sized + Send {
    type Item: Send;
    #[doc(hidden)]
    type Source: Send;
    #[doc(hidden)]
    type Mapper: Mapper<Self::Source, Self::Item>;
    #[doc(hidden)]
    fn into_parts(self) -> (Vec<Self::Source>, Self::Mapper);

    fn map<F, R>(self, f: F) -> Map<Self, F>
    where
        F: Fn(Self::Item) -> R + Sync + Send,
        R: Send,
    {
        Map { base: self, f }
    }

    fn map_init<INIT, T, F, R>(self, init: INIT, f: F) -> MapInit<Self, INIT, F>
    where
        INIT: Fn() -> T + Sync + Send,
        F: Fn(&mut T, Self::Item) -> R + Sync + Send,
        R: Send,
    {
        MapInit {
            base: self,
            init,
            f,
        }
    }

    fn for_each<F>(self, f: F)
    where
        F: Fn(Self::Item) + Sync + Send,
    {
        let (items, m) = self.map(f).into_parts();
        let _: Vec<()> = verif::execute(items, &m);
    }

    fn collect<C>(self) -> C
    where
        C: FromIterator<Self::Item>,
    {
        let (items, m) = self.into_parts();
        let out: Vec<Self::Item> = verif::execute(items, &m);
        out.into_iter().collect()
    }
}

pub trait IndexedParallelIterator: ParallelIterator {
    fn enumerate(self) -> Enumerate<Self> {
        Enumerate { base: self }
    }
}

pub struct VecIter<T> {
    items: Vec<T>,
}

pub struct Identity;
impl<T> Mapper<T, T> for Identity {
    type State = ();
    fn start(&self) {}
    fn apply(&self, _st: &mut (), _idx: usize, s: T) -> T {
        s
    }
}

impl<T: Send> ParallelIterator for VecIter<T> {
    type Item = T;
    type Source = T;
    type Mapper = Identity;
    fn into_parts(self) -> (Vec<T>, Identity) {
        (self.items, Identity)
    }
}
impl<T: Send> IndexedParallelIterator for VecIter<T> {}

pub struct Map<B, F> {
    base: B,
    f: F,
}
pub struct MapMapper<M, F, I> {
    inner: M,
    f: F,
    _p: std::marker::PhantomData<fn(I)>,
}
impl<S, I, R, M, F> Mapper<S, R> for MapMapper<M, F, I>
where
    M: Mapper<S, I>,
    F: Fn(I) -> R + Sync,
{
    type State = M::State;
    fn start(&self) -> M::State {
        self.inner.start()
    }
    fn apply(&self, st: &mut M::State, idx: usize, s: S) -> R {
        (self.f)(self.inner.apply(st, idx, s))
    }
}

impl<B, F, R> ParallelIterator for Map<B, F>
where
    B: ParallelIterator,
    F: Fn(B::Item) -> R + Sync + Send,
    R: Send,
{
    type Item = R;
    type Source = B::Source;
    type Mapper = MapMapper<B::Mapper, F, B::Item>;
    fn into_parts(self) -> (Vec<B::Source>, Self::Mapper) {
        let (items, inner) = self.base.into_parts();
        (
            items,
            MapMapper {
                inner,
                f: self.f,
                _p: std::marker::PhantomData,
            },
        )
    }
}
impl<B, F, R> IndexedParallelIterator for Map<B, F>
where
    B: IndexedParallelIterator,
    F: Fn(B::Item) -> R + Sync + Send,
    R: Send,
{
}

pub struct MapInit<B, INIT, F> {
    base: B,
    init: INIT,
    f: F,
}
pub struct MapInitMapper<M, INIT, F, I> {
    inner: M,
    init: INIT,
    f: F,
    _p: std::marker::PhantomData<fn(I)>,
}
impl<S, I, T, R, M, INIT, F> Mapper<S, R> for MapInitMapper<M, INIT, F, I>
where
    M: Mapper<S, I>,
    INIT: Fn() -> T + Sync,
    F: Fn(&mut T, I) -> R + Sync,
{
    type State = (M::State, T);
    fn start(&self) -> (M::State, T) {
        // `init` runs once per job
        (self.inner.start(), (self.init)())
    }
    fn apply(&self, st: &mut (M::State, T), idx: usize, s: S) -> R {
        let i = self.inner.apply(&mut st.0, idx, s);
        (self.f)(&mut st.1, i)
    }
}

impl<B, INIT, T, F, R> ParallelIterator for MapInit<B, INIT, F>
where
    B: ParallelIterator,
    INIT: Fn() -> T + Sync + Send,
    F: Fn(&mut T, B::Item) -> R + Sync + Send,
    R: Send,
{
    type Item = R;
    type Source = B::Source;
    type Mapper = MapInitMapper<B::Mapper, INIT, F, B::Item>;
    fn into_parts(self) -> (Vec<B::Source>, Self::Mapper) {
        let (items, inner) = self.base.into_parts();
        (
            items,
            MapInitMapper {
                inner,
                init: self.init,
                f: self.f,
                _p: std::marker::PhantomData,
            },
        )
    }
}

pub struct Enumerate<B> {
    base: B,
}
pub struct EnumerateMapper<M> {
    inner: M,
}
impl<S, I, M: Mapper<S, I>> Mapper<S, (usize, I)> for EnumerateMapper<M> {
    type State = M::State;
    fn start(&self) -> M::State {
        self.inner.start()
    }
    fn apply(&self, st: &mut M::State, idx: usize, s: S) -> (usize, I) {
        (idx, self.inner.apply(st, idx, s))
    }
}

impl<B> ParallelIterator for Enumerate<B>
where
    B: IndexedParallelIterator,
{
    type Item = (usize, B::Item);
    type Source = B::Source;
    type Mapper = EnumerateMapper<B::Mapper>;
    fn into_parts(self) -> (Vec<B::Source>, Self::Mapper) {
        let (items, inner) = self.base.into_parts();
        (items, EnumerateMapper { inner })
    }
}
impl<B: IndexedParallelIterator> IndexedParallelIterator for Enumerate<B> {}

pub trait IntoParallelIterator {
    type Iter: ParallelIterator<Item = Self::Item>;
    type Item: Send;
    fn into_par_iter(self) -> Self::Iter;
}

impl<T: Send> IntoParallelIterator for Vec<T> {
    type Iter = VecIter<T>;
    type Item = T;
    fn into_par_iter(self) -> VecIter<T> {
        VecIter { items: self }
    }
}

impl IntoParallelIterator for std::ops::Range<usize> {
    type Iter = VecIter<usize>;
    type Item = usize;
    fn into_par_iter(self) -> VecIter<usize> {
        VecIter {
            items: self.collect(),
        }
    }
}

pub trait IntoParallelRefIterator<'data> {
    type Iter: ParallelIterator<Item = Self::Item>;
    type Item: Send + 'data;
    fn par_iter(&'data self) -> Self::Iter;
}

impl<'data, T: Sync + 'data> IntoParallelRefIterator<'data> for VecDeque<T> {
    type Iter = VecIter<&'data T>;
    type Item = &'data T;
    fn par_iter(&'data self) -> Self::Iter {
        VecIter {
            items: self.iter().collect(),
        }
    }
}

impl<'data, T: Sync + 'data> IntoParallelRefIterator<'data> for Vec<T> {
    type Iter = VecIter<&'data T>;
    type Item = &'data T;
    fn par_iter(&'data self) -> Self::Iter {
        VecIter {
            items: self.iter().collect(),
        }
    }
}

impl<'data, T: Sync + 'data> IntoParallelRefIterator<'data> for [T] {
    type Iter = VecIter<&'data T>;
    type Item = &'data T;
    fn par_iter(&'data self) -> Self::Iter {
        VecIter {
            items: self.iter().collect(),
        }
    }
}

pub trait ParallelSliceMut<T: Send> {
    fn par_chunks_mut(&mut self, chunk_size: usize) -> VecIter<&mut [T]>;
}

impl<T: Send> ParallelSliceMut<T> for [T] {
    fn par_chunks_mut(&mut self, chunk_size: usize) -> VecIter<&mut [T]> {
        VecIter {
            items: self.chunks_mut(chunk_size).collect(),
        }
    }
}
