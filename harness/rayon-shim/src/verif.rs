//! Controlled scheduler behind the rayon stand-in.
//!
//! See `/verif/DESIGN.md` (C09, Appendix A).  All nondeterminism of a parallel
//! operation — how the item list is cut into jobs, which job runs next at each
//! scheduling point, and when the environment sets the cancel flag — is
//! resolved by a recorded sequence of choices.  An execution replays a choice
//! prefix and then takes option 0 ("keep running" / lowest job id / no cut) at
//! every later point; the explorer enumerates alternatives.
use crate::Mapper;
use std::cell::Cell;
use std::sync::{Arc, Condvar, Mutex};

#[derive(Copy, Clone, Debug, PartialEq, Eq)]
pub enum Mode {
    /// One job, inline on the calling thread (default)
    Sequential,
    /// Baton-passing scheduler driven by recorded choices
    Controlled,
    /// n free-running OS threads (sampling supplement only)
    Free(usize),
}

#[derive(Copy, Clone, Debug, PartialEq, Eq)]
pub enum PointKind {
    /// Cut / don't cut the item list here (options: 0 = no cut, 1 = cut)
    Partition,
    /// Who runs next
    Sched,
}

/// Tags for scheduling points created by the shim itself
pub const TAG_PAR_START: u32 = 1000;
pub const TAG_JOB_END: u32 = 1001;

#[derive(Clone, Debug)]
pub struct Point {
    pub kind: PointKind,
    /// Hook tag (or `TAG_*`) of the scheduling point
    pub tag: u32,
    /// Number of options at this point (always >= 2; single-option points are
    /// not recorded)
    pub n: usize,
    /// Option 0 is "the currently running job keeps running"
    pub cur_enabled: bool,
    /// Index of the "environment sets the cancel flag" option, if enabled
    pub cancel_idx: Option<usize>,
    pub chosen: usize,
}

#[derive(Clone, Debug, Default)]
pub struct Trace {
    pub points: Vec<Point>,
    /// A replayed prefix asked for an option that did not exist
    pub diverged: bool,
    pub cancel_fired: bool,
    /// Number of parallel operations executed
    pub par_ops: usize,
    /// Number of jobs of each parallel operation
    pub jobs: Vec<usize>,
    /// Number of scheduling points seen (including single-option ones)
    pub sched_points: usize,
}

struct Ctrl {
    prefix: Vec<usize>,
    pos: usize,
    cancel: Option<Arc<dyn Fn() + Send + Sync>>,
    max_jobs: usize,
    trace: Trace,
}

impl Ctrl {
    fn choose(
        &mut self,
        kind: PointKind,
        tag: u32,
        n: usize,
        cur_enabled: bool,
        cancel_idx: Option<usize>,
    ) -> usize {
        if n <= 1 {
            return 0;
        }
        let chosen = if self.pos < self.prefix.len() {
            let c = self.prefix[self.pos];
            if c >= n {
                self.trace.diverged = true;
                0
            } else {
                c
            }
        } else {
            0
        };
        self.pos += 1;
        self.trace.points.push(Point {
            kind,
            tag,
            n,
            cur_enabled,
            cancel_idx,
            chosen,
        });
        chosen
    }

    fn cancel_armed(&self) -> bool {
        self.cancel.is_some() && !self.trace.cancel_fired
    }

    fn fire_cancel(&mut self) {
        if let Some(c) = &self.cancel {
            c();
        }
        self.trace.cancel_fired = true;
    }
}

static MODE: Mutex<Mode> = Mutex::new(Mode::Sequential);
static GLOBAL_THREADS: Mutex<usize> = Mutex::new(16);
static CTRL: Mutex<Option<Ctrl>> = Mutex::new(None);
static ACTIVE: Mutex<Option<Arc<Sched>>> = Mutex::new(None);

thread_local! {
    static JOB: Cell<Option<usize>> = const { Cell::new(None) };
}

fn lock<T>(m: &Mutex<T>) -> std::sync::MutexGuard<'_, T> {
    m.lock().unwrap_or_else(|e| e.into_inner())
}

pub fn set_mode(m: Mode) {
    *lock(&MODE) = m;
}

pub fn mode() -> Mode {
    *lock(&MODE)
}

/// What `rayon::current_num_threads()` answers outside a pool
pub fn set_global_threads(n: usize) {
    *lock(&GLOBAL_THREADS) = n;
}

pub fn global_threads() -> usize {
    *lock(&GLOBAL_THREADS)
}

/// Starts a controlled execution: replays `prefix`, then defaults.
///
/// `cancel` is the environment's single step (setting the cancel flag); if it
/// is `Some`, the step is offered as an extra option at every scheduling point
/// until it has fired.  `max_jobs` bounds the number of jobs a parallel
/// operation may be cut into.
pub fn begin(
    prefix: Vec<usize>,
    cancel: Option<Arc<dyn Fn() + Send + Sync>>,
    max_jobs: usize,
) {
    *lock(&CTRL) = Some(Ctrl {
        prefix,
        pos: 0,
        cancel,
        max_jobs: max_jobs.max(1),
        trace: Trace::default(),
    });
}

/// Ends a controlled execution, returning the recorded trace
pub fn end() -> Trace {
    lock(&CTRL).take().map(|c| c.trace).unwrap_or_default()
}

/// A scheduling point, called from the `verif-hooks` callbacks in fidget.
pub fn yield_point(tag: u32) {
    if mode() != Mode::Controlled {
        return;
    }
    let job = JOB.with(|j| j.get());
    match job {
        Some(j) => {
            let s = lock(&ACTIVE).clone();
            if let Some(s) = s {
                s.point(j, tag);
            }
        }
        None => {
            // Sequential code (no parallel operation in flight on this
            // thread): the only other "thread" is the environment.
            let mut g = lock(&CTRL);
            if let Some(c) = g.as_mut() {
                c.trace.sched_points += 1;
                if c.cancel_armed() {
                    let k = c.choose(PointKind::Sched, tag, 2, true, Some(1));
                    if k == 1 {
                        c.fire_cancel();
                    }
                }
            }
        }
    }
}

/// An environment-only point: the running code keeps the baton; the only
/// alternative offered is the environment's cancel step.  Used for very
/// frequent points (per-cell cancellation polls) where offering a job switch
/// as well would make the schedule space explode.
pub fn env_point(tag: u32) {
    if mode() != Mode::Controlled {
        return;
    }
    let mut g = lock(&CTRL);
    if let Some(c) = g.as_mut() {
        c.trace.sched_points += 1;
        if c.cancel_armed() {
            let k = c.choose(PointKind::Sched, tag, 2, true, Some(1));
            if k == 1 {
                c.fire_cancel();
            }
        }
    }
}

////////////////////////////////////////////////////////////////////////////////

#[derive(Copy, Clone, PartialEq, Eq, Debug)]
enum Status {
    Runnable,
    Finished,
}

struct SchedState {
    holder: Option<usize>,
    status: Vec<Status>,
    done: bool,
}

struct Sched {
    m: Mutex<SchedState>,
    cv: Condvar,
}

impl Sched {
    /// Picks who runs next.  `cur` is the job calling (if it is still
    /// runnable).  Fires the cancel step if that is what is chosen, then asks
    /// again.  Returns the chosen job, or `None` if nobody is runnable.
    fn pick(st: &SchedState, cur: Option<usize>, tag: u32) -> Option<usize> {
        let mut g = lock(&CTRL);
        let c = g.as_mut().expect("controlled execution without controller");
        c.trace.sched_points += 1;
        loop {
            let mut enabled: Vec<usize> = vec![];
            if let Some(j) = cur {
                enabled.push(j);
            }
            for (i, s) in st.status.iter().enumerate() {
                if *s == Status::Runnable && Some(i) != cur {
                    enabled.push(i);
                }
            }
            let cancel_idx = if c.cancel_armed() {
                Some(enabled.len())
            } else {
                None
            };
            let n = enabled.len() + usize::from(cancel_idx.is_some());
            if n == 0 {
                return None;
            }
            let k = c.choose(PointKind::Sched, tag, n, cur.is_some(), cancel_idx);
            if Some(k) == cancel_idx {
                c.fire_cancel();
                continue;
            }
            return Some(enabled[k]);
        }
    }

    fn point(&self, me: usize, tag: u32) {
        let mut st = lock(&self.m);
        debug_assert_eq!(st.holder, Some(me));
        let next = Self::pick(&st, Some(me), tag).unwrap();
        if next != me {
            st.holder = Some(next);
            self.cv.notify_all();
            while st.holder != Some(me) {
                st = self.cv.wait(st).unwrap_or_else(|e| e.into_inner());
            }
        }
    }

    fn wait_for_baton(&self, me: usize) {
        let mut st = lock(&self.m);
        while st.holder != Some(me) {
            st = self.cv.wait(st).unwrap_or_else(|e| e.into_inner());
        }
    }

    fn finish(&self, me: usize) {
        let mut st = lock(&self.m);
        st.status[me] = Status::Finished;
        match Self::pick(&st, None, TAG_JOB_END) {
            Some(next) => st.holder = Some(next),
            None => {
                st.holder = None;
                st.done = true;
            }
        }
        self.cv.notify_all();
    }
}

/// Runs `items` through `m`, returning outputs in item order
pub fn execute<S: Send, I: Send, M: Mapper<S, I>>(items: Vec<S>, m: &M) -> Vec<I> {
    let mode = mode();
    let controlled = mode == Mode::Controlled && lock(&CTRL).is_some();
    if let Mode::Free(n) = mode {
        return execute_free(items, m, n.max(1));
    }
    if !controlled || JOB.with(|j| j.get()).is_some() {
        // Sequential: a single job on the calling thread
        let mut st = m.start();
        return items
            .into_iter()
            .enumerate()
            .map(|(i, s)| m.apply(&mut st, i, s))
            .collect();
    }

    // Partition into contiguous jobs; each boundary is a recorded choice
    let n_items = items.len();
    let mut jobs: Vec<Vec<(usize, S)>> = vec![vec![]];
    {
        let mut g = lock(&CTRL);
        let c = g.as_mut().unwrap();
        c.trace.par_ops += 1;
        for (i, s) in items.into_iter().enumerate() {
            if i > 0 && jobs.len() < c.max_jobs {
                let cut = c.choose(PointKind::Partition, i as u32, 2, false, None);
                if cut == 1 {
                    jobs.push(vec![]);
                }
            }
            jobs.last_mut().unwrap().push((i, s));
        }
        if n_items == 0 {
            jobs.clear();
        }
        c.trace.jobs.push(jobs.len());
    }
    if jobs.is_empty() {
        return vec![];
    }

    let sched = Arc::new(Sched {
        m: Mutex::new(SchedState {
            holder: None,
            status: vec![Status::Runnable; jobs.len()],
            done: false,
        }),
        cv: Condvar::new(),
    });
    *lock(&ACTIVE) = Some(sched.clone());

    let mut out: Vec<Option<I>> = (0..n_items).map(|_| None).collect();
    let mut panic_payload = None;
    std::thread::scope(|scope| {
        let mut handles = vec![];
        for (id, job) in jobs.into_iter().enumerate() {
            let sched = sched.clone();
            handles.push(scope.spawn(move || {
                JOB.with(|j| j.set(Some(id)));
                sched.wait_for_baton(id);
                let r = std::panic::catch_unwind(std::panic::AssertUnwindSafe(|| {
                    let mut st = m.start();
                    job.into_iter()
                        .map(|(i, s)| (i, m.apply(&mut st, i, s)))
                        .collect::<Vec<_>>()
                }));
                sched.finish(id);
                r
            }));
        }
        // First decision: who starts
        {
            let mut st = lock(&sched.m);
            let first = Sched::pick(&st, None, TAG_PAR_START);
            st.holder = first;
            sched.cv.notify_all();
            while !st.done {
                st = sched.cv.wait(st).unwrap_or_else(|e| e.into_inner());
            }
        }
        for h in handles {
            match h.join().expect("job thread join") {
                Ok(v) => {
                    for (i, r) in v {
                        out[i] = Some(r);
                    }
                }
                Err(p) => {
                    if panic_payload.is_none() {
                        panic_payload = Some(p);
                    }
                }
            }
        }
    });
    *lock(&ACTIVE) = None;
    if let Some(p) = panic_payload {
        std::panic::resume_unwind(p);
    }
    out.into_iter().map(|o| o.unwrap()).collect()
}

fn execute_free<S: Send, I: Send, M: Mapper<S, I>>(
    items: Vec<S>,
    m: &M,
    n: usize,
) -> Vec<I> {
    let n_items = items.len();
    if n_items == 0 {
        return vec![];
    }
    let per = n_items.div_ceil(n);
    let mut jobs: Vec<Vec<(usize, S)>> = vec![];
    for (i, s) in items.into_iter().enumerate() {
        if i % per == 0 {
            jobs.push(vec![]);
        }
        jobs.last_mut().unwrap().push((i, s));
    }
    let mut out: Vec<Option<I>> = (0..n_items).map(|_| None).collect();
    let barrier = std::sync::Barrier::new(jobs.len());
    std::thread::scope(|scope| {
        let mut handles = vec![];
        for job in jobs {
            let barrier = &barrier;
            handles.push(scope.spawn(move || {
                barrier.wait();
                let mut st = m.start();
                job.into_iter()
                    .map(|(i, s)| (i, m.apply(&mut st, i, s)))
                    .collect::<Vec<_>>()
            }));
        }
        for h in handles {
            for (i, r) in h.join().expect("free job panicked") {
                out[i] = Some(r);
            }
        }
    });
    out.into_iter().map(|o| o.unwrap()).collect()
}
