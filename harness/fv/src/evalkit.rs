//! Helpers shared by the evaluator-facing checks: backend abstraction, RegOp
//! decoding, a reference interpreter over register tapes, guard-paged slices.
use crate::refsem::{bin32, un32, zero_sign_tie};
use fidget_core::compiler::RegOp;
use fidget_core::context::{BinaryOpcode as B, Context, Node, UnaryOpcode as U};
use fidget_core::eval::{BulkEvaluator, Function, MathFunction, TracingEvaluator};
use fidget_core::types::{Grad, Interval};
use fidget_core::vm::{Choice, GenericVmFunction, VmTrace};
use fidget_jit::JitFunction;

#[derive(Copy, Clone, Debug, PartialEq)]
pub enum Opd {
    Reg(u8),
    Imm(f32),
}

#[derive(Copy, Clone, Debug, PartialEq)]
pub enum Dec {
    Input(u8, u32),
    Output(u8, u32),
    CopyImm(u8, f32),
    CopyReg(u8, u8),
    Un(U, u8, u8),
    Bin(B, u8, Opd, Opd),
    Load(u8, u32),
    Store(u8, u32),
}

pub fn decode(op: RegOp) -> Dec {
    use Dec::*;
    use Opd::*;
    match op {
        RegOp::Input(o, i) => Input(o, i),
        RegOp::Output(a, i) => Output(a, i),
        RegOp::CopyImm(o, f) => CopyImm(o, f),
        RegOp::CopyReg(o, a) => CopyReg(o, a),
        RegOp::Load(r, m) => Load(r, m),
        RegOp::Store(r, m) => Store(r, m),
        RegOp::NegReg(o, a) => Un(U::Neg, o, a),
        RegOp::AbsReg(o, a) => Un(U::Abs, o, a),
        RegOp::RecipReg(o, a) => Un(U::Recip, o, a),
        RegOp::SqrtReg(o, a) => Un(U::Sqrt, o, a),
        RegOp::SquareReg(o, a) => Un(U::Square, o, a),
        RegOp::FloorReg(o, a) => Un(U::Floor, o, a),
        RegOp::CeilReg(o, a) => Un(U::Ceil, o, a),
        RegOp::RoundReg(o, a) => Un(U::Round, o, a),
        RegOp::SinReg(o, a) => Un(U::Sin, o, a),
        RegOp::CosReg(o, a) => Un(U::Cos, o, a),
        RegOp::TanReg(o, a) => Un(U::Tan, o, a),
        RegOp::AsinReg(o, a) => Un(U::Asin, o, a),
        RegOp::AcosReg(o, a) => Un(U::Acos, o, a),
        RegOp::AtanReg(o, a) => Un(U::Atan, o, a),
        RegOp::ExpReg(o, a) => Un(U::Exp, o, a),
        RegOp::LnReg(o, a) => Un(U::Ln, o, a),
        RegOp::NotReg(o, a) => Un(U::Not, o, a),
        RegOp::RandReg(o, a) => Un(U::Rand, o, a),
        RegOp::AddRegImm(o, a, i) => Bin(B::Add, o, Reg(a), Imm(i)),
        RegOp::MulRegImm(o, a, i) => Bin(B::Mul, o, Reg(a), Imm(i)),
        RegOp::DivRegImm(o, a, i) => Bin(B::Div, o, Reg(a), Imm(i)),
        RegOp::DivImmReg(o, a, i) => Bin(B::Div, o, Imm(i), Reg(a)),
        RegOp::SubImmReg(o, a, i) => Bin(B::Sub, o, Imm(i), Reg(a)),
        RegOp::SubRegImm(o, a, i) => Bin(B::Sub, o, Reg(a), Imm(i)),
        RegOp::ModRegReg(o, a, b) => Bin(B::Mod, o, Reg(a), Reg(b)),
        RegOp::ModRegImm(o, a, i) => Bin(B::Mod, o, Reg(a), Imm(i)),
        RegOp::ModImmReg(o, a, i) => Bin(B::Mod, o, Imm(i), Reg(a)),
        RegOp::AtanRegImm(o, a, i) => Bin(B::Atan, o, Reg(a), Imm(i)),
        RegOp::AtanImmReg(o, a, i) => Bin(B::Atan, o, Imm(i), Reg(a)),
        RegOp::AtanRegReg(o, a, b) => Bin(B::Atan, o, Reg(a), Reg(b)),
        RegOp::CompareRegImm(o, a, i) => Bin(B::Compare, o, Reg(a), Imm(i)),
        RegOp::CompareImmReg(o, a, i) => Bin(B::Compare, o, Imm(i), Reg(a)),
        RegOp::CompareRegReg(o, a, b) => Bin(B::Compare, o, Reg(a), Reg(b)),
        RegOp::MixRegImm(o, a, i) => Bin(B::Mix, o, Reg(a), Imm(i)),
        RegOp::MixImmReg(o, a, i) => Bin(B::Mix, o, Imm(i), Reg(a)),
        RegOp::MixRegReg(o, a, b) => Bin(B::Mix, o, Reg(a), Reg(b)),
        RegOp::MinRegImm(o, a, i) => Bin(B::Min, o, Reg(a), Imm(i)),
        RegOp::MaxRegImm(o, a, i) => Bin(B::Max, o, Reg(a), Imm(i)),
        RegOp::AndRegImm(o, a, i) => Bin(B::And, o, Reg(a), Imm(i)),
        RegOp::OrRegImm(o, a, i) => Bin(B::Or, o, Reg(a), Imm(i)),
        RegOp::AddRegReg(o, a, b) => Bin(B::Add, o, Reg(a), Reg(b)),
        RegOp::MulRegReg(o, a, b) => Bin(B::Mul, o, Reg(a), Reg(b)),
        RegOp::DivRegReg(o, a, b) => Bin(B::Div, o, Reg(a), Reg(b)),
        RegOp::SubRegReg(o, a, b) => Bin(B::Sub, o, Reg(a), Reg(b)),
        RegOp::MinRegReg(o, a, b) => Bin(B::Min, o, Reg(a), Reg(b)),
        RegOp::MaxRegReg(o, a, b) => Bin(B::Max, o, Reg(a), Reg(b)),
        RegOp::AndRegReg(o, a, b) => Bin(B::And, o, Reg(a), Reg(b)),
        RegOp::OrRegReg(o, a, b) => Bin(B::Or, o, Reg(a), Reg(b)),
    }
}

pub fn is_choice_op(d: &Dec) -> bool {
    matches!(d, Dec::Bin(B::Min | B::Max | B::And | B::Or, ..))
}

/// One choice clause as seen by the reference interpreter over the tape
#[derive(Copy, Clone, Debug)]
pub struct Clause {
    pub op: B,
    pub a: f32,
    pub b: f32,
    pub b_is_imm: bool,
    /// value depends on a zero-sign min/max tie upstream
    pub amb: bool,
}

/// Reference interpretation of a register tape at a point: outputs, and the
/// operand values of every choice clause in tape (evaluation) order.
pub fn regtape_point(
    ops: &[RegOp],
    slots: usize,
    n_out: usize,
    args: &[f32],
) -> (Vec<(f32, bool)>, Vec<Clause>) {
    let mut v = vec![(f32::NAN, false); slots.max(256)];
    let mut out = vec![(f32::NAN, false); n_out];
    let mut clauses = vec![];
    for op in ops {
        match decode(*op) {
            Dec::Input(o, i) => v[o as usize] = (args[i as usize], false),
            Dec::Output(a, i) => out[i as usize] = v[a as usize],
            Dec::CopyImm(o, f) => v[o as usize] = (f, false),
            Dec::CopyReg(o, a) => v[o as usize] = v[a as usize],
            Dec::Load(r, m) => v[r as usize] = v[m as usize],
            Dec::Store(r, m) => v[m as usize] = v[r as usize],
            Dec::Un(u, o, a) => {
                let x = v[a as usize];
                v[o as usize] = (un32(u, x.0), x.1);
            }
            Dec::Bin(b, o, l, r) => {
                let get = |x: Opd| match x {
                    Opd::Reg(r) => v[r as usize],
                    Opd::Imm(f) => (f, false),
                };
                let (l2, r2) = (get(l), get(r));
                let amb = l2.1 || r2.1 || zero_sign_tie(b, l2.0, r2.0);
                if matches!(b, B::Min | B::Max | B::And | B::Or) {
                    clauses.push(Clause {
                        op: b,
                        a: l2.0,
                        b: r2.0,
                        b_is_imm: matches!(r, Opd::Imm(_)),
                        amb: l2.1 || r2.1,
                    });
                }
                v[o as usize] = (bin32(b, l2.0, r2.0), amb);
            }
        }
    }
    (out, clauses)
}

////////////////////////////////////////////////////////////////////////////////

/// A function backend under test
pub trait Backend: Function<Trace = VmTrace> + MathFunction + 'static {
    const NAME: &'static str;
    fn reg_ops(&self) -> Vec<RegOp>;
    fn slot_count(&self) -> usize;
    fn choice_count(&self) -> usize;
}

impl<const N: usize> Backend for GenericVmFunction<N> {
    const NAME: &'static str = "vm";
    fn reg_ops(&self) -> Vec<RegOp> {
        self.data().iter_asm().collect()
    }
    fn slot_count(&self) -> usize {
        self.data().slot_count()
    }
    fn choice_count(&self) -> usize {
        GenericVmFunction::<N>::choice_count(self)
    }
}

impl Backend for JitFunction {
    const NAME: &'static str = "jit";
    fn reg_ops(&self) -> Vec<RegOp> {
        let v: &GenericVmFunction<12> = self.into();
        v.data().iter_asm().collect()
    }
    fn slot_count(&self) -> usize {
        let v: &GenericVmFunction<12> = self.into();
        v.data().slot_count()
    }
    fn choice_count(&self) -> usize {
        let v: &GenericVmFunction<12> = self.into();
        v.choice_count()
    }
}

pub fn build<F: Backend>(ctx: &Context, roots: &[Node]) -> Result<F, String> {
    crate::runner::guard(|| F::new(ctx, roots))
        .and_then(|r| r.map_err(|e| format!("{e:?}")))
}

pub type Traced<T> = (Vec<T>, Option<Vec<Choice>>);

/// Fresh point evaluator + fresh tape
pub fn eval_point<F: Backend>(f: &F, args: &[f32]) -> Result<Traced<f32>, String> {
    crate::runner::guard(|| {
        let tape = f.point_tape(Default::default());
        let mut ev = F::new_point_eval();
        ev.eval(&tape, args)
            .map(|(o, t)| (o.to_vec(), t.map(|t| t.as_slice().to_vec())))
            .map_err(|e| format!("{e:?}"))
    })
    .and_then(|r| r)
}

pub fn eval_interval<F: Backend>(f: &F, args: &[Interval]) -> Result<Traced<Interval>, String> {
    crate::runner::guard(|| {
        let tape = f.interval_tape(Default::default());
        let mut ev = F::new_interval_eval();
        ev.eval(&tape, args)
            .map(|(o, t)| (o.to_vec(), t.map(|t| t.as_slice().to_vec())))
            .map_err(|e| format!("{e:?}"))
    })
    .and_then(|r| r)
}

pub fn eval_float_slice<F: Backend>(f: &F, cols: &[Vec<f32>]) -> Result<Vec<Vec<f32>>, String> {
    crate::runner::guard(|| {
        let tape = f.float_slice_tape(Default::default());
        let mut ev = F::new_float_slice_eval();
        ev.eval(&tape, cols)
            .map(|o| (0..o.len()).map(|i| o[i].to_vec()).collect())
            .map_err(|e| format!("{e:?}"))
    })
    .and_then(|r| r)
}

pub fn eval_grad_slice<F: Backend>(f: &F, cols: &[Vec<Grad>]) -> Result<Vec<Vec<Grad>>, String> {
    crate::runner::guard(|| {
        let tape = f.grad_slice_tape(Default::default());
        let mut ev = F::new_grad_slice_eval();
        ev.eval(&tape, cols)
            .map(|o| (0..o.len()).map(|i| o[i].to_vec()).collect())
            .map_err(|e| format!("{e:?}"))
    })
    .and_then(|r| r)
}

pub fn choice_name(c: Choice) -> &'static str {
    match c {
        Choice::Unknown => "Unknown",
        Choice::Left => "Left",
        Choice::Right => "Right",
        Choice::Both => "Both",
    }
}

pub fn trace_str(t: &Option<Vec<Choice>>) -> String {
    match t {
        None => "None".into(),
        Some(v) => format!(
            "[{}]",
            v.iter().map(|c| choice_name(*c)).collect::<Vec<_>>().join(",")
        ),
    }
}

////////////////////////////////////////////////////////////////////////////////
// Guard-paged slices: the data ends right before a PROT_NONE page and starts
// right after one, so any access outside the slice faults.

pub struct GuardedSlice {
    base: *mut u8,
    map_len: usize,
    ptr: *mut f32,
    len: usize,
}

const PAGE: usize = 4096;

impl GuardedSlice {
    /// `at_end`: place the slice so that it *ends* at the trailing guard page
    /// (otherwise it *starts* right after the leading one)
    pub fn new(data: &[f32], at_end: bool) -> Self {
        let bytes = std::mem::size_of_val(data);
        let body = bytes.div_ceil(PAGE).max(1) * PAGE;
        let map_len = body + 2 * PAGE;
        unsafe {
            let base = libc::mmap(
                std::ptr::null_mut(),
                map_len,
                libc::PROT_READ | libc::PROT_WRITE,
                libc::MAP_PRIVATE | libc::MAP_ANONYMOUS,
                -1,
                0,
            ) as *mut u8;
            assert!(base as isize != -1, "mmap guard");
            libc::mprotect(base as *mut _, PAGE, libc::PROT_NONE);
            libc::mprotect(base.add(PAGE + body) as *mut _, PAGE, libc::PROT_NONE);
            let start = if at_end {
                base.add(PAGE + body - bytes)
            } else {
                base.add(PAGE)
            } as *mut f32;
            std::ptr::copy_nonoverlapping(data.as_ptr(), start, data.len());
            GuardedSlice {
                base,
                map_len,
                ptr: start,
                len: data.len(),
            }
        }
    }
}

impl std::ops::Deref for GuardedSlice {
    type Target = [f32];
    fn deref(&self) -> &[f32] {
        unsafe { std::slice::from_raw_parts(self.ptr, self.len) }
    }
}

impl Drop for GuardedSlice {
    fn drop(&mut self) {
        unsafe {
            libc::munmap(self.base as *mut _, self.map_len);
        }
    }
}
