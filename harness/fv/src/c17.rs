//! C17 — scripts build the same expressions as the Rust API.
//! DESIGN.md §4 C17.
use crate::c12::{tree_bin, tree_un};
use crate::treecmp::{first_difference, struct_eq};
use crate::runner::{Check, CrashPolicy, Cx, Meta, Tier, guard, panic_site};
use fidget_core::context::{BinaryOpcode as B, Tree, UnaryOpcode as U};
use fidget_shapes::types::{Vec2, Vec3};
use serde_json::json;

pub struct C17;

const INFIX: [(&str, B); 5] = [("+", B::Add), ("-", B::Sub), ("*", B::Mul), ("/", B::Div), ("%", B::Mod)];
const BINFN: [(&str, B); 7] = [
    ("min", B::Min),
    ("max", B::Max),
    ("compare", B::Compare),
    ("mix", B::Mix),
    ("and", B::And),
    ("or", B::Or),
    ("atan2", B::Atan),
];
const UNFN: [(&str, U); 16] = [
    ("abs", U::Abs),
    ("sqrt", U::Sqrt),
    ("square", U::Square),
    ("sin", U::Sin),
    ("cos", U::Cos),
    ("tan", U::Tan),
    ("asin", U::Asin),
    ("acos", U::Acos),
    ("atan", U::Atan),
    ("exp", U::Exp),
    ("ln", U::Ln),
    ("not", U::Not),
    ("rand", U::Rand),
    ("ceil", U::Ceil),
    ("floor", U::Floor),
    ("round", U::Round),
];

#[derive(Clone)]
enum E {
    T(String, Tree),
    N(String, f32),
}

impl E {
    fn script(&self) -> &str {
        match self {
            E::T(s, _) | E::N(s, _) => s,
        }
    }
    fn tree(&self) -> Tree {
        match self {
            E::T(_, t) => t.clone(),
            E::N(_, n) => Tree::constant(*n),
        }
    }
    fn is_tree(&self) -> bool {
        matches!(self, E::T(..))
    }
}

fn leaves() -> Vec<E> {
    vec![
        E::T("x".into(), Tree::x()),
        E::T("y".into(), Tree::y()),
        E::T("z".into(), Tree::z()),
        E::N("2".into(), 2.0),
        E::N("1.5".into(), 1.5),
        E::N("0.25".into(), 0.25),
    ]
}

/// All one-operation expressions over the given operands (at least one
/// operand a tree)
fn one_op(lhs: &[E], rhs: &[E]) -> Vec<E> {
    let mut out = vec![];
    for a in lhs {
        for b in rhs {
            if !a.is_tree() && !b.is_tree() {
                continue;
            }
            for (s, op) in INFIX {
                out.push(E::T(
                    format!("({} {s} {})", a.script(), b.script()),
                    tree_bin(op, &a.tree(), &b.tree()),
                ));
            }
            for (s, op) in BINFN {
                out.push(E::T(
                    format!("{s}({}, {})", a.script(), b.script()),
                    tree_bin(op, &a.tree(), &b.tree()),
                ));
            }
        }
    }
    out
}

fn unary(args: &[E]) -> Vec<E> {
    let mut out = vec![];
    for a in args {
        if !a.is_tree() {
            continue;
        }
        for (s, op) in UNFN {
            out.push(E::T(format!("{s}({})", a.script()), tree_un(op, &a.tree())));
        }
        out.push(E::T(format!("(-{})", a.script()), tree_un(U::Neg, &a.tree())));
    }
    out
}

fn union_of(ts: &[Tree]) -> Tree {
    fidget_shapes::Union { input: ts.to_vec() }.into()
}

fn arrays() -> Vec<E> {
    // arrays of trees coerce to unions wherever a tree is expected
    let (x, y, z) = Tree::axes();
    vec![
        E::T("[x, y]".into(), union_of(&[x.clone(), y.clone()])),
        E::T("[x, y, z]".into(), union_of(&[x.clone(), y.clone(), z.clone()])),
        E::T("[x, 1.5]".into(), union_of(&[x.clone(), Tree::constant(1.5)])),
        E::T("[sin(x), y + 2]".into(), union_of(&[x.sin(), y + 2.0])),
    ]
}

////////////////////////////////////////////////////////////////////////////////
// Shapes: a small table-driven generator of call forms

#[derive(Clone)]
enum Val {
    F(f32),
    V2([f32; 2]),
    V3([f32; 3]),
    T(String, Tree),
}

impl Val {
    /// Script spellings of the value (ints and floats, arrays and vec ctors)
    fn spellings(&self) -> Vec<String> {
        let num = |f: f32| -> Vec<String> {
            if f.fract() == 0.0 {
                vec![format!("{}", f as i64), format!("{f:.1}")]
            } else {
                vec![format!("{f}")]
            }
        };
        match self {
            Val::F(f) => num(*f),
            Val::V2(v) => vec![
                format!("[{}, {}]", num(v[0])[0], num(v[1])[0]),
                format!("vec2({}, {})", num(v[0]).last().unwrap(), num(v[1])[0]),
            ],
            Val::V3(v) => vec![
                format!("[{}, {}, {}]", num(v[0])[0], num(v[1])[0], num(v[2])[0]),
                format!("vec3({}, {}, {})", num(v[0])[0], num(v[1]).last().unwrap(), num(v[2])[0]),
            ],
            Val::T(s, _) => vec![s.clone()],
        }
    }
}

struct Field {
    name: &'static str,
    val: Val,
    /// default value if the field may be omitted
    default: Option<Val>,
}

struct ShapeSpec {
    fname: &'static str,
    fields: Vec<Field>,
    build: fn(&[Val]) -> Tree,
    /// field types are pairwise distinct => positional form in any order
    unique_types: bool,
}

fn f(v: &Val) -> f32 {
    match v {
        Val::F(f) => *f,
        _ => panic!(),
    }
}
fn v2(v: &Val) -> Vec2 {
    match v {
        Val::V2(a) => Vec2::new(a[0], a[1]),
        _ => panic!(),
    }
}
fn v3(v: &Val) -> Vec3 {
    match v {
        Val::V3(a) => Vec3::new(a[0], a[1], a[2]),
        _ => panic!(),
    }
}
fn t(v: &Val) -> Tree {
    match v {
        Val::T(_, t) => t.clone(),
        _ => panic!(),
    }
}

fn probe() -> Val {
    Val::T("(x * y + 2)".into(), Tree::x() * Tree::y() + 2.0)
}
fn probe2() -> Val {
    Val::T("max(x, z)".into(), Tree::x().max(Tree::z()))
}

fn specs() -> Vec<ShapeSpec> {
    use fidget_shapes::*;
    vec![
        ShapeSpec {
            fname: "circle",
            fields: vec![
                Field { name: "center", val: Val::V2([1.0, 2.0]), default: Some(Val::V2([0.0, 0.0])) },
                Field { name: "radius", val: Val::F(3.0), default: Some(Val::F(1.0)) },
            ],
            build: |v| Circle { center: v2(&v[0]), radius: f(&v[1]) }.into(),
            unique_types: true,
        },
        ShapeSpec {
            fname: "sphere",
            fields: vec![
                Field { name: "center", val: Val::V3([1.0, 2.0, 4.0]), default: Some(Val::V3([0.0, 0.0, 0.0])) },
                Field { name: "radius", val: Val::F(0.5), default: Some(Val::F(1.0)) },
            ],
            build: |v| Sphere { center: v3(&v[0]), radius: f(&v[1]) }.into(),
            unique_types: true,
        },
        ShapeSpec {
            fname: "rectangle",
            fields: vec![
                Field { name: "lower", val: Val::V2([-1.0, -2.0]), default: None },
                Field { name: "upper", val: Val::V2([1.5, 2.0]), default: None },
            ],
            build: |v| Rectangle { lower: v2(&v[0]), upper: v2(&v[1]) }.into(),
            unique_types: false,
        },
        ShapeSpec {
            fname: "box",
            fields: vec![
                Field { name: "lower", val: Val::V3([-1.0, -2.0, 0.0]), default: None },
                Field { name: "upper", val: Val::V3([1.5, 2.0, 3.0]), default: None },
            ],
            build: |v| fidget_shapes::Box { lower: v3(&v[0]), upper: v3(&v[1]) }.into(),
            unique_types: false,
        },
        ShapeSpec {
            fname: "move",
            fields: vec![
                Field { name: "shape", val: probe(), default: None },
                Field { name: "offset", val: Val::V3([1.0, -1.0, 2.0]), default: Some(Val::V3([0.0, 0.0, 0.0])) },
            ],
            build: |v| Move { shape: t(&v[0]), offset: v3(&v[1]) }.into(),
            unique_types: true,
        },
        ShapeSpec {
            fname: "scale",
            fields: vec![
                Field { name: "shape", val: probe(), default: None },
                Field { name: "scale", val: Val::V3([2.0, 0.5, 4.0]), default: Some(Val::V3([1.0, 1.0, 1.0])) },
            ],
            build: |v| Scale { shape: t(&v[0]), scale: v3(&v[1]) }.into(),
            unique_types: true,
        },
        ShapeSpec {
            fname: "scale_uniform",
            fields: vec![
                Field { name: "shape", val: probe(), default: None },
                Field { name: "scale", val: Val::F(2.0), default: Some(Val::F(1.0)) },
            ],
            build: |v| ScaleUniform { shape: t(&v[0]), scale: f(&v[1]) }.into(),
            unique_types: true,
        },
        ShapeSpec {
            fname: "rotate_z",
            fields: vec![
                Field { name: "shape", val: probe(), default: None },
                Field { name: "angle", val: Val::F(30.0), default: Some(Val::F(0.0)) },
                Field { name: "center", val: Val::V3([1.0, 0.5, 0.0]), default: Some(Val::V3([0.0, 0.0, 0.0])) },
            ],
            build: |v| RotateZ { shape: t(&v[0]), angle: f(&v[1]), center: v3(&v[2]) }.into(),
            unique_types: true,
        },
        ShapeSpec {
            fname: "reflect_x",
            fields: vec![
                Field { name: "shape", val: probe(), default: None },
                Field { name: "offset", val: Val::F(0.5), default: Some(Val::F(0.0)) },
            ],
            build: |v| ReflectX { shape: t(&v[0]), offset: f(&v[1]) }.into(),
            unique_types: true,
        },
        ShapeSpec {
            fname: "reflect_y",
            fields: vec![
                Field { name: "shape", val: probe(), default: None },
                Field { name: "offset", val: Val::F(-1.5), default: Some(Val::F(0.0)) },
            ],
            build: |v| ReflectY { shape: t(&v[0]), offset: f(&v[1]) }.into(),
            unique_types: true,
        },
        ShapeSpec {
            fname: "reflect_z",
            fields: vec![
                Field { name: "shape", val: probe(), default: None },
                Field { name: "offset", val: Val::F(0.25), default: Some(Val::F(0.0)) },
            ],
            build: |v| ReflectZ { shape: t(&v[0]), offset: f(&v[1]) }.into(),
            unique_types: true,
        },
        ShapeSpec {
            fname: "reflect_xy",
            fields: vec![
                Field { name: "shape", val: probe(), default: None },
                Field { name: "offset", val: Val::F(2.0), default: Some(Val::F(0.0)) },
            ],
            build: |v| ReflectXY { shape: t(&v[0]), offset: f(&v[1]) }.into(),
            unique_types: true,
        },
        ShapeSpec {
            fname: "rotate_x",
            fields: vec![
                Field { name: "shape", val: probe(), default: None },
                Field { name: "angle", val: Val::F(-45.0), default: Some(Val::F(0.0)) },
                Field { name: "center", val: Val::V3([0.5, 1.0, -2.0]), default: Some(Val::V3([0.0, 0.0, 0.0])) },
            ],
            build: |v| RotateX { shape: t(&v[0]), angle: f(&v[1]), center: v3(&v[2]) }.into(),
            unique_types: true,
        },
        ShapeSpec {
            fname: "rotate_y",
            fields: vec![
                Field { name: "shape", val: probe(), default: None },
                Field { name: "angle", val: Val::F(90.0), default: Some(Val::F(0.0)) },
                Field { name: "center", val: Val::V3([-1.0, 0.25, 3.0]), default: Some(Val::V3([0.0, 0.0, 0.0])) },
            ],
            build: |v| RotateY { shape: t(&v[0]), angle: f(&v[1]), center: v3(&v[2]) }.into(),
            unique_types: true,
        },
        ShapeSpec {
            fname: "revolve_y",
            fields: vec![
                Field { name: "shape", val: probe(), default: None },
                Field { name: "offset", val: Val::F(0.5), default: Some(Val::F(0.0)) },
            ],
            build: |v| RevolveY { shape: t(&v[0]), offset: f(&v[1]) }.into(),
            unique_types: true,
        },
        ShapeSpec {
            fname: "repeat_x",
            fields: vec![
                Field { name: "shape", val: probe(), default: None },
                Field { name: "radius", val: Val::F(2.0), default: Some(Val::F(1.0)) },
                Field { name: "offset", val: Val::F(0.5), default: Some(Val::F(0.0)) },
            ],
            build: |v| RepeatX { shape: t(&v[0]), radius: f(&v[1]), offset: f(&v[2]) }.into(),
            unique_types: false,
        },
        ShapeSpec {
            fname: "extrude_z",
            fields: vec![
                Field { name: "shape", val: probe(), default: None },
                Field { name: "lower", val: Val::F(-1.0), default: Some(Val::F(0.0)) },
                Field { name: "upper", val: Val::F(2.0), default: Some(Val::F(1.0)) },
            ],
            build: |v| ExtrudeZ { shape: t(&v[0]), lower: f(&v[1]), upper: f(&v[2]) }.into(),
            unique_types: false,
        },
        ShapeSpec {
            fname: "difference",
            fields: vec![
                Field { name: "shape", val: probe(), default: None },
                Field { name: "cutout", val: probe2(), default: None },
            ],
            build: |v| Difference { shape: t(&v[0]), cutout: t(&v[1]) }.into(),
            unique_types: false,
        },
        ShapeSpec {
            fname: "inverse",
            fields: vec![Field { name: "shape", val: probe(), default: None }],
            build: |v| Inverse { shape: t(&v[0]) }.into(),
            unique_types: true,
        },
        ShapeSpec {
            fname: "blend",
            fields: vec![
                Field { name: "a", val: probe(), default: None },
                Field { name: "b", val: probe2(), default: None },
                Field { name: "radius", val: Val::F(0.5), default: None },
            ],
            build: |v| Blend { a: t(&v[0]), b: t(&v[1]), radius: f(&v[2]) }.into(),
            unique_types: false,
        },
        ShapeSpec {
            fname: "loft_z",
            fields: vec![
                Field { name: "a", val: probe(), default: None },
                Field { name: "b", val: probe2(), default: None },
                Field { name: "lower", val: Val::F(-1.0), default: Some(Val::F(0.0)) },
                Field { name: "upper", val: Val::F(2.0), default: Some(Val::F(1.0)) },
            ],
            build: |v| LoftZ { a: t(&v[0]), b: t(&v[1]), lower: f(&v[2]), upper: f(&v[3]) }.into(),
            unique_types: false,
        },
    ]
}

fn permutations(n: usize) -> Vec<Vec<usize>> {
    let mut out = vec![];
    let mut idx: Vec<usize> = (0..n).collect();
    fn rec(k: usize, idx: &mut Vec<usize>, out: &mut Vec<Vec<usize>>) {
        if k == idx.len() {
            out.push(idx.clone());
            return;
        }
        for i in k..idx.len() {
            idx.swap(k, i);
            rec(k + 1, idx, out);
            idx.swap(k, i);
        }
    }
    rec(0, &mut idx, &mut out);
    out
}

/// (script, expected) pairs and (script that must be an error) for a shape
fn shape_scripts(s: &ShapeSpec) -> (Vec<(String, Tree)>, Vec<String>) {
    let mut ok = vec![];
    let mut bad = vec![];
    let n = s.fields.len();
    let optional: Vec<usize> = (0..n).filter(|i| s.fields[*i].default.is_some()).collect();
    // every subset of defaulted fields omitted
    for mask in 0..(1u32 << optional.len()) {
        let omitted: Vec<usize> = optional.iter().enumerate().filter(|(k, _)| (mask >> k) & 1 == 1).map(|(_, i)| *i).collect();
        let vals: Vec<Val> = (0..n)
            .map(|i| if omitted.contains(&i) { s.fields[i].default.clone().unwrap() } else { s.fields[i].val.clone() })
            .collect();
        let expect = (s.build)(&vals);
        let present: Vec<usize> = (0..n).filter(|i| !omitted.contains(i)).collect();
        // spellings: vary one field's spelling at a time
        let nsp = present.iter().map(|i| s.fields[*i].val.spellings().len()).max().unwrap_or(1);
        for sp in 0..nsp {
            let spell = |i: usize| -> String {
                let v = s.fields[i].val.spellings();
                v[sp % v.len()].clone()
            };
            // (1) map form
            let body: Vec<String> = present.iter().map(|i| format!("{}: {}", s.fields[*i].name, spell(*i))).collect();
            ok.push((format!("{}(#{{ {} }})", s.fname, body.join(", ")), expect.clone()));
            // (2) positional form, every order
            if s.unique_types {
                for perm in permutations(present.len()) {
                    let args: Vec<String> = perm.iter().map(|k| spell(present[*k])).collect();
                    ok.push((format!("{}({})", s.fname, args.join(", ")), expect.clone()));
                }
            }
            // (3) transform forms: tree first, map of the rest; chained
            let is_transform = matches!(s.fields[0].val, Val::T(..))
                && s.fields[1..].iter().all(|f| !matches!(f.val, Val::T(..)));
            if is_transform && !omitted.contains(&0) {
                let rest: Vec<String> = present.iter().filter(|i| **i != 0).map(|i| format!("{}: {}", s.fields[*i].name, spell(*i))).collect();
                let all_rest_present = (1..n).all(|i| present.contains(&i));
                if all_rest_present {
                    ok.push((format!("{}({}, #{{ {} }})", s.fname, spell(0), rest.join(", ")), expect.clone()));
                    ok.push((format!("{}.{}(#{{ {} }})", spell(0), s.fname, rest.join(", ")), expect.clone()));
                }
                if s.unique_types {
                    let args: Vec<String> = present.iter().filter(|i| **i != 0).map(|i| spell(*i)).collect();
                    ok.push((format!("{}.{}({})", spell(0), s.fname, args.join(", ")), expect.clone()));
                }
            }
        }
    }
    // (6) vec2 -> vec3 promotion in EVERY call form: a 2-element value for a
    // Vec3 field takes z from the field's documented default
    for (vi, fld) in s.fields.iter().enumerate() {
        let (Val::V3(full), Some(Val::V3(dflt))) = (&fld.val, &fld.default) else { continue };
        let has_v2_field = s.fields.iter().any(|f| matches!(f.val, Val::V2(_)));
        let vals: Vec<Val> = (0..n)
            .map(|i| if i == vi { Val::V3([full[0], full[1], dflt[2]]) } else { s.fields[i].val.clone() })
            .collect();
        let expect = (s.build)(&vals);
        for two in [
            format!("[{}, {}]", full[0], full[1]),
            format!("vec2({}, {})", full[0], full[1]),
        ] {
            let spell = |i: usize| -> String {
                if i == vi { two.clone() } else { s.fields[i].val.spellings()[0].clone() }
            };
            let body: Vec<String> = (0..n).map(|i| format!("{}: {}", s.fields[i].name, spell(i))).collect();
            ok.push((format!("{}(#{{ {} }})", s.fname, body.join(", ")), expect.clone()));
            let is_transform = matches!(s.fields[0].val, Val::T(..))
                && s.fields[1..].iter().all(|f| !matches!(f.val, Val::T(..)));
            if is_transform {
                let rest: Vec<String> = (1..n).map(|i| format!("{}: {}", s.fields[i].name, spell(i))).collect();
                ok.push((format!("{}({}, #{{ {} }})", s.fname, spell(0), rest.join(", ")), expect.clone()));
                ok.push((format!("{}.{}(#{{ {} }})", spell(0), s.fname, rest.join(", ")), expect.clone()));
            }
            if s.unique_types && !has_v2_field {
                for perm in permutations(n) {
                    let args: Vec<String> = perm.iter().map(|k| spell(*k)).collect();
                    ok.push((format!("{}({})", s.fname, args.join(", ")), expect.clone()));
                }
                if is_transform {
                    let args: Vec<String> = (1..n).map(spell).collect();
                    ok.push((format!("{}.{}({})", spell(0), s.fname, args.join(", ")), expect.clone()));
                }
            }
        }
    }
    // (4) two-tree form
    if n == 2 && s.fields.iter().all(|f| matches!(f.val, Val::T(..))) {
        let vals: Vec<Val> = s.fields.iter().map(|f| f.val.clone()).collect();
        let (a, b) = (vals[0].spellings()[0].clone(), vals[1].spellings()[0].clone());
        ok.push((format!("{}({a}, {b})", s.fname), (s.build)(&vals)));
        ok.push((format!("{a}.{}({b})", s.fname), (s.build)(&vals)));
        // numbers and arrays coerce to trees
        let num = Val::T("2".into(), Tree::constant(2.0));
        ok.push((format!("{}({a}, 2)", s.fname), (s.build)(&[vals[0].clone(), num])));
        let arr = Val::T("[x, y]".into(), union_of(&[Tree::x(), Tree::y()]));
        ok.push((format!("{}([x, y], {b})", s.fname), (s.build)(&[arr, vals[1].clone()])));
    }
    // (5) ordered positional form for shapes whose types repeat
    if !s.unique_types && !(n == 2 && s.fields.iter().all(|f| matches!(f.val, Val::T(..)))) {
        let vals: Vec<Val> = s.fields.iter().map(|f| f.val.clone()).collect();
        let args: Vec<String> = vals.iter().map(|v| v.spellings()[0].clone()).collect();
        ok.push((format!("{}({})", s.fname, args.join(", ")), (s.build)(&vals)));
    }
    // (7) unknown field and missing mandatory field are errors
    let body: Vec<String> = (0..n).map(|i| format!("{}: {}", s.fields[i].name, s.fields[i].val.spellings()[0])).collect();
    bad.push(format!("{}(#{{ {}, bogus_field: 1 }})", s.fname, body.join(", ")));
    for i in 0..n {
        if s.fields[i].default.is_none() {
            let body: Vec<String> = (0..n).filter(|j| *j != i).map(|j| format!("{}: {}", s.fields[j].name, s.fields[j].val.spellings()[0])).collect();
            bad.push(format!("{}(#{{ {} }})", s.fname, body.join(", ")));
        }
    }
    (ok, bad)
}

fn promotion_and_reducers() -> (Vec<(String, Tree)>, Vec<String>) {
    use fidget_shapes::*;
    let mut ok: Vec<(String, Tree)> = vec![];
    let p = Tree::x() * Tree::y() + 2.0;
    let ps = "(x * y + 2)";
    // vec2 -> vec3 promotion with the shape-specific default z
    ok.push((format!("move({ps}, #{{ offset: [1, 1] }})"), Move { shape: p.clone(), offset: Vec3::new(1.0, 1.0, 0.0) }.into()));
    ok.push((format!("{ps}.move([1, 1])"), Move { shape: p.clone(), offset: Vec3::new(1.0, 1.0, 0.0) }.into()));
    ok.push((format!("scale(#{{ shape: {ps}, scale: [2, 3] }})"), Scale { shape: p.clone(), scale: Vec3::new(2.0, 3.0, 1.0) }.into()));
    ok.push((format!("{ps}.scale(vec2(2, 3))"), Scale { shape: p.clone(), scale: Vec3::new(2.0, 3.0, 1.0) }.into()));
    ok.push(("sphere([1, 1], 4)".into(), Sphere { center: Vec3::new(1.0, 1.0, 0.0), radius: 4.0 }.into()));
    ok.push(("sphere(4, [1, 1])".into(), Sphere { center: Vec3::new(1.0, 1.0, 0.0), radius: 4.0 }.into()));
    ok.push(("sphere(#{ center: [1, 1], radius: 4 })".into(), Sphere { center: Vec3::new(1.0, 1.0, 0.0), radius: 4.0 }.into()));
    ok.push(("circle()".into(), Circle { center: Vec2::new(0.0, 0.0), radius: 1.0 }.into()));
    // reducers with 1..=8 arguments and with an array; automatic reduction
    let items: Vec<(String, Tree)> = vec![
        ("x".into(), Tree::x()),
        ("(y + 1)".into(), Tree::y() + 1.0),
        ("sin(z)".into(), Tree::z().sin()),
        ("2".into(), Tree::constant(2.0)),
        ("min(x, y)".into(), Tree::x().min(Tree::y())),
        ("(z * 0.5)".into(), Tree::z() * 0.5),
        ("abs(x)".into(), Tree::x().abs()),
        ("(x - y)".into(), Tree::x() - Tree::y()),
    ];
    for k in 1..=8usize {
        let scripts: Vec<String> = items[..k].iter().map(|i| i.0.clone()).collect();
        let trees: Vec<Tree> = items[..k].iter().map(|i| i.1.clone()).collect();
        // NOTE: the single-argument tuple form `union(x)` is shadowed by the
        // unique-typed positional builder and is rejected ("missing argument of
        // type Vec<Tree>"); the property does not promise it, so it is not
        // generated (recorded as an observation in DESIGN.md)
        if k >= 2 {
            ok.push((format!("union({})", scripts.join(", ")), Union { input: trees.clone() }.into()));
            ok.push((format!("intersection({})", scripts.join(", ")), Intersection { input: trees.clone() }.into()));
        }
        ok.push((format!("union([{}])", scripts.join(", ")), Union { input: trees.clone() }.into()));
        ok.push((format!("intersection(#{{ input: [{}] }})", scripts.join(", ")), Intersection { input: trees.clone() }.into()));
        // a single ARRAY argument in positional and chained form, for both reducers
        // (for union the array-coerces-to-union rule gives the same tree by accident;
        // for intersection it does not)
        ok.push((format!("intersection([{}])", scripts.join(", ")), Intersection { input: trees.clone() }.into()));
        ok.push((format!("union(#{{ input: [{}] }})", scripts.join(", ")), Union { input: trees.clone() }.into()));
        if k >= 2 {
            ok.push((format!("[{}].intersection()", scripts.join(", ")), Intersection { input: trees.clone() }.into()));
            ok.push((format!("[{}].union()", scripts.join(", ")), Union { input: trees.clone() }.into()));
        }
    }
    ok.push(("intersection([])".into(), Intersection { input: vec![] }.into()));
    ok.push(("union([])".into(), Union { input: vec![] }.into()));
    ok.push((
        format!("[x, (y + 1)].move(#{{ offset: [1, 1, 1] }})"),
        Move { shape: Union { input: vec![Tree::x(), Tree::y() + 1.0] }.into(), offset: Vec3::new(1.0, 1.0, 1.0) }.into(),
    ));
    ok.push((
        "inverse(#{ shape: [x, y] })".to_string(),
        Inverse { shape: Union { input: vec![Tree::x(), Tree::y()] }.into() }.into(),
    ));
    let bad = vec![
        "circle(#{ center: 3.0, radius: 3 })".to_string(),
        "sphere([1, 2, 3, 4])".to_string(),
        "move(x, #{ offset: [1, 1], nope: 2 })".to_string(),
        "difference(x)".to_string(),
    ];
    (ok, bad)
}

/// A vector-valued script expression with its value computed component-wise in
/// f32, operands in source order
#[derive(Clone)]
struct VE {
    script: String,
    val: Vec<f32>,
}

fn vector_exprs(n: usize) -> Vec<VE> {
    let ctor = if n == 2 { "vec2" } else { "vec3" };
    let lit = |v: &[f32]| -> VE {
        let parts: Vec<String> = v[..n].iter().map(|c| format!("{c:?}")).collect();
        VE { script: format!("{ctor}({})", parts.join(", ")), val: v[..n].to_vec() }
    };
    let vecs = vec![lit(&[3.0, 4.0, 5.0]), lit(&[0.5, -2.0, 8.0])];
    // scalars: integer and float spellings
    let scalars: Vec<(String, f32)> = vec![("8".into(), 8.0), ("1.5".into(), 1.5), ("-3".into(), -3.0)];
    type Op = (&'static str, bool, fn(f32, f32) -> f32);
    let ops: Vec<Op> = vec![
        ("+", true, |a, b| a + b),
        ("-", true, |a, b| a - b),
        ("*", true, |a, b| a * b),
        ("/", true, |a, b| a / b),
        ("min", false, |a: f32, b: f32| a.min(b)),
        ("max", false, |a: f32, b: f32| a.max(b)),
    ];
    let apply = |op: &Op, a: &VE, b: &VE| -> VE {
        let script = if op.1 { format!("({} {} {})", a.script, op.0, b.script) } else { format!("{}({}, {})", op.0, a.script, b.script) };
        let val = (0..n)
            .map(|i| {
                let x = if a.val.len() == 1 { a.val[0] } else { a.val[i] };
                let y = if b.val.len() == 1 { b.val[0] } else { b.val[i] };
                (op.2)(x, y)
            })
            .collect();
        VE { script, val }
    };
    let sc: Vec<VE> = scalars.iter().map(|(s, v)| VE { script: s.clone(), val: vec![*v] }).collect();
    let mut d1: Vec<VE> = vec![];
    for op in &ops {
        for a in &vecs {
            for b in &vecs {
                d1.push(apply(op, a, b));
            }
            for s in &sc {
                d1.push(apply(op, a, s));
                d1.push(apply(op, s, a));
            }
        }
    }
    for a in &vecs {
        d1.push(VE { script: format!("(-{})", a.script), val: a.val.iter().map(|c| -c).collect() });
        d1.push(VE { script: format!("abs({})", a.script), val: a.val.iter().map(|c| c.abs()).collect() });
    }
    d1.push(VE { script: format!("sqrt({})", vecs[0].script), val: vecs[0].val.iter().map(|c| c.sqrt()).collect() });
    // depth 2: every depth-1 vector as the left or right operand of every
    // operator with a scalar and with a vector
    let mut out = vecs.clone();
    out.extend(d1.iter().cloned());
    for op in &ops {
        for e in &d1 {
            for o in sc.iter().take(2).chain(vecs.iter().take(1)) {
                out.push(apply(op, e, o));
                out.push(apply(op, o, e));
            }
        }
    }
    out.retain(|e| e.val.iter().all(|c| c.is_finite()));
    out
}

/// Named mathematical constants the engine must resolve (values written from
/// the Rust standard library / the closed form, not read from fidget-rhai)
fn named_constants() -> Vec<(&'static str, f64)> {
    use std::f64::consts as c;
    vec![
        ("PI", c::PI),
        ("E", c::E),
        ("TAU", c::TAU),
        ("SQRT_2", c::SQRT_2),
        ("LN_2", c::LN_2),
        ("LN_10", c::LN_10),
        ("LOG2_E", c::LOG2_E),
        ("LOG10_E", c::LOG10_E),
        ("FRAC_PI_2", c::FRAC_PI_2),
        ("FRAC_PI_3", c::FRAC_PI_3),
        ("FRAC_PI_4", c::FRAC_PI_4),
        ("FRAC_PI_6", c::FRAC_PI_6),
        ("FRAC_PI_8", c::FRAC_PI_8),
        ("FRAC_1_PI", c::FRAC_1_PI),
        ("FRAC_2_PI", c::FRAC_2_PI),
        ("FRAC_2_SQRT_PI", c::FRAC_2_SQRT_PI),
        ("FRAC_1_SQRT_2", c::FRAC_1_SQRT_2),
        ("PHI", (1.0 + 5f64.sqrt()) / 2.0),
        ("GOLDEN_RATIO", (1.0 + 5f64.sqrt()) / 2.0),
    ]
}

fn constant_scripts() -> (Vec<(String, Tree)>, Vec<String>) {
    use fidget_shapes::*;
    let mut ok = vec![];
    for (name, v) in named_constants() {
        let c = v as f32;
        ok.push((format!("(x + {name})"), Tree::x() + c));
        ok.push((format!("({name} - y)"), Tree::constant(c) - Tree::y()));
        ok.push((format!("max(z, {name})"), Tree::z().max(c)));
        ok.push((format!("atan2({name}, x)"), Tree::constant(c).atan2(Tree::x())));
        ok.push((format!("circle(#{{ radius: {name} }})"), Circle { center: Vec2::new(0.0, 0.0), radius: c }.into()));
        // a script variable of the same name shadows the constant
        ok.push((format!("let {name} = 3.0; (x * {name})"), Tree::x() * 3.0));
        // number-only arithmetic on the constant is rhai's (f64), then coerced
        ok.push((format!("(y / ({name} * 2.0))"), Tree::y() / ((v * 2.0) as f32)));
    }
    // the axis names are fall-backs too: a script variable shadows them
    ok.push(("let x = 2.0; (x + y)".into(), Tree::constant(2.0) + Tree::y()));
    ok.push(("let y = x; (y * y)".into(), Tree::x() * Tree::x()));
    ok.push(("let z = 7; (z - x)".into(), Tree::constant(7.0) - Tree::x()));
    ok.push(("let foo = (x + 1); let bar = foo * foo; (bar - foo)".into(), {
        let foo = Tree::x() + 1.0;
        let bar = foo.clone() * foo.clone();
        bar - foo
    }));
    let bad = vec!["(x + NOPE)".to_string(), "(x + pi)".to_string(), "(Pi * y)".to_string(), "w".to_string()];
    (ok, bad)
}

fn axes_remap_scripts() -> Vec<(String, Tree)> {
    let mut ok: Vec<(String, Tree)> = vec![];
    let (x, y, z) = Tree::axes();
    ok.push(("axes().x".into(), x.clone()));
    ok.push(("axes().y".into(), y.clone()));
    ok.push(("axes().z".into(), z.clone()));
    ok.push(("let a = axes(); ((a.x + a.y) * a.z)".into(), (x.clone() + y.clone()) * z.clone()));
    ok.push(("let a = axes(); (a.z - a.x)".into(), z.clone() - x.clone()));
    // remap(shape, x', y', z'), the method form, and the two-argument form
    let shapes: Vec<(String, Tree)> = vec![
        ("(x + (y * z))".into(), x.clone() + y.clone() * z.clone()),
        ("min(x, (z - 1))".into(), x.clone().min(z.clone() - 1.0)),
        ("[x, y]".into(), union_of(&[x.clone(), y.clone()])),
        ("2".into(), Tree::constant(2.0)),
    ];
    let subst: Vec<(String, Tree)> = vec![
        ("y".into(), y.clone()),
        ("(x * 2)".into(), x.clone() * 2.0),
        ("sin(z)".into(), z.clone().sin()),
    ];
    for (ss, st) in &shapes {
        for (xs, xt) in &subst {
            for (ys, yt) in &subst {
                for (zs, zt) in &subst {
                    let want = st.remap_xyz(xt.clone(), yt.clone(), zt.clone());
                    ok.push((format!("remap({ss}, {xs}, {ys}, {zs})"), want.clone()));
                    if ss != "2" {
                        ok.push((format!("{ss}.remap({xs}, {ys}, {zs})"), want));
                    }
                }
                let want = st.remap_xyz(xt.clone(), yt.clone(), Tree::z());
                ok.push((format!("remap({ss}, {xs}, {ys})"), want.clone()));
                if ss != "2" {
                    ok.push((format!("{ss}.remap({xs}, {ys})"), want));
                }
            }
        }
    }
    // nested: later remaps act on the coordinates first
    ok.push((
        "remap(remap((x - y), y, x, z), (x + 1), (y * 2), z)".into(),
        (x.clone() - y.clone()).remap_xyz(y.clone(), x.clone(), z.clone()).remap_xyz(x.clone() + 1.0, y.clone() * 2.0, z.clone()),
    ));
    ok
}

/// Rotate (Tree, Axis, f32, Vec3) and Reflect (Tree, Plane): every spelling of
/// an axis / a plane, in the map, positional (every order), tree-first + map
/// and chained forms, with every subset of defaulted fields omitted
fn axis_plane_scripts() -> (Vec<(String, Tree)>, Vec<String>) {
    use fidget_shapes::types::{Axis, Plane};
    use fidget_shapes::*;
    let mut ok: Vec<(String, Tree)> = vec![];
    let p = Tree::x() * Tree::y() + 2.0;
    let ps = "(x * y + 2)";
    let oblique = Axis::try_from(Vec3::new(1.0, 2.0, 2.0)).unwrap();
    // (spelling, value, usable in the unique-typed positional form)
    let axes: Vec<(&str, Axis, bool)> = vec![
        ("\"x\"", Axis::X, true),
        ("\"Y\"", Axis::Y, true),
        ("'z'", Axis::Z, true),
        ("'X'", Axis::X, true),
        ("axis(\"y\")", Axis::Y, true),
        ("axis('z')", Axis::Z, true),
        ("axis(x)", Axis::X, true),
        ("axis([0, 1, 0])", Axis::Y, true),
        ("axis([1, 0])", Axis::X, true),
        ("axis(vec3(0, 0, 1))", Axis::Z, true),
        ("axis([1, 2, 2])", oblique, true),
        ("axis(vec3(1.0, 2, 2.0))", oblique, true),
        ("axis(axis(\"x\"))", Axis::X, true),
        // in positional form these would be taken as the Tree / the Vec3
        ("y", Axis::Y, false),
        ("[0, 0, 1]", Axis::Z, false),
        ("vec3(1, 2, 2)", oblique, false),
    ];
    let (angle, center) = (30.0f32, Vec3::new(1.0, 0.5, -2.0));
    let (angle_s, center_s) = ("30", "[1, 0.5, -2]");
    for (asp, aval, positional) in &axes {
        // fields 1..=3 (axis, angle, center) present or omitted
        for mask in 0..8u32 {
            let has = |k: u32| (mask >> k) & 1 == 1;
            let want: Tree = Rotate {
                shape: p.clone(),
                axis: if has(0) { *aval } else { Axis::Z },
                angle: if has(1) { angle } else { 0.0 },
                center: if has(2) { center } else { Vec3::new(0.0, 0.0, 0.0) },
            }
            .into();
            let mut named: Vec<String> = vec![];
            let mut args: Vec<String> = vec![];
            if has(0) {
                named.push(format!("axis: {asp}"));
                args.push((*asp).to_string());
            }
            if has(1) {
                named.push(format!("angle: {angle_s}"));
                args.push(angle_s.to_string());
            }
            if has(2) {
                named.push(format!("center: {center_s}"));
                args.push(center_s.to_string());
            }
            ok.push((format!("rotate(#{{ shape: {ps}, {} }})", named.join(", ")), want.clone()));
            if mask == 7 {
                ok.push((format!("rotate({ps}, #{{ {} }})", named.join(", ")), want.clone()));
                ok.push((format!("{ps}.rotate(#{{ {} }})", named.join(", ")), want.clone()));
            }
            if *positional || !has(0) {
                let mut all = vec![ps.to_string()];
                all.extend(args.iter().cloned());
                for perm in permutations(all.len()) {
                    let a: Vec<String> = perm.iter().map(|k| all[*k].clone()).collect();
                    ok.push((format!("rotate({})", a.join(", ")), want.clone()));
                }
                ok.push((format!("{ps}.rotate({})", args.join(", ")), want.clone()));
            }
        }
    }
    // planes
    let planes: Vec<(&str, Plane, bool)> = vec![
        ("\"xy\"", Plane::XY, true),
        ("\"YZ\"", Plane::YZ, true),
        ("\"zx\"", Plane::ZX, true),
        ("plane(\"xy\")", Plane::XY, true),
        ("plane(\"zx\", 2.5)", Plane { axis: Plane::ZX.axis, offset: 2.5 }, true),
        ("plane(\"x\")", Plane { axis: Axis::X, offset: 0.0 }, true),
        ("plane('y', -1.5)", Plane { axis: Axis::Y, offset: -1.5 }, true),
        ("plane(axis(\"z\"), 0.5)", Plane { axis: Axis::Z, offset: 0.5 }, true),
        ("plane(z)", Plane { axis: Axis::Z, offset: 0.0 }, true),
        ("plane([1, 0, 0], 2.0)", Plane { axis: Axis::X, offset: 2.0 }, true),
        ("plane([1, 2, 2], 3.0)", Plane { axis: oblique, offset: 3.0 }, true),
        ("plane(plane(\"y\", 4.0))", Plane { axis: Axis::Y, offset: 4.0 }, true),
        // an axis where a plane is expected: the plane through the origin
        ("axis(\"y\")", Plane { axis: Axis::Y, offset: 0.0 }, true),
        ("\"x\"", Plane { axis: Axis::X, offset: 0.0 }, true),
        ("'z'", Plane { axis: Axis::Z, offset: 0.0 }, true),
        ("axis([1, 2, 2])", Plane { axis: oblique, offset: 0.0 }, true),
        ("x", Plane { axis: Axis::X, offset: 0.0 }, false),
        ("[0, 1, 0]", Plane { axis: Axis::Y, offset: 0.0 }, false),
    ];
    for (sp, val, positional) in &planes {
        let want: Tree = Reflect { shape: p.clone(), plane: *val }.into();
        ok.push((format!("reflect(#{{ shape: {ps}, plane: {sp} }})"), want.clone()));
        ok.push((format!("reflect({ps}, #{{ plane: {sp} }})"), want.clone()));
        ok.push((format!("{ps}.reflect(#{{ plane: {sp} }})"), want.clone()));
        if *positional {
            ok.push((format!("reflect({ps}, {sp})"), want.clone()));
            ok.push((format!("reflect({sp}, {ps})"), want.clone()));
            ok.push((format!("{ps}.reflect({sp})"), want.clone()));
        }
    }
    let dflt: Tree = Reflect { shape: p.clone(), plane: Plane::YZ }.into();
    ok.push((format!("reflect(#{{ shape: {ps} }})"), dflt.clone()));
    ok.push((format!("reflect({ps})"), dflt.clone()));
    ok.push((format!("{ps}.reflect()"), dflt));
    let bad = vec![
        format!("rotate(#{{ shape: {ps}, axis: \"w\" }})"),
        format!("rotate(#{{ shape: {ps}, axis: [0, 0, 0] }})"),
        format!("rotate(#{{ shape: {ps}, axis: (x + 1) }})"),
        format!("reflect(#{{ shape: {ps}, plane: \"xx\" }})"),
        format!("reflect(#{{ plane: \"xy\" }})"),
        "axis([0, 0, 0])".to_string(),
        "axis(\"q\")".to_string(),
        "plane(\"qq\")".to_string(),
    ];
    (ok, bad)
}

/// vec2 / vec3 constructor forms feeding a shape
fn vec_ctor_scripts() -> (Vec<(String, Tree)>, Vec<String>) {
    use fidget_shapes::*;
    let c2 = |x: f32, y: f32| -> Tree { Circle { center: Vec2::new(x, y), radius: 1.0 }.into() };
    let s3 = |x: f32, y: f32, z: f32| -> Tree { Sphere { center: Vec3::new(x, y, z), radius: 1.0 }.into() };
    let ok = vec![
        ("circle(#{ center: vec2([1, 2.5]) })".to_string(), c2(1.0, 2.5)),
        ("circle(#{ center: vec2(vec2(3, 4)) })".to_string(), c2(3.0, 4.0)),
        ("circle(#{ center: vec2(1.5, 2) })".to_string(), c2(1.5, 2.0)),
        ("circle(vec2([7, 8]))".to_string(), c2(7.0, 8.0)),
        ("sphere(#{ center: vec3([1, 2, 3]) })".to_string(), s3(1.0, 2.0, 3.0)),
        ("sphere(#{ center: vec3([1, 2]) })".to_string(), s3(1.0, 2.0, 0.0)),
        ("sphere(#{ center: vec3(vec3(4, 5.5, 6)) })".to_string(), s3(4.0, 5.5, 6.0)),
        ("sphere(vec3([9, 8, 7]))".to_string(), s3(9.0, 8.0, 7.0)),
        ("sphere(#{ center: vec2(1, 2) })".to_string(), s3(1.0, 2.0, 0.0)),
    ];
    let bad = vec![
        "vec2([1, 2, 3])".to_string(),
        "vec2([1])".to_string(),
        "vec3([1])".to_string(),
        "vec3([1, 2, 3, 4])".to_string(),
        "vec2(x, 1)".to_string(),
        "circle(#{ center: vec3(1, 2, 3) })".to_string(),
    ];
    (ok, bad)
}

#[derive(Clone, Debug)]
enum Unit {
    Depth1,
    Depth2Infix(usize),
    Depth2Fn(usize),
    Depth2Unary,
    Arrays,
    Comparisons,
    Shape(usize),
    Misc,
    /// arithmetic on vec2 / vec3 values feeding a shape constructor
    VectorOps,
    /// named mathematical constants and shadowing of the fall-back names
    Constants,
    /// axes(), remap(...)
    AxesRemap,
    /// rotate / reflect with every spelling of an axis / a plane
    AxisPlane,
    VecCtors,
}

fn units(_tier: Tier) -> Vec<Unit> {
    let mut v = vec![Unit::Depth1, Unit::Depth2Unary, Unit::Arrays, Unit::Comparisons, Unit::Misc, Unit::VectorOps, Unit::Constants, Unit::AxesRemap, Unit::AxisPlane, Unit::VecCtors];
    for i in 0..INFIX.len() {
        v.push(Unit::Depth2Infix(i));
    }
    for i in 0..BINFN.len() {
        v.push(Unit::Depth2Fn(i));
    }
    for i in 0..specs().len() {
        v.push(Unit::Shape(i));
    }
    v
}

struct Run<'a> {
    cx: &'a mut Cx,
    sub: u64,
    engine: rhai::Engine,
    /// the previous expected tree: a decoy that the script's tree must NOT equal
    /// (so that `Tree::eq` answering "equal" to everything cannot pass)
    prev: Option<Tree>,
}

impl Run<'_> {
    fn ok(&mut self, script: &str, want: &Tree, class: &str) {
        let s = self.sub;
        self.sub += 1;
        if !self.cx.case(s) {
            return;
        }
        let cx = &mut *self.cx;
        cx.add("cases", 1);
        cx.add("evals", 1);
        cx.add("nontrivial", 1);
        let desc = || json!({"script": script});
        match guard(|| self.engine.eval::<Tree>(script)) {
            Ok(Ok(t)) => {
                // the oracle is the harness's own structural comparison
                // (treecmp.rs), not the library's `Tree::eq`
                if let Some(d) = first_difference(&t, want) {
                    cx.violation(
                        format!("script builds a different tree ({class})"),
                        desc(),
                        format!("`{script}`: first difference: {d}; got {:?}, the Rust API builds {:?}", &*t, &**want),
                    );
                } else if &t != want {
                    cx.violation("Tree::eq says != for structurally identical trees", desc(), format!("`{script}`"));
                }
                if let Some(p) = &self.prev {
                    let differ = !struct_eq(&t, p);
                    cx.add("decoy_comparisons", 1);
                    if differ {
                        cx.add("decoys_structurally_different", 1);
                    }
                    if (&t != p) != differ {
                        cx.violation(
                            "Tree::eq disagrees with structural comparison",
                            desc(),
                            format!("`{script}` vs the previous case's tree {:?}: Tree::eq says {}, structure says {}", &**p, &t == p, !differ),
                        );
                    }
                }
            }
            Ok(Err(e)) => cx.violation(format!("script rejected ({class})"), desc(), format!("`{script}`: {e}")),
            Err(e) => cx.violation(format!("script evaluation panicked {}", panic_site(&e)), desc(), format!("`{script}`: {e}")),
        }
        self.prev = Some(want.clone());
        if s % 53 == 0 {
            cx.sample(desc);
        }
    }

    fn err(&mut self, script: &str, class: &str) {
        let s = self.sub;
        self.sub += 1;
        if !self.cx.case(s) {
            return;
        }
        let cx = &mut *self.cx;
        cx.add("cases", 1);
        cx.add("evals", 1);
        cx.add("must_error_cases", 1);
        let desc = || json!({"script": script, "must_be_error": true});
        match guard(|| self.engine.eval::<rhai::Dynamic>(script)) {
            Ok(Ok(v)) => cx.violation(
                format!("script accepted although it must be an error ({class})"),
                desc(),
                format!("`{script}` evaluated to a {}", v.type_name()),
            ),
            Ok(Err(_)) => (),
            Err(e) => cx.violation(format!("script evaluation panicked {}", panic_site(&e)), desc(), format!("`{script}`: {e}")),
        }
    }
}

impl Check for C17 {
    fn id(&self) -> &'static str {
        "C17"
    }
    fn units(&self, tier: Tier) -> usize {
        units(tier).len()
    }
    fn unit_label(&self, tier: Tier, unit: usize) -> String {
        format!("{:?}", units(tier)[unit])
    }
    fn meta(&self, _tier: Tier) -> Meta {
        Meta {
            rule: "case = script; (a) expressions generated exhaustively from the grammar E ::= x|y|z|int|float|(E op E)|f(E)|f(E,E)|-E|[E,..] to depth 2: every infix operator (+ - * / %) and every binary function (min max compare mix and or atan2) with tree/tree, tree/number and number/tree operands, every unary function and unary minus, arrays of trees in tree position, every depth-1 expression as the left or right operand of every operator with every leaf; comparisons (== != < > <= >=) between trees and between trees and numbers must be errors; (b) for 16 library shapes: map form with EVERY subset of defaulted fields omitted, positional form in EVERY argument order (unique-typed shapes), tree-first + map, chained, chained without map, two-tree form with number/array coercion, ordered positional form, int/float/array/vec spellings, unknown or missing fields must be errors; vec2->vec3 promotion with shape-specific default z; reducers with 1..=8 arguments and with an array; (c) arithmetic on vec2 / vec3 values to depth 2 (+ - * / min max with vector/vector, vector/int, vector/float, int/vector, float/vector operands, unary minus, abs, sqrt) feeding a shape constructor; oracle: structural equality with the Tree built by the corresponding Rust calls".into(),
            bounds: "expression depth 2; 16 of the 26 shapes (one per call-form class)".into(),
            assumptions: vec!["number-only sub-expressions are left to rhai's own arithmetic and not generated".into()],
            crash_policy: CrashPolicy::Violation,
            vacuity: vec![("cases", 5000), ("must_error_cases", 30)],
            transitions_counter: "evals",
            nontrivial_counter: "nontrivial",
            exhaustive: true,
        }
    }
    fn run_unit(&self, tier: Tier, unit: usize, cx: &mut Cx) {
        let mut run = Run { cx, sub: 0, engine: fidget_rhai::engine(), prev: None };
        let lv = leaves();
        let trees: Vec<E> = lv.iter().filter(|e| e.is_tree()).cloned().collect();
        let d1 = || -> Vec<E> {
            let mut v = one_op(&lv, &lv);
            v.extend(unary(&trees));
            v
        };
        match units(tier)[unit].clone() {
            Unit::Depth1 => {
                for e in d1() {
                    run.ok(e.script(), &e.tree(), "depth 1");
                }
            }
            Unit::Depth2Unary => {
                for e in unary(&d1()) {
                    run.ok(e.script(), &e.tree(), "unary of depth 1");
                }
            }
            Unit::Depth2Infix(i) | Unit::Depth2Fn(i) => {
                let (s, op, infix) = match units(tier)[unit] {
                    Unit::Depth2Infix(_) => (INFIX[i].0, INFIX[i].1, true),
                    _ => (BINFN[i].0, BINFN[i].1, false),
                };
                let inner = d1();
                for a in &inner {
                    for b in &lv {
                        for flip in [false, true] {
                            let (l, r) = if flip { (b, a) } else { (a, b) };
                            let script = if infix {
                                format!("({} {s} {})", l.script(), r.script())
                            } else {
                                format!("{s}({}, {})", l.script(), r.script())
                            };
                            let want = tree_bin(op, &l.tree(), &r.tree());
                            run.ok(&script, &want, &format!("operator {s}"));
                        }
                    }
                }
                // both operands compound
                for a in inner.iter().step_by(17) {
                    for b in inner.iter().step_by(23) {
                        let script = if infix {
                            format!("({} {s} {})", a.script(), b.script())
                        } else {
                            format!("{s}({}, {})", a.script(), b.script())
                        };
                        run.ok(&script, &tree_bin(op, &a.tree(), &b.tree()), &format!("operator {s}"));
                    }
                }
            }
            Unit::Arrays => {
                for a in arrays() {
                    for (s, op) in UNFN {
                        run.ok(&format!("{s}({})", a.script()), &tree_un(op, &a.tree()), "array as tree");
                    }
                    for (s, op) in BINFN {
                        for b in &lv {
                            // an array only coerces where the *other* operand is a
                            // Tree (dispatch is on the Tree-typed parameter)
                            if b.is_tree() {
                                run.ok(&format!("{s}({}, {})", a.script(), b.script()), &tree_bin(op, &a.tree(), &b.tree()), "array as tree");
                                run.ok(&format!("{s}({}, {})", b.script(), a.script()), &tree_bin(op, &b.tree(), &a.tree()), "array as tree");
                            }
                        }
                    }
                    for (s, op) in [("-", B::Sub), ("*", B::Mul), ("/", B::Div), ("%", B::Mod)] {
                        run.ok(&format!("(x {s} {})", a.script()), &tree_bin(op, &Tree::x(), &a.tree()), "array as tree");
                    }
                }
            }
            Unit::Comparisons => {
                for op in ["==", "!=", "<", ">", "<=", ">="] {
                    for (a, b) in [("x", "y"), ("x", "1"), ("1", "x"), ("x", "1.5"), ("2.5", "y"), ("(x + 1)", "y"), ("sin(x)", "0")] {
                        run.err(&format!("{a} {op} {b}"), "comparison on trees");
                        run.err(&format!("if {a} {op} {b} {{ x }} else {{ y }}"), "comparison on trees");
                    }
                }
            }
            Unit::Shape(i) => {
                let sp = specs();
                let (ok, bad) = shape_scripts(&sp[i]);
                for (s, t) in ok {
                    run.ok(&s, &t, &format!("shape {}", sp[i].fname));
                }
                for s in bad {
                    run.err(&s, &format!("shape {}", sp[i].fname));
                }
            }
            Unit::VectorOps => {
                use fidget_shapes::*;
                for e in vector_exprs(2) {
                    let want: Tree = Circle { center: Vec2::new(e.val[0], e.val[1]), radius: 1.0 }.into();
                    run.ok(&format!("circle(#{{ center: {}, radius: 1 }})", e.script), &want, "vector arithmetic (vec2)");
                }
                for e in vector_exprs(3) {
                    let want: Tree = Sphere { center: Vec3::new(e.val[0], e.val[1], e.val[2]), radius: 1.0 }.into();
                    run.ok(&format!("sphere(#{{ center: {}, radius: 1 }})", e.script), &want, "vector arithmetic (vec3)");
                }
            }
            Unit::Constants | Unit::AxisPlane | Unit::VecCtors | Unit::AxesRemap => {
                let u = units(tier)[unit].clone();
                let (ok, bad) = match u {
                    Unit::Constants => constant_scripts(),
                    Unit::AxisPlane => axis_plane_scripts(),
                    Unit::VecCtors => vec_ctor_scripts(),
                    _ => (axes_remap_scripts(), vec![]),
                };
                let class = format!("{u:?}");
                for (s, t) in ok {
                    run.ok(&s, &t, &class);
                }
                for s in bad {
                    run.err(&s, &class);
                }
            }
            Unit::Misc => {
                let (ok, bad) = promotion_and_reducers();
                for (s, t) in ok {
                    run.ok(&s, &t, "promotion / reducers");
                }
                for s in bad {
                    run.err(&s, "promotion / reducers");
                }
            }
        }
    }
}
