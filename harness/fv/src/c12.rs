//! C12 — building expressions in a context preserves their meaning.
//! DESIGN.md §4 C12.
use crate::prog::{POp, Prog, var_by_index};
use crate::refsem::{self, Flat, bin32, un32};
use crate::runner::{Check, CrashPolicy, Cx, Meta, Tier, guard, panic_site};
use fidget_core::context::{BinaryOpcode as B, Context, Tree, UnaryOpcode as U};
use serde_json::json;
use std::hash::{BuildHasher, Hash, Hasher};

pub struct C12;

pub fn tree_un(op: U, a: &Tree) -> Tree {
    match op {
        U::Neg => a.neg(),
        U::Abs => a.abs(),
        U::Recip => a.recip(),
        U::Sqrt => a.sqrt(),
        U::Square => a.square(),
        U::Floor => a.floor(),
        U::Ceil => a.ceil(),
        U::Round => a.round(),
        U::Sin => a.sin(),
        U::Cos => a.cos(),
        U::Tan => a.tan(),
        U::Asin => a.asin(),
        U::Acos => a.acos(),
        U::Atan => a.atan(),
        U::Exp => a.exp(),
        U::Ln => a.ln(),
        U::Not => a.not(),
        U::Rand => a.rand(),
    }
}

pub fn tree_bin(op: B, a: &Tree, b: &Tree) -> Tree {
    match op {
        B::Add => a.clone() + b.clone(),
        B::Sub => a.clone() - b.clone(),
        B::Mul => a.clone() * b.clone(),
        B::Div => a.clone() / b.clone(),
        B::Atan => a.atan2(b.clone()),
        B::Min => a.min(b.clone()),
        B::Max => a.max(b.clone()),
        B::Compare => a.compare(b.clone()),
        B::Mod => a.modulo(b.clone()),
        B::And => a.and(b.clone()),
        B::Or => a.or(b.clone()),
        B::Mix => a.mix(b.clone()),
    }
}

/// Builds a `Tree` from a program (sharing sub-trees where the program does)
pub fn prog_tree(p: &Prog) -> Tree {
    let mut t: Vec<Tree> = vec![];
    for op in &p.nodes {
        let n = match *op {
            POp::Var(i) => Tree::from(var_by_index(i)),
            POp::Const(c) => Tree::constant(c),
            POp::Un(u, a) => tree_un(u, &t[a]),
            POp::Bin(b, a, c) => tree_bin(b, &t[a], &t[c]),
        };
        t.push(n);
    }
    t[p.roots[0]].clone()
}

/// The same tree with every zero / NaN constant replaced by its twin of the
/// other sign (a different bit pattern that the library's constant ordering
/// treats as the same value); None if the program has no such constant
pub fn prog_tree_twin(p: &Prog) -> Option<Tree> {
    let mut t: Vec<Tree> = vec![];
    let mut any = false;
    for op in &p.nodes {
        let n = match *op {
            POp::Var(i) => Tree::from(var_by_index(i)),
            POp::Const(c) => {
                if c == 0.0 || c.is_nan() {
                    any = true;
                    Tree::constant(f32::from_bits(c.to_bits() ^ 0x8000_0000))
                } else {
                    Tree::constant(c)
                }
            }
            POp::Un(u, a) => tree_un(u, &t[a]),
            POp::Bin(b, a, c) => tree_bin(b, &t[a], &t[c]),
        };
        t.push(n);
    }
    any.then(|| t[p.roots[0]].clone())
}

/// Unsimplified evaluation, operation by operation.  Returns the root value
/// and whether the comparison is meaningful: every intermediate stayed finite,
/// and no operation whose result depends on the SIGN of a zero operand
/// (atan2, rand, mix; 1/0 is non-finite anyway) received a zero — the property
/// holds "up to the sign of zero", and constants +0 / -0 are one node.
fn eval_prog(p: &Prog, vars: &[f32]) -> (f32, bool) {
    let mut v: Vec<f32> = Vec::with_capacity(p.nodes.len());
    let mut finite = true;
    for op in &p.nodes {
        match *op {
            POp::Un(U::Rand, a) if v[a] == 0.0 => finite = false,
            POp::Bin(B::Atan | B::Mix, a, b) if v[a] == 0.0 || v[b] == 0.0 => finite = false,
            _ => (),
        }
        let x = match *op {
            POp::Var(i) => vars[i],
            POp::Const(c) => c,
            POp::Un(u, a) => un32(u, v[a]),
            POp::Bin(b, a, c) => bin32(b, v[a], v[c]),
        };
        // only values that take part in the result matter; programs here have
        // no dead nodes except unused leaves
        if !x.is_finite() && !matches!(op, POp::Const(_) | POp::Var(_)) {
            finite = false;
        }
        v.push(x);
    }
    (v[p.roots[0]], finite)
}

fn uses_nonfinite_leaf(p: &Prog, vars: &[f32]) -> bool {
    // a non-finite constant or variable that is actually used makes the
    // "stays finite throughout" premise false
    let mut used = vec![false; p.nodes.len()];
    used[p.roots[0]] = true;
    for i in (0..p.nodes.len()).rev() {
        if !used[i] {
            continue;
        }
        match p.nodes[i] {
            POp::Un(_, a) => used[a] = true,
            POp::Bin(_, a, b) => {
                used[a] = true;
                used[b] = true;
            }
            _ => (),
        }
    }
    p.nodes.iter().enumerate().any(|(i, n)| {
        used[i]
            && match n {
                POp::Const(c) => !c.is_finite(),
                POp::Var(v) => !vars[*v].is_finite(),
                _ => false,
            }
    })
}

/// Context::if_nonzero_else / less_than / less_than_or_equal are built from
/// and / or / not / compare; their documented meaning is the specification
fn composite_unit(cx: &mut Cx) {
    #[derive(Clone, Copy, Debug)]
    enum L {
        X,
        Y,
        K(f32),
    }
    let leaves = [L::X, L::Y, L::K(0.0), L::K(-0.0), L::K(1.0), L::K(-1.0), L::K(2.0), L::K(3.7)];
    let grid = [-2.0f32, -1.0, -0.0, 0.0, 0.5, 1.0, 3.0];
    let node = |ctx: &mut Context, l: L| match l {
        L::X => ctx.x(),
        L::Y => ctx.y(),
        L::K(c) => ctx.constant(c),
    };
    let val = |l: L, x: f32, y: f32| match l {
        L::X => x,
        L::Y => y,
        L::K(c) => c,
    };
    let mut sub = 0u64;
    let (mut vals, mut amb) = (vec![], vec![]);
    for kind in 0..3 {
        for a in leaves {
            for b in leaves {
                for c in if kind == 0 { &leaves[..] } else { &leaves[..1] } {
                    let s = sub;
                    sub += 1;
                    if !cx.case(s) {
                        continue;
                    }
                    cx.add("cases", 1);
                    cx.add("nontrivial", 1);
                    let name = ["if_nonzero_else", "less_than", "less_than_or_equal"][kind];
                    let desc = || json!({"constructor": name, "operands": if kind == 0 { format!("{a:?}, {b:?}, {c:?}") } else { format!("{a:?}, {b:?}") }});
                    let mut ctx = Context::new();
                    let (na, nb, nc) = (node(&mut ctx, a), node(&mut ctx, b), node(&mut ctx, *c));
                    let built = guard(|| match kind {
                        0 => ctx.if_nonzero_else(na, nb, nc),
                        1 => ctx.less_than(na, nb),
                        _ => ctx.less_than_or_equal(na, nb),
                    });
                    let n = match built {
                        Ok(Ok(n)) => n,
                        Ok(Err(e)) => {
                            cx.violation(format!("{name} returned an error for valid nodes"), desc(), format!("{e:?}"));
                            continue;
                        }
                        Err(e) => {
                            cx.violation(format!("{name} panicked {}", panic_site(&e)), desc(), e);
                            continue;
                        }
                    };
                    let flat = Flat::from_ctx(&ctx, &[n]);
                    for x in grid {
                        for y in grid {
                            let args: Vec<f32> = flat.vars.iter().map(|v| if *v == var_by_index(0) { x } else { y }).collect();
                            flat.eval_all(&args, &mut vals, &mut amb);
                            let got = vals[flat.roots[0]];
                            let (va, vb, vc) = (val(a, x, y), val(b, x, y), val(*c, x, y));
                            let want = match kind {
                                0 => {
                                    if va != 0.0 {
                                        vb
                                    } else {
                                        vc
                                    }
                                }
                                1 => (va < vb) as u8 as f32,
                                _ => (va <= vb) as u8 as f32,
                            };
                            cx.add("evals", 1);
                            cx.add("value_comparisons", 1);
                            if !(got == want) {
                                cx.violation(
                                    format!("composite constructor {name} does not have its documented meaning"),
                                    desc(),
                                    format!("at x={x:?} y={y:?}: graph `{}` evaluates to {got:?}, documented meaning gives {want:?}", flat.describe()),
                                );
                                break;
                            }
                        }
                    }
                }
            }
        }
    }
}

#[derive(Clone, Debug)]
enum Unit {
    Depth1,
    Depth2Unary(U),
    Depth2Binary(B),
    Depth3 { outer: usize },
    Deep,
    /// the composite constructors if_nonzero_else, less_than,
    /// less_than_or_equal against their documented meaning
    Composite,
    /// Tree::eq / Hash against the harness's own structural comparison on every
    /// PAIR of a panel of trees (equal and different ones), and the Tree-only
    /// API: pow, op-assign, From<i32>, Tree::deriv
    TreeApi,
}

fn all_any() -> Vec<Result<U, B>> {
    refsem::UNARY.iter().map(|u| Ok(*u)).chain(refsem::BINARY.iter().map(|b| Err(*b))).collect()
}

fn units(tier: Tier) -> Vec<Unit> {
    let mut v = vec![Unit::Depth1, Unit::Deep, Unit::Composite, Unit::TreeApi];
    for u in refsem::UNARY {
        v.push(Unit::Depth2Unary(u));
    }
    for b in refsem::BINARY {
        v.push(Unit::Depth2Binary(b));
    }
    if tier == Tier::Thorough {
        for o in 0..all_any().len() {
            v.push(Unit::Depth3 { outer: o });
        }
    }
    v
}

fn constants(tier: Tier) -> Vec<f32> {
    match tier {
        Tier::Quick => vec![0.0, -0.0, 1.0, -1.0, 2.0, f32::NAN, 3.7],
        Tier::Thorough => vec![0.0, -0.0, 1.0, -1.0, 2.0, 0.5, f32::INFINITY, f32::NEG_INFINITY, f32::NAN, 1e-40, 3.7],
    }
}

/// Leaves: program prefix [x, y, consts...]; returns (prog with leaves, number of leaves)
fn leaf_prog(tier: Tier) -> Prog {
    let mut p = Prog::default();
    p.push(POp::Var(0));
    p.push(POp::Var(1));
    for c in constants(tier) {
        p.push(POp::Const(c));
    }
    p
}

fn points() -> Vec<Vec<f32>> {
    let a = [0.0f32, -0.0, 1.0, -1.0, 0.5, 2.0, -2.25, 3.7, 1e20, f32::INFINITY, f32::NAN];
    a.iter().flat_map(|x| a.iter().map(move |y| vec![*x, *y])).collect()
}

fn hash_tree(t: &Tree, bh: &std::collections::hash_map::RandomState) -> u64 {
    let mut h = bh.build_hasher();
    t.hash(&mut h);
    h.finish()
}

fn check_prog(cx: &mut Cx, sub: &mut u64, p: &Prog, pts: &[Vec<f32>]) {
    let s = *sub;
    *sub += 1;
    if !cx.case(s) {
        return;
    }
    cx.add("cases", 1);
    let desc = || json!({"program": p.describe()});
    // (1) constructors: meaning preserved
    let r = guard(|| {
        let mut ctx = Context::new();
        let roots = p.build(&mut ctx);
        let again = p.build(&mut ctx);
        let flat = Flat::from_ctx(&ctx, &roots);
        // (3) export / import round trip in the same context
        let exported = ctx.export(roots[0]).ok();
        let reimported = exported.as_ref().map(|t| ctx.import(t));
        (roots[0], again[0], flat, reimported)
    });
    let (n1, n2, flat, reimported) = match r {
        Ok(x) => x,
        Err(e) => {
            cx.violation(format!("constructor panic {}", panic_site(&e)), desc(), e);
            return;
        }
    };
    cx.add("evals", 3);
    if n1 != n2 {
        cx.violation("building the same expression twice yields different nodes", desc(), format!("{n1:?} vs {n2:?}"));
    }
    match reimported {
        Some(n) if n == n1 => (),
        Some(n) => cx.violation("import(export(node)) is not the original node", desc(), format!("{n1:?} -> {n:?}")),
        None => cx.violation("export failed", desc(), "export returned an error"),
    }
    let rewritten = flat.ops.len() != p.nodes.iter().filter(|_| true).count();
    let _ = rewritten;
    let (mut vals, mut amb) = (vec![], vec![]);
    let mut compared = 0u64;
    for pt in pts {
        let (want, finite) = eval_prog(p, pt);
        if !finite || !want.is_finite() || uses_nonfinite_leaf(p, pt) {
            continue;
        }
        let args: Vec<f32> = flat
            .vars
            .iter()
            .map(|v| if *v == var_by_index(0) { pt[0] } else { pt[1] })
            .collect();
        flat.eval_all(&args, &mut vals, &mut amb);
        let got = vals[flat.roots[0]];
        compared += 1;
        // equal under == (so +0 and -0 agree)
        if !(got == want) {
            cx.violation(
                format!("constructor rewriting changed the value (root op {})", root_name(p)),
                desc(),
                format!(
                    "at x={:?} y={:?}: context graph `{}` evaluates to {got:?}, the expression operation by operation gives {want:?}",
                    pt[0],
                    pt[1],
                    flat.describe()
                ),
            );
            break;
        }
    }
    cx.add("value_comparisons", compared);
    if compared > 0 {
        cx.add("nontrivial", 1);
    }
    // (2) trees: structural equality and hashing of separately built trees, and
    // the import route
    let bh = std::collections::hash_map::RandomState::new();
    let r = guard(|| {
        let t1 = prog_tree(p);
        let t2 = prog_tree(p);
        let eq = t1 == t2;
        let (h1, h2) = (hash_tree(&t1, &bh), hash_tree(&t2, &bh));
        let mut ctx = Context::new();
        let n = ctx.import(&t1);
        let n_again = ctx.import(&t2);
        // a tree that the library itself calls equal must also hash equally
        // (constants +0 / -0, and NaNs of either sign, compare equal)
        let twin = prog_tree_twin(p).map(|t3| (t1 == t3, hash_tree(&t3, &bh), ctx.import(&t3) == n));
        (eq, h1, h2, n == n_again, Flat::from_ctx(&ctx, &[n]), twin)
    });
    match r {
        Err(e) => cx.violation(format!("tree route panic {}", panic_site(&e)), desc(), e),
        Ok((eq, h1, h2, same_node, tflat, twin)) => {
            cx.add("evals", 2);
            if let Some((teq, h3, tsame)) = twin {
                cx.add("twin_trees_with_other_zero_or_nan_bits", 1);
                if teq {
                    cx.add("twin_trees_that_compare_equal", 1);
                    if h3 != h1 {
                        cx.violation("trees that compare == hash differently (constants equal but of different bit pattern)", desc(), format!("{h1:x} vs {h3:x}"));
                    }
                    if !tsame {
                        cx.violation("trees that compare == import to different nodes", desc(), "");
                    }
                }
            }
            if !eq {
                cx.violation("separately built equal trees are not ==", desc(), "t1 != t2");
            }
            if h1 != h2 {
                cx.violation("structurally equal trees hash differently", desc(), format!("{h1:x} vs {h2:x}"));
            }
            if !same_node {
                cx.violation("importing two equal trees yields different nodes", desc(), "");
            }
            // the imported tree means the same as the unsimplified program
            for pt in pts.iter().step_by(3) {
                let (want, finite) = eval_prog(p, pt);
                if !finite || !want.is_finite() || uses_nonfinite_leaf(p, pt) {
                    continue;
                }
                let args: Vec<f32> = tflat
                    .vars
                    .iter()
                    .map(|v| if *v == var_by_index(0) { pt[0] } else { pt[1] })
                    .collect();
                tflat.eval_all(&args, &mut vals, &mut amb);
                let got = vals[tflat.roots[0]];
                if !(got == want) {
                    cx.violation(
                        format!("importing a tree changed its value (root op {})", root_name(p)),
                        desc(),
                        format!("at x={:?} y={:?}: imported graph `{}` gives {got:?}, expected {want:?}", pt[0], pt[1], tflat.describe()),
                    );
                    break;
                }
            }
        }
    }
    // (3) the text route: the program written in the flat text format and
    // parsed by Context::from_text (which builds it through the same
    // constructors and must return the node of the LAST line as the root)
    if let Some(txt) = prog_text(p) {
        match guard(|| Context::from_text(&mut txt.as_bytes())) {
            Err(e) => cx.violation(format!("from_text panicked {}", panic_site(&e)), desc(), e),
            Ok(Err(e)) => cx.violation("from_text rejected a well-formed program", desc(), format!("{e:?} for\n{txt}")),
            Ok(Ok((ctx, n))) => {
                cx.add("text_route_programs", 1);
                let tflat = Flat::from_ctx(&ctx, &[n]);
                for pt in pts.iter().step_by(3) {
                    let (want, finite) = eval_prog(p, pt);
                    if !finite || !want.is_finite() || uses_nonfinite_leaf(p, pt) {
                        continue;
                    }
                    let args: Vec<f32> = tflat.vars.iter().map(|v| if *v == var_by_index(0) { pt[0] } else { pt[1] }).collect();
                    tflat.eval_all(&args, &mut vals, &mut amb);
                    let got = vals[tflat.roots[0]];
                    if !(got == want) {
                        cx.violation(
                            format!("from_text returns a root that does not mean the program (root op {})", root_name(p)),
                            desc(),
                            format!("at x={:?} y={:?}: parsed graph `{}` gives {got:?}, expected {want:?}; text:\n{txt}", pt[0], pt[1], tflat.describe()),
                        );
                        break;
                    }
                }
            }
        }
    }
    cx.sample(|| json!({"program": p.describe(), "points": pts.len()}));
}

/// The program in the flat text format of Context::from_text, root last;
/// None if it uses an opcode the format has no name for (recip) or a variable
/// other than x / y
fn prog_text(p: &Prog) -> Option<String> {
    let un = |u: U| -> Option<&'static str> {
        Some(match u {
            U::Neg => "neg",
            U::Abs => "abs",
            U::Sqrt => "sqrt",
            U::Square => "square",
            U::Floor => "floor",
            U::Ceil => "ceil",
            U::Round => "round",
            U::Sin => "sin",
            U::Cos => "cos",
            U::Tan => "tan",
            U::Asin => "asin",
            U::Acos => "acos",
            U::Atan => "atan",
            U::Ln => "ln",
            U::Not => "not",
            U::Rand => "rand",
            U::Exp => "exp",
            _ => return None,
        })
    };
    let bin = |b: B| -> Option<&'static str> {
        Some(match b {
            B::Add => "add",
            B::Mul => "mul",
            B::Min => "min",
            B::Max => "max",
            B::Div => "div",
            B::Atan => "atan2",
            B::Sub => "sub",
            B::Compare => "compare",
            B::Mod => "mod",
            B::And => "and",
            B::Or => "or",
            B::Mix => "mix",
        })
    };
    let root = p.roots[0];
    let mut lines = vec![];
    let line = |i: usize| -> Option<String> {
        Some(match p.nodes[i] {
            POp::Var(0) => format!("n{i} var-x"),
            POp::Var(1) => format!("n{i} var-y"),
            POp::Var(_) => return None,
            POp::Const(c) => format!("n{i} const {c:?}"),
            POp::Un(u, a) => format!("n{i} {} n{a}", un(u)?),
            POp::Bin(b, a, c) => format!("n{i} {} n{a} n{c}", bin(b)?),
        })
    };
    for i in 0..p.nodes.len() {
        if i != root {
            lines.push(line(i)?);
        }
    }
    lines.push(line(root)?);
    Some(lines.join("\n") + "\n")
}

fn root_name(p: &Prog) -> String {
    match p.nodes[p.roots[0]] {
        POp::Un(u, _) => format!("{u:?}"),
        POp::Bin(b, ..) => format!("{b:?}"),
        _ => "leaf".into(),
    }
}

fn push_any(p: &mut Prog, o: Result<U, B>, a: usize, b: usize) -> usize {
    match o {
        Ok(u) => p.push(POp::Un(u, a)),
        Err(bo) => p.push(POp::Bin(bo, a, b)),
    }
}

/// All depth-1 nodes over the leaves; calls f(prog with the node as last)
fn for_depth1(base: &Prog, nl: usize, f: &mut dyn FnMut(&Prog)) {
    for o in all_any() {
        match o {
            Ok(_) => {
                for a in 0..nl {
                    let mut p = base.clone();
                    let r = push_any(&mut p, o, a, a);
                    p.roots = vec![r];
                    f(&p);
                }
            }
            Err(_) => {
                for a in 0..nl {
                    for b in 0..nl {
                        let mut p = base.clone();
                        let r = push_any(&mut p, o, a, b);
                        p.roots = vec![r];
                        f(&p);
                    }
                }
            }
        }
    }
}

fn deep_unit(cx: &mut Cx, tier: Tier) {
    let sizes: &[usize] = match tier {
        Tier::Quick => &[100_000],
        Tier::Thorough => &[100_000, 1_000_000],
    };
    let mut sub = 0u64;
    for &n in sizes {
        for shape in ["chain", "balanced", "unary-chain"] {
            let s = sub;
            sub += 1;
            if !cx.case(s) {
                continue;
            }
            cx.add("cases", 1);
            cx.add("nontrivial", 1);
            cx.add("deep_tree_cases", 1);
            let desc = || json!({"shape": shape, "nodes": n, "stack": "256 KiB"});
            // A stack overflow kills the process; the crash journal attributes it.
            let h = std::thread::Builder::new()
                .stack_size(256 * 1024)
                .spawn(move || {
                    let build = || -> Tree {
                        match shape {
                            "chain" => {
                                let mut t = Tree::x();
                                for i in 0..n {
                                    t = t + Tree::constant((i % 7) as f32 + 0.5);
                                }
                                t
                            }
                            "unary-chain" => {
                                let mut t = Tree::x();
                                for i in 0..n {
                                    t = if i % 2 == 0 { t.sin() } else { t.abs() };
                                }
                                t
                            }
                            _ => {
                                let mut level: Vec<Tree> =
                                    (0..n / 2).map(|i| Tree::x() + Tree::constant(i as f32)).collect();
                                while level.len() > 1 {
                                    level = level
                                        .chunks(2)
                                        .map(|c| if c.len() == 2 { c[0].clone().min(c[1].clone()) } else { c[0].clone() })
                                        .collect();
                                }
                                level.pop().unwrap()
                            }
                        }
                    };
                    let t1 = build();
                    let t2 = build();
                    let eq = t1 == t2;
                    let bh = std::collections::hash_map::RandomState::new();
                    let h_eq = hash_tree(&t1, &bh) == hash_tree(&t2, &bh);
                    let mut ctx = Context::new();
                    let n1 = ctx.import(&t1);
                    let n2 = ctx.import(&t2);
                    let exported = ctx.export(n1).is_ok();
                    let len = ctx.len();
                    drop(t1);
                    drop(t2);
                    drop(ctx);
                    (eq, h_eq, n1 == n2, exported, len)
                })
                .unwrap();
            cx.add("evals", 8);
            match h.join() {
                Ok((eq, h_eq, same, exported, len)) => {
                    if !(eq && h_eq && same && exported && len > 0) {
                        cx.violation(
                            "deep tree: eq / hash / import / export disagree",
                            desc(),
                            format!("eq={eq} hash_eq={h_eq} same_node={same} exported={exported} ctx_len={len}"),
                        );
                    }
                }
                Err(_) => cx.violation("deep tree: panic", desc(), "thread panicked"),
            }
            cx.sample(desc);
        }
    }
}

/// Panel of trees for the pairwise comparison: every depth-1 tree over the
/// leaves, each built twice (separate allocations), plus remapped trees that
/// differ in exactly one place (target, one substituted axis, one matrix entry)
fn tree_panel(tier: Tier) -> Vec<(String, Tree)> {
    let base = leaf_prog(tier);
    let nl = base.nodes.len();
    let mut out: Vec<(String, Tree)> = vec![];
    for i in 0..nl {
        let mut p = base.clone();
        p.roots = vec![i];
        out.push((p.describe(), prog_tree(&p)));
    }
    for_depth1(&base, nl, &mut |p| {
        out.push((p.describe(), prog_tree(p)));
        if let Some(t) = prog_tree_twin(p) {
            out.push((format!("{} (zero / NaN constants of the other sign)", p.describe()), t));
        }
    });
    // trees that SHARE sub-trees (the same Arc) with each other: pointer equality
    // of a shared part must only short-cut that part, whichever operand slot
    // it sits in and whichever slot the difference sits in
    {
        let pool: Vec<(&str, Tree)> = vec![
            ("x", Tree::x()),
            ("y", Tree::y()),
            ("1.5", Tree::constant(1.5)),
            ("2z", Tree::z() * 2.0),
            ("sin(x+y)", (Tree::x() + Tree::y()).sin()),
        ];
        let mut d1: Vec<(String, Tree)> = vec![];
        for (an, a) in &pool {
            for (bn, b) in &pool {
                for (on, op) in [("add", B::Add), ("sub", B::Sub), ("min", B::Min)] {
                    d1.push((format!("shared: {on}({an}, {bn})"), tree_bin(op, a, b)));
                }
            }
            d1.push((format!("shared: abs({an})"), a.abs()));
        }
        for (n, t) in d1.iter().step_by(5) {
            for (an, a) in &pool {
                out.push((format!("shared: mul({n}, {an})"), t.clone() * a.clone()));
                out.push((format!("shared: mul({an}, {n})"), a.clone() * t.clone()));
                out.push((format!("shared: remap_xyz({n}; {an}, y, 2z)"), t.remap_xyz(a.clone(), pool[1].1.clone(), pool[3].1.clone())));
                out.push((format!("shared: remap_xyz({n}; x, {an}, 2z)"), t.remap_xyz(pool[0].1.clone(), a.clone(), pool[3].1.clone())));
            }
        }
        out.extend(d1);
    }
    let (x, y, z) = Tree::axes();
    let targets = [x.clone() + y.clone() * 2.0, x.clone().min(z.clone())];
    let subs = [x.clone(), y.clone(), z.clone() + 1.0, Tree::constant(0.0), Tree::constant(-0.0)];
    for (ti, t) in targets.iter().enumerate() {
        for (a, sa) in subs.iter().enumerate() {
            for (b, sb) in subs.iter().enumerate() {
                out.push((format!("remap_xyz(target {ti}, sub {a}, sub {b}, z)"), t.remap_xyz(sa.clone(), sb.clone(), z.clone())));
                out.push((format!("remap_xyz(target {ti}, sub {a}, y, sub {b})"), t.remap_xyz(sa.clone(), y.clone(), sb.clone())));
            }
        }
        // affine remaps: identity, and matrices differing in one entry, +0 / -0 / NaN entries
        let mut mats = vec![nalgebra::Matrix4::<f32>::identity()];
        // every one of the 12 free entries changed alone (two different values),
        // then entries that differ only in the sign of zero / are NaN
        for r in 0..3 {
            for c in 0..4 {
                for v in [0.5f32, 3.0] {
                    let mut m = nalgebra::Matrix4::<f32>::identity();
                    m[(r, c)] = v;
                    mats.push(m);
                }
            }
        }
        for (r, c, v) in [(0, 1, -0.0f32), (1, 0, f32::NAN), (2, 3, -0.0), (0, 0, f32::NAN)] {
            let mut m = nalgebra::Matrix4::<f32>::identity();
            m[(r, c)] = v;
            mats.push(m);
        }
        for (mi, m) in mats.iter().enumerate() {
            let aff = nalgebra::Affine3::from_matrix_unchecked(*m);
            out.push((format!("remap_affine(target {ti}, matrix {mi})"), t.remap_affine(aff)));
        }
    }
    out
}

fn tree_api_unit(cx: &mut Cx, tier: Tier) {
    use crate::treecmp::{first_difference, struct_eq};
    let bh = std::collections::hash_map::RandomState::new();
    let mut sub = 0u64;
    // (a) pairwise: Tree::eq <=> structural identity; equal => same hash
    let panel = tree_panel(tier);
    let hashes: Vec<u64> = panel.iter().map(|(_, t)| hash_tree(t, &bh)).collect();
    for (i, (da, a)) in panel.iter().enumerate() {
        let s = sub;
        sub += 1;
        if !cx.case(s) {
            continue;
        }
        cx.add("cases", 1);
        cx.add("nontrivial", 1);
        for (j, (db, b)) in panel.iter().enumerate() {
            let want = struct_eq(a, b);
            let got = match guard(|| a == b) {
                Ok(g) => g,
                Err(e) => {
                    cx.violation(format!("Tree::eq panicked {}", panic_site(&e)), json!({"a": da, "b": db}), e);
                    break;
                }
            };
            cx.add("evals", 1);
            cx.add("tree_pairs_compared", 1);
            if want {
                cx.add("tree_pairs_equal", 1);
            }
            if got != want {
                cx.violation(
                    if want { "Tree::eq says != for structurally identical trees" } else { "Tree::eq says == for structurally different trees" },
                    json!({"a": da, "b": db}),
                    format!("{:?} vs {:?}: Tree::eq = {got}, structural comparison: {:?}", &**a, &**b, first_difference(a, b)),
                );
                break;
            }
            if want && hashes[i] != hashes[j] {
                cx.violation("trees that compare == hash differently", json!({"a": da, "b": db}), format!("{:x} vs {:x}", hashes[i], hashes[j]));
                break;
            }
        }
    }
    // (b) Tree-only API against its meaning
    let (x, y, _z) = Tree::axes();
    let bases: Vec<(&str, Tree)> = vec![("x", x.clone()), ("x + y", x.clone() + y.clone()), ("2.5", Tree::constant(2.5)), ("x * 0.5", x.clone() * 0.5)];
    let pts = [(0.5f32, 2.0f32), (-1.5, 0.25), (3.0, -2.0), (1.0, 1.0)];
    let eval = |t: &Tree, px: f32, py: f32| -> f32 {
        let mut ctx = Context::new();
        let n = ctx.import(t);
        let flat = Flat::from_ctx(&ctx, &[n]);
        let args: Vec<f32> = flat.vars.iter().map(|v| if *v == var_by_index(0) { px } else { py }).collect();
        let (mut vals, mut amb) = (vec![], vec![]);
        flat.eval_all(&args, &mut vals, &mut amb);
        vals[flat.roots[0]]
    };
    for (bn, b) in &bases {
        for n in -6i64..=9 {
            let s = sub;
            sub += 1;
            if !cx.case(s) {
                continue;
            }
            cx.add("cases", 1);
            cx.add("nontrivial", 1);
            let desc = || json!({"tree": bn, "pow": n});
            let t = match guard(|| b.pow(n)) {
                Ok(t) => t,
                Err(e) => {
                    cx.violation(format!("Tree::pow panicked {}", panic_site(&e)), desc(), e);
                    continue;
                }
            };
            for (px, py) in pts {
                let v = eval(b, px, py) as f64;
                let want = v.powi(n as i32);
                let got = eval(&t, px, py) as f64;
                cx.add("evals", 1);
                cx.add("value_comparisons", 1);
                if !want.is_finite() || want.abs() > 1e30 {
                    continue;
                }
                if (got - want).abs() > 1e-5 * want.abs().max(1e-30) {
                    cx.violation("Tree::pow does not compute the integer power", desc(), format!("base value {v}: pow({n}) evaluates to {got}, expected {want}"));
                    break;
                }
            }
        }
    }
    // op-assign forms build the tree of the plain operator; From<i32>/<f32>/<f64>
    let s = sub;
    if cx.case(s) {
        cx.add("cases", 1);
        cx.add("nontrivial", 1);
        let a = x.clone() * 2.0;
        let b = y.clone() - 1.0;
        let mut checks: Vec<(&str, Tree, Tree)> = vec![];
        let mut t = a.clone();
        t += b.clone();
        checks.push(("+=", t, a.clone() + b.clone()));
        let mut t = a.clone();
        t -= b.clone();
        checks.push(("-=", t, a.clone() - b.clone()));
        let mut t = a.clone();
        t *= b.clone();
        checks.push(("*=", t, a.clone() * b.clone()));
        let mut t = a.clone();
        t /= b.clone();
        checks.push(("/=", t, a.clone() / b.clone()));
        let mut t = a.clone();
        t -= 3.0f32;
        checks.push(("-= number", t, a.clone() - 3.0));
        let mut t = a.clone();
        t /= 4.0f32;
        checks.push(("/= number", t, a.clone() / 4.0));
        checks.push(("From<i32>", Tree::from(3i32), Tree::constant(3.0)));
        checks.push(("From<f32>", Tree::from(1.5f32), Tree::constant(1.5)));
        checks.push(("number - tree", 3.0f32 - a.clone(), Tree::constant(3.0) - a.clone()));
        checks.push(("number / tree", 3.0f32 / a.clone(), Tree::constant(3.0) / a.clone()));
        for (name, got, want) in checks {
            cx.add("evals", 1);
            if let Some(d) = first_difference(&got, &want) {
                cx.violation(format!("Tree API form `{name}` builds a different tree than the plain operator"), json!({"form": name}), format!("{d}: {:?} vs {:?}", &*got, &*want));
            }
        }
        // Tree::deriv is the context's derivative of the imported tree
        for (name, t) in [("x*x + y", x.clone() * x.clone() + y.clone()), ("sin(x*y)", (x.clone() * y.clone()).sin()), ("min(x, y*2)", x.clone().min(y.clone() * 2.0))] {
            for v in [fidget_core::var::Var::X, fidget_core::var::Var::Y] {
                let d = match guard(|| t.deriv(v)) {
                    Ok(d) => d,
                    Err(e) => {
                        cx.violation(format!("Tree::deriv panicked {}", panic_site(&e)), json!({"tree": name}), e);
                        continue;
                    }
                };
                let mut ctx = Context::new();
                let n = ctx.import(&t);
                let dn = ctx.deriv(n, v).unwrap();
                let want = ctx.export(dn).unwrap();
                cx.add("evals", 1);
                for (px, py) in pts {
                    let (g, w) = (eval(&d, px, py), eval(&want, px, py));
                    if !(g == w || (g.is_nan() && w.is_nan())) {
                        cx.violation("Tree::deriv differs from Context::deriv of the imported tree", json!({"tree": name, "var": format!("{v:?}")}), format!("at ({px},{py}): {g} vs {w}"));
                        break;
                    }
                }
            }
        }
    }
}

impl Check for C12 {
    fn id(&self) -> &'static str {
        "C12"
    }
    fn units(&self, tier: Tier) -> usize {
        units(tier).len()
    }
    fn unit_label(&self, tier: Tier, unit: usize) -> String {
        format!("{:?}", units(tier)[unit])
    }
    fn meta(&self, tier: Tier) -> Meta {
        Meta {
            rule: "case = expression tree; all trees of depth <= 2 (thorough: a family of depth-3 trees) over ALL 30 opcodes with leaves {x, y} and constants {0,-0,1,-1,2,NaN,3.7} (thorough: + 0.5, +-inf, 1e-40), including shared sub-trees (both operands the same node); each is built (a) through the public Context constructors and (b) as a Tree and imported; the graph the context holds is evaluated with ref32 at every point of an 11x11 grid (incl. +-0, 1e20, inf, NaN) and compared under == with the operation-by-operation evaluation of the un-rewritten expression whenever that stays finite throughout; the composite constructors if_nonzero_else / less_than / less_than_or_equal over all operand choices from {x, y, 0, -0, 1, -1, 2, 3.7} against their documented meaning on a 7x7 grid; the same program written in the flat text format and parsed by Context::from_text (root = last line) evaluated likewise; building twice gives the same node, import(export(n)) = n, separately built equal trees are == and hash equally, and so does the twin tree whose zero / NaN constants carry the other sign bit whenever the library calls it ==; chains, unary chains and balanced trees of 1e5 (thorough 1e6) nodes are built, compared, hashed, imported, exported and dropped on a 256 KiB stack; Tree::eq is compared with the harness's own structural comparison (treecmp.rs) on EVERY PAIR of a panel of trees (all leaves and depth-1 trees, their other-sign-constant twins, axis remaps differing in one substituted tree, affine remaps differing in one matrix entry incl. -0 / NaN) - equal must be ==, different must be !=, == must hash alike; Tree::pow(n) for n in -6..=9 against powi, op-assign / From<number> / number-on-the-left forms against the plain operators, Tree::deriv against Context::deriv; non-trivial = at least one point was compared".into(),
            bounds: match tier {
                Tier::Quick => "depth <= 2, 9 leaves".into(),
                Tier::Thorough => "depth <= 2 with 13 leaves; depth 3 = outer(op(inner(l,l), l), l) family".into(),
            },
            assumptions: vec!["'finite throughout' is judged on the un-rewritten evaluation, leaves included".into()],
            crash_policy: CrashPolicy::Violation,
            vacuity: vec![("value_comparisons", 100000), ("deep_tree_cases", 3), ("tree_pairs_equal", 1000), ("tree_pairs_compared", 100000)],
            transitions_counter: "evals",
            nontrivial_counter: "nontrivial",
            exhaustive: true,
        }
    }
    fn run_unit(&self, tier: Tier, unit: usize, cx: &mut Cx) {
        let base = leaf_prog(tier);
        let nl = base.nodes.len();
        let pts = points();
        let mut sub = 0u64;
        match units(tier)[unit].clone() {
            Unit::Deep => deep_unit(cx, tier),
            Unit::Composite => composite_unit(cx),
            Unit::TreeApi => tree_api_unit(cx, tier),
            Unit::Depth1 => {
                for_depth1(&base, nl, &mut |p| check_prog(cx, &mut sub, p, &pts));
            }
            Unit::Depth2Unary(u) => {
                for_depth1(&base, nl, &mut |inner| {
                    let mut p = inner.clone();
                    let i = p.nodes.len() - 1;
                    let r = p.push(POp::Un(u, i));
                    p.roots = vec![r];
                    check_prog(cx, &mut sub, &p, &pts);
                });
            }
            Unit::Depth2Binary(b) => {
                for_depth1(&base, nl, &mut |inner| {
                    let i = inner.nodes.len() - 1;
                    // (inner, inner): shared sub-tree
                    let mut p = inner.clone();
                    let r = p.push(POp::Bin(b, i, i));
                    p.roots = vec![r];
                    check_prog(cx, &mut sub, &p, &pts);
                    for l in 0..nl {
                        let mut p = inner.clone();
                        let r = p.push(POp::Bin(b, i, l));
                        p.roots = vec![r];
                        check_prog(cx, &mut sub, &p, &pts);
                        let mut p = inner.clone();
                        let r = p.push(POp::Bin(b, l, i));
                        p.roots = vec![r];
                        check_prog(cx, &mut sub, &p, &pts);
                    }
                });
            }
            Unit::Depth3 { outer } => {
                let o = all_any()[outer];
                // outer(mid(inner(x, l), y), l2) for every mid/inner binary op and a few leaves
                let few = [0usize, 1, 2, 4, 6];
                for mid in refsem::BINARY {
                    for inner in all_any() {
                        for l in few {
                            for l2 in few {
                                let mut p = base.clone();
                                let a = push_any(&mut p, inner, 0, l);
                                let m = p.push(POp::Bin(mid, a, 1));
                                let r = push_any(&mut p, o, m, l2);
                                p.roots = vec![r];
                                check_prog(cx, &mut sub, &p, &pts);
                            }
                        }
                    }
                }
            }
        }
    }
}
