//! fv — bounded-exhaustive / controlled-scheduler checks for mkeeter/fidget.
//! See /verif/DESIGN.md.
mod alpha;
mod prog;
mod refsem;
mod runner;
mod scene;
mod treecmp;

mod c01;
mod c02;
mod c03;
mod c04;
mod c05;
mod c06;
mod c07;
mod c08;
mod c09;
mod c10;
mod c11;
mod c12;
mod c13;
mod c14;
mod c15;
mod c16;
mod c17;
mod c18;
mod c19;
mod c20;
mod evalkit;

use runner::{Check, Tier};

/// A check whose thorough bound is cheap enough (well under a minute on 16
/// cores) to be what the QUICK command runs as well: both tiers enumerate the
/// thorough space.  (The evidence still records the tier that was asked for.)
struct Promoted(&'static dyn Check);

impl Check for Promoted {
    fn id(&self) -> &'static str {
        self.0.id()
    }
    fn units(&self, _tier: Tier) -> usize {
        self.0.units(Tier::Thorough)
    }
    fn run_unit(&self, _tier: Tier, unit: usize, cx: &mut runner::Cx) {
        self.0.run_unit(Tier::Thorough, unit, cx)
    }
    fn meta(&self, _tier: Tier) -> runner::Meta {
        let mut m = self.0.meta(Tier::Thorough);
        m.bounds = format!("{} (the quick command runs the thorough bound for this check)", m.bounds);
        m
    }
    fn unit_label(&self, _tier: Tier, unit: usize) -> String {
        self.0.unit_label(Tier::Thorough, unit)
    }
    fn case_timeout_s(&self, tier: Tier) -> f64 {
        self.0.case_timeout_s(tier)
    }
    fn replay_attempts(&self) -> u32 {
        self.0.replay_attempts()
    }
}

static P11: Promoted = Promoted(&c11::C11);
static P12: Promoted = Promoted(&c12::C12);
static P13: Promoted = Promoted(&c13::C13);
static P14: Promoted = Promoted(&c14::C14);
static P15: Promoted = Promoted(&c15::C15);
static P16: Promoted = Promoted(&c16::C16);
static P17: Promoted = Promoted(&c17::C17);
static P19: Promoted = Promoted(&c19::C19);

fn checks() -> Vec<&'static dyn Check> {
    vec![&c01::C01, &c02::C02, &c03::C03, &c04::C04, &c05::C05, &c06::C06, &c07::C07, &c08::C08, &c09::C09, &c10::C10, &P11, &P12, &P13, &P14, &P15, &P16, &P17, &c18::C18, &P19, &c20::C20]
}

fn usage() -> ! {
    eprintln!("usage: fv check <Cnn> <quick|thorough> | fv replay <file> | fv list");
    std::process::exit(2)
}

fn main() {
    let args: Vec<String> = std::env::args().collect();
    let checks = checks();
    match args.get(1).map(|s| s.as_str()) {
        Some("list") => {
            for c in &checks {
                println!("{}", c.id());
            }
        }
        Some("check") => {
            let (Some(id), Some(tier)) = (args.get(2), args.get(3).and_then(|t| Tier::parse(t))) else {
                usage()
            };
            let Some(c) = checks.iter().find(|c| c.id() == id) else {
                eprintln!("unknown property {id}");
                std::process::exit(2)
            };
            std::process::exit(runner::check_main(*c, tier));
        }
        Some("worker") => {
            // worker <id> <tier> <shard> <nshards> <from_unit> <budget_s> <skip>
            let id = &args[2];
            let tier = Tier::parse(&args[3]).unwrap();
            let c = checks.iter().find(|c| c.id() == id).expect("property");
            let skip = args
                .get(8)
                .map(|s| {
                    s.split(',')
                        .filter(|x| !x.is_empty())
                        .map(|x| {
                            let (a, b) = x.split_once(':').unwrap();
                            (a.parse().unwrap(), b.parse().unwrap())
                        })
                        .collect()
                })
                .unwrap_or_default();
            runner::worker_main(
                *c,
                runner::WorkerArgs {
                    tier,
                    shard: args[4].parse().unwrap(),
                    nshards: args[5].parse().unwrap(),
                    from_unit: args[6].parse().unwrap(),
                    budget_s: args[7].parse().unwrap(),
                    skip,
                },
            );
        }
        Some("unit") => {
            // fv unit <id> <tier> <unit>   (debug aid)
            let c = checks.iter().find(|c| c.id() == args[2]).expect("property");
            runner::run_unit_verbose(*c, Tier::parse(&args[3]).unwrap(), args[4].parse().unwrap());
        }
        Some("tsan-bodies") => {
            // free-running bodies for the thread-sanitizer pass (tools/tsan_pass.sh)
            let rounds = args.get(2).and_then(|s| s.parse().ok()).unwrap_or(20);
            std::process::exit(c09::tsan_bodies(rounds));
        }
        Some("replay") => {
            let Some(path) = args.get(2) else { usage() };
            let history = args.get(3).map(|a| a == "--history").unwrap_or(false);
            std::process::exit(runner::replay_file(&checks, path, history));
        }
        _ => usage(),
    }
}
