//! Programs (expression DAGs) as data, their materialisation through the
//! public `Context` constructors, and the bounded-exhaustive DAG enumerator
//! (DESIGN.md §3.3).
use fidget_core::context::{BinaryOpcode as B, Context, Node, UnaryOpcode as U};
use fidget_core::var::Var;

#[derive(Copy, Clone, Debug, PartialEq)]
pub enum POp {
    /// Leaf: variable by index into the program's variable list
    Var(usize),
    Const(f32),
    Un(U, usize),
    Bin(B, usize, usize),
}

#[derive(Clone, Debug, Default)]
pub struct Prog {
    pub nodes: Vec<POp>,
    pub roots: Vec<usize>,
}

/// Deterministic variables: X, Y, Z, then `Var::V(k)` with fixed indices
pub fn var_by_index(i: usize) -> Var {
    match i {
        0 => Var::X,
        1 => Var::Y,
        2 => Var::Z,
        k => serde_json::from_str::<Var>(&format!("{{\"V\":{}}}", 1000 + k)).unwrap(),
    }
}

pub fn build_un(ctx: &mut Context, op: U, a: Node) -> Node {
    match op {
        U::Neg => ctx.neg(a),
        U::Abs => ctx.abs(a),
        U::Recip => ctx.recip(a),
        U::Sqrt => ctx.sqrt(a),
        U::Square => ctx.square(a),
        U::Floor => ctx.floor(a),
        U::Ceil => ctx.ceil(a),
        U::Round => ctx.round(a),
        U::Sin => ctx.sin(a),
        U::Cos => ctx.cos(a),
        U::Tan => ctx.tan(a),
        U::Asin => ctx.asin(a),
        U::Acos => ctx.acos(a),
        U::Atan => ctx.atan(a),
        U::Exp => ctx.exp(a),
        U::Ln => ctx.ln(a),
        U::Not => ctx.not(a),
        U::Rand => ctx.rand(a),
    }
    .unwrap()
}

pub fn build_bin(ctx: &mut Context, op: B, a: Node, b: Node) -> Node {
    match op {
        B::Add => ctx.add(a, b),
        B::Sub => ctx.sub(a, b),
        B::Mul => ctx.mul(a, b),
        B::Div => ctx.div(a, b),
        B::Atan => ctx.atan2(a, b),
        B::Min => ctx.min(a, b),
        B::Max => ctx.max(a, b),
        B::Compare => ctx.compare(a, b),
        B::Mod => ctx.modulo(a, b),
        B::And => ctx.and(a, b),
        B::Or => ctx.or(a, b),
        B::Mix => ctx.mix(a, b),
    }
    .unwrap()
}

impl Prog {
    pub fn push(&mut self, op: POp) -> usize {
        self.nodes.push(op);
        self.nodes.len() - 1
    }

    /// Builds the program through the public constructors; returns the root
    /// nodes (one per entry of `self.roots`)
    pub fn build(&self, ctx: &mut Context) -> Vec<Node> {
        let mut n: Vec<Node> = Vec::with_capacity(self.nodes.len());
        for op in &self.nodes {
            let v = match *op {
                POp::Var(i) => ctx.var(var_by_index(i)),
                POp::Const(c) => ctx.constant(c),
                POp::Un(o, a) => build_un(ctx, o, n[a]),
                POp::Bin(o, a, b) => build_bin(ctx, o, n[a], n[b]),
            };
            n.push(v);
        }
        self.roots.iter().map(|r| n[*r]).collect()
    }

    /// Builds and returns all nodes (for "export every node" harnesses)
    pub fn build_all(&self, ctx: &mut Context) -> Vec<Node> {
        let mut n: Vec<Node> = Vec::with_capacity(self.nodes.len());
        for op in &self.nodes {
            let v = match *op {
                POp::Var(i) => ctx.var(var_by_index(i)),
                POp::Const(c) => ctx.constant(c),
                POp::Un(o, a) => build_un(ctx, o, n[a]),
                POp::Bin(o, a, b) => build_bin(ctx, o, n[a], n[b]),
            };
            n.push(v);
        }
        n
    }

    pub fn describe(&self) -> String {
        use std::fmt::Write;
        let mut s = String::new();
        for (i, op) in self.nodes.iter().enumerate() {
            match *op {
                POp::Var(v) => write!(s, "p{i}={} ", var_by_index(v)).unwrap(),
                POp::Const(c) => write!(s, "p{i}={c:?} ").unwrap(),
                POp::Un(o, a) => write!(s, "p{i}={o:?}(p{a}) ").unwrap(),
                POp::Bin(o, a, b) => write!(s, "p{i}={o:?}(p{a},p{b}) ").unwrap(),
            }
        }
        write!(s, "roots={:?}", self.roots).unwrap();
        s
    }
}

////////////////////////////////////////////////////////////////////////////////
// enum-dag

#[derive(Copy, Clone, Debug, PartialEq)]
pub enum OpSel {
    Un(U),
    Bin(B),
}

pub struct DagSpec {
    pub leaves: Vec<POp>,
    pub ops: Vec<OpSel>,
}

fn commutative(b: B) -> bool {
    matches!(b, B::Add | B::Mul | B::Min | B::Max)
}

impl DagSpec {
    /// All choices for the next operation node given `have` earlier values
    /// (leaves + operation nodes).  Commutative ops only list a <= b.
    pub fn node_choices(&self, have: usize) -> Vec<POp> {
        let mut out = vec![];
        for o in &self.ops {
            match *o {
                OpSel::Un(u) => {
                    for a in 0..have {
                        out.push(POp::Un(u, a));
                    }
                }
                OpSel::Bin(b) => {
                    for x in 0..have {
                        for y in 0..have {
                            if commutative(b) && x > y {
                                continue;
                            }
                            out.push(POp::Bin(b, x, y));
                        }
                    }
                }
            }
        }
        out
    }

    /// Number of first-level prefixes (used as units) for DAGs of exactly `n`
    /// operation nodes: choices of node 0 (and node 1 when n >= 2)
    pub fn prefixes(&self, n: usize) -> Vec<Vec<POp>> {
        let l = self.leaves.len();
        let c0 = self.node_choices(l);
        if n <= 1 {
            return c0.into_iter().map(|c| vec![c]).collect();
        }
        let c1 = self.node_choices(l + 1);
        let mut out = vec![];
        for a in &c0 {
            for b in &c1 {
                if *b == *a {
                    continue; // identical node: merged by the Context
                }
                out.push(vec![*a, *b]);
            }
        }
        out
    }

    /// Enumerates every DAG with exactly `n` operation nodes that starts with
    /// `prefix`, such that every operation node except the last has a parent
    /// (or, if `allow_one_orphan`, exactly one other node is parentless and
    /// becomes an extra root).  Calls `f(prog, orphan)`; `prog.roots` is
    /// `[last]` (plus the orphan).
    pub fn for_each(
        &self,
        n: usize,
        prefix: &[POp],
        allow_one_orphan: bool,
        f: &mut dyn FnMut(&Prog, Option<usize>),
    ) {
        let l = self.leaves.len();
        let mut p = Prog {
            nodes: self.leaves.clone(),
            roots: vec![],
        };
        for op in prefix {
            p.nodes.push(*op);
        }
        self.rec(n, l, allow_one_orphan, &mut p, f);
    }

    fn rec(
        &self,
        n: usize,
        l: usize,
        allow_one_orphan: bool,
        p: &mut Prog,
        f: &mut dyn FnMut(&Prog, Option<usize>),
    ) {
        let have_ops = p.nodes.len() - l;
        // parentless operation nodes so far (excluding the newest)
        let mut used = vec![false; p.nodes.len()];
        for op in &p.nodes[l..] {
            match *op {
                POp::Un(_, a) => used[a] = true,
                POp::Bin(_, a, b) => {
                    used[a] = true;
                    used[b] = true;
                }
                _ => (),
            }
        }
        let orphans: Vec<usize> = (l..p.nodes.len().saturating_sub(1))
            .filter(|i| !used[*i])
            .collect();
        let remaining = n - have_ops;
        // each remaining node can adopt at most two orphans; the newest node
        // may itself still be adopted
        let budget = 2 * remaining + usize::from(allow_one_orphan);
        if orphans.len() > budget {
            return;
        }
        if remaining == 0 {
            let last = p.nodes.len() - 1;
            match orphans.len() {
                0 => {
                    p.roots = vec![last];
                    f(p, None);
                }
                1 if allow_one_orphan => {
                    p.roots = vec![last, orphans[0]];
                    f(p, Some(orphans[0]));
                }
                _ => (),
            }
            p.roots.clear();
            return;
        }
        for c in self.node_choices(p.nodes.len()) {
            if p.nodes[l..].contains(&c) {
                continue;
            }
            p.nodes.push(c);
            self.rec(n, l, allow_one_orphan, p, f);
            p.nodes.pop();
        }
    }
}

////////////////////////////////////////////////////////////////////////////////
// Parametric families (exhaustive over their parameters)

/// The repository's stress shape generalised: w values are created from the
/// inputs, passed through `mid`, and consumed in the order given by `order`.
#[derive(Copy, Clone, Debug, PartialEq, Eq)]
pub enum Order {
    Forward,
    Reverse,
    Interleaved,
}

pub fn family_fan(w: usize, mid: Option<U>, order: Order, combine: B) -> Prog {
    let mut p = Prog::default();
    let x = p.push(POp::Var(0));
    let y = p.push(POp::Var(1));
    let mut vals = vec![];
    for i in 0..w {
        // distinct values: x * (i+1) + y
        let c = p.push(POp::Const(i as f32 + 1.5));
        let m = p.push(POp::Bin(B::Mul, x, c));
        let a = p.push(POp::Bin(B::Add, m, y));
        let v = match mid {
            Some(u) => p.push(POp::Un(u, a)),
            None => a,
        };
        vals.push(v);
    }
    let idx: Vec<usize> = match order {
        Order::Forward => (0..w).collect(),
        Order::Reverse => (0..w).rev().collect(),
        Order::Interleaved => {
            let mut v = vec![];
            let (mut lo, mut hi) = (0usize, w);
            while lo < hi {
                v.push(lo);
                lo += 1;
                if lo < hi {
                    hi -= 1;
                    v.push(hi);
                }
            }
            v
        }
    };
    let mut acc = vals[idx[0]];
    for &i in &idx[1..] {
        acc = p.push(POp::Bin(combine, acc, vals[i]));
    }
    p.roots = vec![acc];
    p
}

/// Balanced reduction tree over w distinct variables
pub fn family_tree(w: usize, combine: B) -> Prog {
    let mut p = Prog::default();
    let mut level: Vec<usize> = (0..w).map(|i| p.push(POp::Var(i))).collect();
    while level.len() > 1 {
        let mut next = vec![];
        for c in level.chunks(2) {
            if c.len() == 2 {
                next.push(p.push(POp::Bin(combine, c[0], c[1])));
            } else {
                next.push(c[0]);
            }
        }
        level = next;
    }
    p.roots = vec![level[0]];
    p
}

/// `k` choice clauses chained: clause i = op_i(prev, leaf_i) with kinds from
/// `pattern` repeated; leaves alternate between variables and constants.
pub fn family_chain(k: usize, pattern: &[B], imm_every: usize) -> Prog {
    let mut p = Prog::default();
    let x = p.push(POp::Var(0));
    let y = p.push(POp::Var(1));
    let mut acc = x;
    for i in 0..k {
        let op = pattern[i % pattern.len()];
        let rhs = if imm_every > 0 && i % imm_every == 0 {
            p.push(POp::Const((i as f32) * 0.25 - 1.0))
        } else {
            let c = p.push(POp::Const(i as f32 * 0.5 + 0.25));
            p.push(POp::Bin(B::Add, y, c))
        };
        acc = p.push(POp::Bin(op, acc, rhs));
    }
    if k == 0 {
        acc = p.push(POp::Bin(B::Add, x, y));
    }
    p.roots = vec![acc];
    p
}

/// An out-of-line call in the JIT: a unary libm function, or a binary one
/// (atan2, mod) applied to (value, y)
#[derive(Copy, Clone, Debug)]
pub enum CallOp {
    Un(U),
    Bin(B),
}

/// Choice clauses separated by out-of-line calls: c1 = inner(h(x), y),
/// c2 = outer(g(c1), x-or-const), c3 = inner(y, h(c2)): call, choice, call,
/// choice, call, choice in evaluation order (JIT call-outs sit between the
/// writes to the choice array)
pub fn calls_between_choices(inner: B, outer: B, h: CallOp, g: CallOp, third: bool, imm: bool) -> Prog {
    let mut p = Prog::default();
    let x = p.push(POp::Var(0));
    let y = p.push(POp::Var(1));
    let call = |p: &mut Prog, c: CallOp, a: usize| match c {
        CallOp::Un(u) => p.push(POp::Un(u, a)),
        CallOp::Bin(b) => p.push(POp::Bin(b, a, y)),
    };
    let t1 = call(&mut p, h, x);
    let c1 = p.push(POp::Bin(inner, t1, y));
    let t2 = call(&mut p, g, c1);
    let rhs = if imm { p.push(POp::Const(0.5)) } else { x };
    let c2 = p.push(POp::Bin(outer, t2, rhs));
    let root = if third {
        let t3 = call(&mut p, h, c2);
        p.push(POp::Bin(inner, y, t3))
    } else {
        c2
    };
    p.roots = vec![root];
    p
}

/// A program in which about `half` values are live at the same time:
/// c[0] = x, c[i+1] = 0.999 c[i] + k_i, result sum_i c[i] * c[i + half]
/// (optionally under min(.., 1e30) so that there is one choice)
pub fn huge_prog(half: usize, with_choice: bool) -> Prog {
    let mut p = Prog::default();
    let mut cur = p.push(POp::Var(0));
    let mut c = vec![];
    for i in 0..2 * half {
        c.push(cur);
        let k = p.push(POp::Const(0.999));
        let m = p.push(POp::Bin(B::Mul, cur, k));
        let k2 = p.push(POp::Const(0.001 * (i as f32 + 1.0)));
        cur = p.push(POp::Bin(B::Add, m, k2));
    }
    let mut sum = p.push(POp::Bin(B::Mul, c[0], c[half]));
    for i in 1..half {
        let q = p.push(POp::Bin(B::Mul, c[i], c[i + half]));
        sum = p.push(POp::Bin(B::Add, sum, q));
    }
    let r = if with_choice {
        let big = p.push(POp::Const(1e30));
        p.push(POp::Bin(B::Min, sum, big))
    } else {
        sum
    };
    p.roots = vec![r];
    p
}

/// Programs in which the operands of a binary op are used again afterwards
/// in every pattern (which decides whether the allocator lets the output share
/// a register with the left operand, the right operand, or neither):
/// b(x,y)+x, b(x,y)+y, x+b(x,y), b(x,y)-b(y,x), b(b(x,y),x), b(x,b(x,y)),
/// b(y,b(x,y)), b(x,x)+x, b(-x,y)+x, b(x,-y)*(-y), b(x,y)+x+y, and the same
/// with every node exported
pub fn reuse_patterns(b: B) -> Vec<Prog> {
    let mut out = vec![];
    let mk = |f: &dyn Fn(&mut Prog, usize, usize) -> usize| {
        let mut p = Prog::default();
        let x = p.push(POp::Var(0));
        let y = p.push(POp::Var(1));
        let r = f(&mut p, x, y);
        p.roots = vec![r];
        p
    };
    out.push(mk(&|p, x, y| {
        let o = p.push(POp::Bin(b, x, y));
        p.push(POp::Bin(B::Add, o, x))
    }));
    out.push(mk(&|p, x, y| {
        let o = p.push(POp::Bin(b, x, y));
        p.push(POp::Bin(B::Add, o, y))
    }));
    out.push(mk(&|p, x, y| {
        let o = p.push(POp::Bin(b, x, y));
        p.push(POp::Bin(B::Sub, x, o))
    }));
    out.push(mk(&|p, x, y| {
        let o = p.push(POp::Bin(b, x, y));
        let q = p.push(POp::Bin(b, y, x));
        p.push(POp::Bin(B::Sub, o, q))
    }));
    out.push(mk(&|p, x, y| {
        let o = p.push(POp::Bin(b, x, y));
        p.push(POp::Bin(b, o, x))
    }));
    out.push(mk(&|p, x, y| {
        let o = p.push(POp::Bin(b, x, y));
        p.push(POp::Bin(b, x, o))
    }));
    out.push(mk(&|p, x, y| {
        let o = p.push(POp::Bin(b, x, y));
        p.push(POp::Bin(b, y, o))
    }));
    out.push(mk(&|p, x, _y| {
        let o = p.push(POp::Bin(b, x, x));
        p.push(POp::Bin(B::Add, o, x))
    }));
    out.push(mk(&|p, x, y| {
        let n = p.push(POp::Un(U::Neg, x));
        let o = p.push(POp::Bin(b, n, y));
        p.push(POp::Bin(B::Add, o, x))
    }));
    out.push(mk(&|p, x, y| {
        let n = p.push(POp::Un(U::Neg, y));
        let o = p.push(POp::Bin(b, x, n));
        p.push(POp::Bin(B::Mul, o, n))
    }));
    out.push(mk(&|p, x, y| {
        let o = p.push(POp::Bin(b, x, y));
        let s = p.push(POp::Bin(B::Add, o, x));
        p.push(POp::Bin(B::Add, s, y))
    }));
    out
}

/// The same for a unary op: u(x)+x, x-u(x), u(u(x))+x, u(x)*u(x)+x
pub fn reuse_patterns_unary(u: U) -> Vec<Prog> {
    let mut out = vec![];
    let mk = |f: &dyn Fn(&mut Prog, usize) -> usize| {
        let mut p = Prog::default();
        let x = p.push(POp::Var(0));
        let r = f(&mut p, x);
        p.roots = vec![r];
        p
    };
    out.push(mk(&|p, x| {
        let o = p.push(POp::Un(u, x));
        p.push(POp::Bin(B::Add, o, x))
    }));
    out.push(mk(&|p, x| {
        let o = p.push(POp::Un(u, x));
        p.push(POp::Bin(B::Sub, x, o))
    }));
    out.push(mk(&|p, x| {
        let o = p.push(POp::Un(u, x));
        let q = p.push(POp::Un(u, o));
        p.push(POp::Bin(B::Add, q, x))
    }));
    out
}
