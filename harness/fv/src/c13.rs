//! C13 — remapping a tree's axes is substitution.  DESIGN.md §4 C13.
use crate::prog::var_by_index;
use crate::refsem::Flat;
use crate::runner::{Check, CrashPolicy, Cx, Meta, Tier, guard, panic_site};
use fidget_core::context::{Context, Tree, TreeOp};
use fidget_core::var::Var;
use nalgebra::{Affine3, Matrix4};
use serde_json::json;
use std::sync::Arc;

pub struct C13;

type P3 = [f64; 3];
/// value at (point, free variable v)
type Fun = Arc<dyn Fn(P3, f64) -> f64 + Send + Sync>;
/// coordinate map (may use the free variable)
type Map = Arc<dyn Fn(P3, f64) -> P3 + Send + Sync>;

fn free_var() -> Var {
    var_by_index(7)
}

#[derive(Clone)]
struct Remap {
    name: &'static str,
    apply: Arc<dyn Fn(&Tree) -> Tree + Send + Sync>,
    map: Map,
    exact: bool,
    affine: bool,
}

fn affine(name: &'static str, m: Matrix4<f32>, exact: bool) -> Remap {
    let a: Affine3<f32> = Affine3::from_matrix_unchecked(m);
    let m64: Matrix4<f64> = m.cast::<f64>();
    Remap {
        name,
        apply: Arc::new(move |t: &Tree| t.remap_affine(a)),
        map: Arc::new(move |p: P3, _v: f64| {
            let q = m64 * nalgebra::Vector4::new(p[0], p[1], p[2], 1.0);
            [q[0], q[1], q[2]]
        }),
        exact,
        affine: true,
    }
}

fn remaps() -> Vec<Remap> {
    use nalgebra::Vector3;
    let (x, y, z) = Tree::axes();
    let mut v = vec![
        affine("translate(0.5,-2,0.25)", Matrix4::new_translation(&Vector3::new(0.5, -2.0, 0.25)), true),
        affine("scale(2,0.5,-1)", Matrix4::new_nonuniform_scaling(&Vector3::new(2.0, 0.5, -1.0)), true),
        affine("rotZ90", Matrix4::new(0.0, -1.0, 0.0, 0.0, 1.0, 0.0, 0.0, 0.0, 0.0, 0.0, 1.0, 0.0, 0.0, 0.0, 0.0, 1.0), true),
        affine("rotX90", Matrix4::new(1.0, 0.0, 0.0, 0.0, 0.0, 0.0, -1.0, 0.0, 0.0, 1.0, 0.0, 0.0, 0.0, 0.0, 0.0, 1.0), true),
        affine("shear", Matrix4::new(1.0, 0.5, 0.0, 0.25, 0.0, 1.0, 0.25, 0.0, 0.0, 0.0, 1.0, -1.0, 0.0, 0.0, 0.0, 1.0), true),
        affine("rot30(0.3,-0.2,0.5)", Matrix4::new_rotation(Vector3::new(0.3, -0.2, 0.5)), false),
        // a singular map: the z row has no linear part, so z becomes the constant 0.5
        affine("flatten z := 0.5", Matrix4::new(1.0, 0.0, 0.0, 0.0, 0.0, 1.0, 0.0, 0.0, 0.0, 0.0, 0.0, 0.5, 0.0, 0.0, 0.0, 1.0), true),
        // all twelve entries non-zero and different
        affine("dense", Matrix4::new(0.5, -0.25, 0.75, 0.25, 0.125, 0.625, -0.5, -1.0, -0.375, 0.875, 0.25, 1.5, 0.0, 0.0, 0.0, 1.0), true),
    ];
    let xyz = |name: &'static str, tx: Tree, ty: Tree, tz: Tree, map: Map| Remap {
        name,
        apply: Arc::new(move |t: &Tree| t.remap_xyz(tx.clone(), ty.clone(), tz.clone())),
        map,
        exact: true,
        affine: false,
    };
    v.push(xyz("xyz(y,z,x)", y.clone(), z.clone(), x.clone(), Arc::new(|p, _| [p[1], p[2], p[0]])));
    v.push(xyz(
        "xyz(x*y,y+1,z)",
        x.clone() * y.clone(),
        y.clone() + 1.0,
        z.clone(),
        Arc::new(|p, _| [p[0] * p[1], p[1] + 1.0, p[2]]),
    ));
    v.push(xyz("xyz(0.5,y,-z)", Tree::constant(0.5), y.clone(), -z.clone(), Arc::new(|p, _| [0.5, p[1], -p[2]])));
    let fv = Tree::from(free_var());
    v.push(xyz(
        "xyz(x+v,y,z*v)",
        x.clone() + fv.clone(),
        y.clone(),
        z.clone() * fv,
        Arc::new(|p, v| [p[0] + v, p[1], p[2] * v]),
    ));
    v.push(xyz("xyz(x,x,y)", x.clone(), x.clone(), y.clone(), Arc::new(|p, _| [p[0], p[0], p[1]])));
    v.push(xyz(
        "xyz(min(x,z),max(y,0.25),z-x)",
        x.min(z.clone()),
        y.max(0.25),
        z.clone() - x.clone(),
        Arc::new(|p, _| [p[0].min(p[2]), p[1].max(0.25), p[2] - p[0]]),
    ));
    v
}

fn targets() -> Vec<(&'static str, Tree, Fun)> {
    let (x, y, z) = Tree::axes();
    let fv = Tree::from(free_var());
    vec![
        ("x", x.clone(), Arc::new(|p: P3, _v: f64| p[0]) as Fun),
        (
            "x+2y+4z",
            x.clone() + y.clone() * 2.0 + z.clone() * 4.0,
            Arc::new(|p: P3, _v: f64| p[0] + 2.0 * p[1] + 4.0 * p[2]),
        ),
        (
            "x*y-z",
            x.clone() * y.clone() - z.clone(),
            Arc::new(|p: P3, _v: f64| p[0] * p[1] - p[2]),
        ),
        (
            "min(x,y)+v",
            x.min(y.clone()) + fv,
            Arc::new(|p: P3, v: f64| p[0].min(p[1]) + v),
        ),
    ]
}

fn points() -> Vec<(P3, f64)> {
    let g = [-1.5f64, 0.25, 2.0];
    let mut v = vec![];
    for x in g {
        for y in g {
            for z in g {
                for fv in [0.5, -3.0] {
                    v.push(([x, y, z], fv));
                }
            }
        }
    }
    v
}

fn eval_impl(t: &Tree, pts: &[(P3, f64)]) -> Result<Vec<f32>, String> {
    guard(|| {
        let mut ctx = Context::new();
        let n = ctx.import(t);
        let flat = Flat::from_ctx(&ctx, &[n]);
        let (mut vals, mut amb) = (vec![], vec![]);
        pts.iter()
            .map(|(p, v)| {
                let args: Vec<f32> = flat
                    .vars
                    .iter()
                    .map(|u| match u {
                        Var::X => p[0] as f32,
                        Var::Y => p[1] as f32,
                        Var::Z => p[2] as f32,
                        _ => *v as f32,
                    })
                    .collect();
                flat.eval_all(&args, &mut vals, &mut amb);
                vals[flat.roots[0]]
            })
            .collect()
    })
}

fn compare(cx: &mut Cx, what: &str, sig: &str, t: &Tree, f: &Fun, exact: bool) {
    let pts = points();
    cx.add("evals", pts.len() as u64);
    let desc = || json!({"tree": what});
    match eval_impl(t, &pts) {
        Err(e) => cx.violation(format!("import panic {}", panic_site(&e)), desc(), e),
        Ok(vals) => {
            for ((p, v), got) in pts.iter().zip(&vals) {
                let want = f(*p, *v);
                if !want.is_finite() || want.abs() > 1e30 {
                    continue;
                }
                cx.add("point_checks", 1);
                // dyadic data keeps short chains exact, but repeated products outgrow the
                // 24-bit mantissa (x*y three times over): exactness is only demanded
                // when the f64 value has at most 12 significant bits, otherwise 1e-5
                let few_bits = want == 0.0 || {
                    let m = want.abs() / 2f64.powi(want.abs().log2().floor() as i32);
                    (m * 2048.0).fract() == 0.0
                };
                let ok = if exact && few_bits {
                    (*got as f64) == want || ((*got as f64) - want).abs() <= 1e-5 * 1f64.max(want.abs())
                } else {
                    ((*got as f64) - want).abs() <= 1e-5 * 1f64.max(want.abs())
                };
                if !ok {
                    cx.violation(
                        sig.to_string(),
                        desc(),
                        format!("{what}: at p={p:?}, v={v}: imported tree evaluates to {got}, substitution gives {want}"),
                    );
                    return;
                }
            }
        }
    }
}

#[derive(Clone, Debug)]
enum Unit {
    Seq { target: usize, first: usize },
    Combine { first: usize },
    Shared { first: usize },
    Collapse,
}

fn units(_tier: Tier) -> Vec<Unit> {
    let mut v = vec![Unit::Collapse];
    let nr = remaps().len();
    for t in 0..targets().len() {
        for r in 0..nr {
            v.push(Unit::Seq { target: t, first: r });
        }
    }
    for r in 0..nr {
        v.push(Unit::Combine { first: r });
        v.push(Unit::Shared { first: r });
    }
    v
}

/// Applies a sequence of remaps (in call order) to a tree and its reference
fn apply_seq(t: &Tree, f: &Fun, rs: &[Remap], seq: &[usize]) -> (Tree, Fun, bool, String) {
    apply_seq_keep(t, f, rs, seq, false)
}

/// `keep`: every intermediate tree keeps a second owner while the next remap
/// is applied (as when a caller stores the intermediate shape), so that
/// builder-side shortcuts which depend on unique ownership are exercised too
fn apply_seq_keep(t: &Tree, f: &Fun, rs: &[Remap], seq: &[usize], keep: bool) -> (Tree, Fun, bool, String) {
    let mut kept: Vec<Tree> = vec![];
    let mut tree = t.clone();
    let mut fun = f.clone();
    let mut exact = true;
    let mut names = vec![];
    for i in seq {
        let r = &rs[*i];
        if keep {
            kept.push(tree.clone());
        }
        tree = (r.apply)(&tree);
        let (prev, m) = (fun.clone(), r.map.clone());
        // later remaps act on the coordinates first
        fun = Arc::new(move |p: P3, v: f64| prev(m(p, v), v));
        exact &= r.exact;
        names.push(r.name);
    }
    (tree, fun, exact, names.join(" then "))
}

fn seqs_from(first: usize, nr: usize, maxlen: usize) -> Vec<Vec<usize>> {
    let mut out = vec![vec![first]];
    let mut frontier = vec![vec![first]];
    for _ in 1..maxlen {
        let mut next = vec![];
        for s in &frontier {
            for r in 0..nr {
                let mut q = s.clone();
                q.push(r);
                next.push(q);
            }
        }
        out.extend(next.clone());
        frontier = next;
    }
    out
}

impl Check for C13 {
    fn id(&self) -> &'static str {
        "C13"
    }
    fn units(&self, tier: Tier) -> usize {
        units(tier).len()
    }
    fn meta(&self, tier: Tier) -> Meta {
        Meta {
            rule: "case = (target tree, sequence of remaps); targets {x, x+2y+4z, x*y-z, min(x,y)+v with a free variable v}; remap alphabet of 12: remap_affine with {translation, non-uniform scale incl. negative, 90-degree rotations about z and x, shear with translation, a general rotation} and remap_xyz with {a permutation, non-linear expressions (x*y, y+1, z), a constant axis, expressions using the free variable, a duplicated axis, min/max expressions}; EVERY sequence up to the length bound applied through the builder API, once as a plain chain and once with every intermediate tree kept alive by a second owner; additionally remaps applied to a sub-tree before combination ((A.remap(r1) op B).remap(r2)) and one sub-tree shared bare and under two different frames, in both operand orders ((S.remap(r1) - 2 S.remap(r2) + S).remap(r3) and (S + (S.remap(r1) - 2 S.remap(r2))).remap(r3)); evaluated (import + ref32) at 27 dyadic points x 2 values of v and compared with f64 substitution semantics (later remaps act on coordinates first): to 1e-5 relative (dyadic data: short chains are exact, which the tolerance subsumes); consecutive remap_affine calls must collapse into one node".into(),
            bounds: match tier {
                Tier::Quick => "sequences of length <= 3".into(),
                Tier::Thorough => "sequences of length <= 4".into(),
            },
            assumptions: vec!["hand-built nested TreeOp::RemapAffine nodes are outside the claim (builder API only)".into()],
            crash_policy: CrashPolicy::Violation,
            vacuity: vec![("point_checks", 100000)],
            transitions_counter: "evals",
            nontrivial_counter: "cases",
            exhaustive: true,
        }
    }
    fn run_unit(&self, tier: Tier, unit: usize, cx: &mut Cx) {
        let rs = remaps();
        let ts = targets();
        let nr = rs.len();
        let maxlen = if tier == Tier::Quick { 3 } else { 4 };
        let mut sub = 0u64;
        match units(tier)[unit].clone() {
            Unit::Collapse => {
                // consecutive affine remaps collapse (target is never itself RemapAffine)
                for a in 0..nr {
                    for b in 0..nr {
                        if !(rs[a].affine && rs[b].affine) {
                            continue;
                        }
                        let s = sub;
                        sub += 1;
                        if !cx.case(s) {
                            continue;
                        }
                        cx.add("cases", 1);
                        let t = (rs[b].apply)(&(rs[a].apply)(&ts[2].1));
                        let ok = match &*t {
                            TreeOp::RemapAffine { target, .. } => !matches!(&**target, TreeOp::RemapAffine { .. }),
                            _ => false,
                        };
                        if !ok {
                            cx.violation(
                                "consecutive remap_affine calls did not collapse",
                                json!({"first": rs[a].name, "second": rs[b].name}),
                                "the target of the outer RemapAffine is itself a RemapAffine (or the node is not a RemapAffine)",
                            );
                        }
                    }
                }
            }
            Unit::Seq { target, first } => {
                let (tname, t, f) = &ts[target];
                for seq in seqs_from(first, nr, maxlen) {
                    let s = sub;
                    sub += 1;
                    if !cx.case(s) {
                        continue;
                    }
                    cx.add("cases", 1);
                    let kinds: String = seq.iter().map(|i| if rs[*i].affine { 'A' } else { 'X' }).collect();
                    for keep in [false, true] {
                        let (tree, fun, exact, names) = apply_seq_keep(t, f, &rs, &seq, keep);
                        compare(
                            cx,
                            &format!("({tname}) remapped by {names}{}", if keep { " (every intermediate tree kept alive by a second owner)" } else { "" }),
                            &format!("remap sequence is not substitution (kinds {kinds})"),
                            &tree,
                            &fun,
                            exact,
                        );
                    }
                    let (_, _, _, names) = apply_seq(t, f, &rs, &seq);
                    if sub % 97 == 0 {
                        cx.sample(|| json!({"target": tname, "sequence": names}));
                    }
                }
            }
            Unit::Combine { first } => {
                // (A.remap(r1) op B).remap(r2), and a third remap on top
                for r2 in 0..nr {
                    for (ai, bi) in [(1usize, 2usize), (2, 3), (3, 1)] {
                        for op in 0..2 {
                            for r3 in std::iter::once(None).chain((0..nr).map(Some)) {
                                if r3.is_some() && tier == Tier::Quick && r2 % 3 != 0 {
                                    continue;
                                }
                                let s = sub;
                                sub += 1;
                                if !cx.case(s) {
                                    continue;
                                }
                                cx.add("cases", 1);
                                let (ta, fa, e1, n1) = apply_seq(&ts[ai].1, &ts[ai].2, &rs, &[first]);
                                let (tb, fb) = (ts[bi].1.clone(), ts[bi].2.clone());
                                let (tc, fc): (Tree, Fun) = if op == 0 {
                                    (ta + tb, Arc::new(move |p, v| fa(p, v) + fb(p, v)))
                                } else {
                                    (ta.min(tb), Arc::new(move |p, v| fa(p, v).min(fb(p, v))))
                                };
                                let mut seq = vec![r2];
                                if let Some(r3) = r3 {
                                    seq.push(r3);
                                }
                                let (tree, fun, e2, n2) = apply_seq(&tc, &fc, &rs, &seq);
                                compare(
                                    cx,
                                    &format!("(({}).[{n1}] {} ({})).[{n2}]", ts[ai].0, if op == 0 { "+" } else { "min" }, ts[bi].0),
                                    "remap of a combination with a remapped sub-tree is not substitution",
                                    &tree,
                                    &fun,
                                    e1 && e2,
                                );
                            }
                        }
                    }
                }
            }
            Unit::Shared { first } => {
                // one sub-tree (same Arc) under two different frames
                for r2 in 0..nr {
                    for r3 in std::iter::once(None).chain((0..nr).map(Some)) {
                        for (si, bare_first) in [(1usize, false), (2, false), (3, false), (1, true), (2, true), (3, true)] {
                            let s = sub;
                            sub += 1;
                            if !cx.case(s) {
                                continue;
                            }
                            cx.add("cases", 1);
                            let shared = ts[si].1.clone();
                            let fs = ts[si].2.clone();
                            // make the shared sub-tree non-trivial so that the import cache is used
                            let shared = shared.clone() * 0.5 + shared.clone();
                            let fs2 = fs.clone();
                            let fs: Fun = Arc::new(move |p, v| fs2(p, v) * 0.5 + fs2(p, v));
                            let (t1, f1, e1, n1) = apply_seq(&shared, &fs, &rs, &[first]);
                            let (t2, f2, e2, n2) = apply_seq(&shared, &fs, &rs, &[r2]);
                            // both operand orders: the importer walks the right operand
                            // first, so the bare use is met before or after the remapped ones
                            let tc = if bare_first { shared.clone() + (t1 - t2 * 2.0) } else { t1 - t2 * 2.0 + shared.clone() };
                            let fs3 = fs.clone();
                            let fc: Fun = Arc::new(move |p, v| f1(p, v) - f2(p, v) * 2.0 + fs3(p, v));
                            let seq: Vec<usize> = r3.into_iter().collect();
                            let (tree, fun, e3, n3) = apply_seq(&tc, &fc, &rs, &seq);
                            compare(
                                cx,
                                &if bare_first {
                                    format!("S=({}) shared: (S + (S.[{n1}] - 2*S.[{n2}])).[{n3}]", ts[si].0)
                                } else {
                                    format!("S=({}) shared: (S.[{n1}] - 2*S.[{n2}] + S).[{n3}]", ts[si].0)
                                },
                                "a sub-tree shared under two frames is not substituted per frame",
                                &tree,
                                &fun,
                                e1 && e2 && e3,
                            );
                        }
                    }
                }
            }
        }
    }
}
