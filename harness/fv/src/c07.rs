//! C07 — 3D rendering equals the brute-force heightmap of the shape.
//! DESIGN.md §4 C07.
use crate::c05::{D64, dual_bin, dual_un};
use crate::evalkit::Backend;
use crate::prog::{POp, Prog, var_by_index};
use crate::runner::{Check, CrashPolicy, Cx, Meta, Tier, guard, panic_site};
use crate::scene::{self, Scene};
use fidget_core::context::{BinaryOpcode as B, Context};
use fidget_core::render::{RenderHints, ThreadPool, TileSizes, VoxelSize};
use fidget_core::shape::{Shape, ShapeVars};
use fidget_core::var::Var;
use fidget_core::vm::VmFunction;
use fidget_jit::JitFunction;
use fidget_raster::voxel::{EvalConfig, RenderConfig, render};
use nalgebra::{Matrix4, Vector3};
use serde_json::json;

pub struct C07;

fn grids(tier: Tier) -> Vec<(u32, u32, u32)> {
    match tier {
        Tier::Quick => vec![(4, 5, 8), (8, 8, 8), (9, 5, 12), (16, 17, 4), (5, 16, 9)],
        Tier::Thorough => {
            // every (width, height, depth) over sizes below, at and above each tile size
            let sizes = [1u32, 4, 5, 8, 9, 16, 17];
            let mut v = vec![];
            for w in sizes {
                for h in sizes {
                    for d in sizes {
                        v.push((w, h, d));
                    }
                }
            }
            v.extend([(9, 5, 12), (12, 9, 17), (3, 2, 7)]);
            v
        }
    }
}

fn tile_chains() -> Vec<Vec<usize>> {
    // incl. chains whose root tile is not a power of two (tile sizes need only be
    // descending and divisible)
    vec![vec![4], vec![8], vec![8, 4], vec![4, 2], vec![8, 4, 2], vec![16, 8], vec![16, 4], vec![12, 4], vec![6, 3], vec![5], vec![9, 3]]
}

fn transforms() -> Vec<(&'static str, Matrix4<f32>)> {
    vec![
        ("identity", Matrix4::identity()),
        ("scale 0.75", Matrix4::new_scaling(0.75)),
        ("translate z", Matrix4::new_translation(&Vector3::new(0.0, 0.1, 0.25))),
        ("rot90 about x", Matrix4::new(1.0, 0.0, 0.0, 0.0, 0.0, 0.0, -1.0, 0.0, 0.0, 1.0, 0.0, 0.0, 0.0, 0.0, 0.0, 1.0)),
        (
            "general",
            Matrix4::new_rotation(Vector3::new(0.3, -0.2, 0.5)) * Matrix4::new_nonuniform_scaling(&Vector3::new(1.2, 0.8, 1.0)),
        ),
        // bottom row (0, 0, 0, 2): uniform scale kept in the homogeneous coordinate
        ("homogeneous scale", {
            let mut m = Matrix4::new_translation(&Vector3::new(0.0, 0.25, -0.5));
            m *= 2.0;
            m
        }),
        // camera perspective as the CLI demo builds it: bottom row (0, 0, p, 1)
        ("perspective", {
            let mut m = Matrix4::identity();
            m[(3, 2)] = 0.3;
            m
        }),
    ]
}

/// Dual-number evaluation of a program (None near a non-differentiable locus)
pub fn eval_dual(p: &Prog, vars: &[D64]) -> Option<D64> {
    let mut v: Vec<Option<D64>> = Vec::with_capacity(p.nodes.len());
    for op in &p.nodes {
        let x = match *op {
            POp::Var(i) => Some(vars.get(i).copied().unwrap_or(D64::constant(0.0))),
            POp::Const(c) => Some(D64::constant(c as f64)),
            POp::Un(u, a) => v[a].and_then(|a| dual_un(u, a)),
            POp::Bin(b, a, c) => match (v[a], v[c]) {
                (Some(a), Some(c)) => dual_bin(b, a, c),
                _ => None,
            },
        };
        v.push(x);
    }
    v[p.roots[0]]
}

struct Built<F> {
    shape: Shape<F>,
    vars: ShapeVars<f32>,
}

fn build<F: Backend>(s: &Scene) -> Option<Built<F>> {
    let mut ctx = Context::new();
    let roots = s.prog.build(&mut ctx);
    let f = crate::evalkit::build::<F>(&ctx, &roots).ok()?;
    let mut vars = ShapeVars::new();
    if let (Some(v), Var::V(i)) = (s.free, var_by_index(5)) {
        vars.insert(i, v);
    }
    Some(Built { shape: Shape::new_raw(f), vars })
}

#[allow(clippy::too_many_arguments)]
fn render_case<F: Backend + RenderHints>(
    cx: &mut Cx,
    s: &Scene,
    b: &Built<F>,
    g: (u32, u32, u32),
    chain: Option<&[usize]>,
    tname: &str,
    m: &Matrix4<f32>,
    pool: Option<&ThreadPool>,
) {
    let (w, h, d) = g;
    let desc = || {
        json!({"backend": F::NAME, "shape": s.name, "grid": [w, h, d], "tiles": chain.map(|c| format!("{c:?}")).unwrap_or("backend default".into()), "transform": tname,
               "threads": if pool.is_some() { "pool (shim, default schedule)" } else { "none" }})
    };
    let cfg = RenderConfig { image_size: VoxelSize::new(w, h, d), world_to_model: *m };
    let via_run = chain.is_none() && matches!(pool, Some(ThreadPool::Global));
    let ecfg = EvalConfig { tile_sizes: chain.map(|c| TileSizes::new(c).unwrap()), threads: pool, cancel: Default::default() };
    // the chain in force: the caller's, or the backend's default
    let default_chain: Vec<usize> = F::tile_sizes_3d().iter().cloned().collect();
    let chain: &[usize] = chain.unwrap_or(&default_chain);
    cx.add("evals", 1);
    // default tile sizes + global pool = the convenience entry point VoxelRenderConfig::run
    let img = match guard(|| if via_run { Some(cfg.run(b.shape.bind(&b.vars).unwrap())) } else { render(b.shape.bind(&b.vars).unwrap(), &cfg, &ecfg) }) {
        Ok(Some(i)) => i,
        Ok(None) => {
            cx.violation(format!("{} render returned None without cancellation", F::NAME), desc(), "None");
            return;
        }
        Err(e) => {
            cx.crash(format!("{} voxel render crash {}", F::NAME, panic_site(&e)), desc(), e);
            return;
        }
    };
    if img.width() != w as usize || img.height() != h as usize {
        cx.violation(format!("{} image dimensions differ from the request", F::NAME), desc(), format!("{}x{}", img.width(), img.height()));
        return;
    }
    // the root tile actually used: first chain entry not larger than needed
    let max_size = w.max(h) as usize;
    let root = {
        let i = chain.iter().position(|t| *t < max_size).unwrap_or(chain.len()).saturating_sub(1);
        chain[i]
    };
    let kmax = (d as usize).div_ceil(root) * root;
    // the sample positions themselves: the documented screen-to-world map (x = -1 at
    // column 0, +1 one voxel beyond the right edge; y = +1 one voxel beyond the top edge;
    // z = -1 at layer 0 with +z out of the screen; the shortest side spans [-1, 1), the
    // map is centred) followed by world_to_model, written from the documentation
    {
        let sc = 2.0 / (w.min(h).min(d) as f64);
        #[rustfmt::skip]
        let s2w = nalgebra::Matrix4::<f64>::new(
            sc, 0.0, 0.0, -(w as f64) / 2.0 * sc,
            0.0, -sc, 0.0, ((h as f64) / 2.0 - 1.0) * sc,
            0.0, 0.0, sc, -(d as f64) / 2.0 * sc,
            0.0, 0.0, 0.0, 1.0);
        let want = m.cast::<f64>() * s2w;
        let got = cfg.mat().cast::<f64>();
        for r in 0..4 {
            for c in 0..4 {
                if !((got[(r, c)] - want[(r, c)]).abs() <= 1e-5 * (1.0 + want[(r, c)].abs())) {
                    cx.violation(
                        "screen-to-model matrix differs from the documented mapping",
                        desc(),
                        format!("entry ({r},{c}) of VoxelRenderConfig::mat() is {}, the documented screen-to-world map followed by world_to_model gives {}", got[(r, c)], want[(r, c)]),
                    );
                    return;
                }
            }
        }
    }
    let mat = cfg.mat().cast::<f64>();
    let free = s.free.unwrap_or(0.0) as f64;
    let model = |i: f64, j: f64, k: f64| -> [f64; 3] {
        let q = mat * nalgebra::Vector4::new(i, j, k, 1.0);
        [q[0] / q[3], q[1] / q[3], q[2] / q[3]]
    };
    for j in 0..h as usize {
        for i in 0..w as usize {
            // brute force over the column, including the part of the top root
            // tile that sticks out of the grid
            let mut hgt = 0usize;
            let mut undecidable_at = None;
            let mut beyond = false;
            let mut exact_not_inside = 0u64;
            for k in 0..kmax {
                let p = model(i as f64, j as f64, k as f64);
                let pex = scene::position_exact(&mat, [i as f64, j as f64, k as f64]);
                let dpos = 4e-6 * (1.0 + p[0].abs().max(p[1].abs()).max(p[2].abs()));
                let (side, _v) = scene::side_of(&s.prog, p, free, pex, dpos);
                match side {
                    scene::Side::Undecidable => undecidable_at = Some(k),
                    scene::Side::Inside => {
                        if k >= d as usize {
                            beyond = true;
                        } else {
                            hgt = k + 1;
                        }
                    }
                    scene::Side::NotInside => {
                        if pex {
                            exact_not_inside += 1;
                        }
                    }
                }
            }
            cx.add("voxels_decided_exactly_or_certainly_nan_not_inside", exact_not_inside);
            if beyond {
                cx.add("columns_skipped_negative_beyond_grid_top", 1);
                continue;
            }
            if let Some(k) = undecidable_at {
                if k + 1 >= hgt {
                    cx.add("columns_skipped_undecidable", 1);
                    continue;
                }
            }
            let px = img[(j, i)];
            let clamped = hgt + 1 >= d as usize && hgt > 0;
            let want = if clamped { d as usize } else { hgt };
            cx.add("columns_checked", 1);
            if clamped {
                cx.add("columns_clamped_to_grid_depth", 1);
            }
            if px.depth as usize != want {
                cx.violation(
                    format!("{} depth differs from the brute-force heightmap{}", F::NAME, if clamped { " (clamped column)" } else { "" }),
                    desc(),
                    format!("column ({i},{j}): reported depth {}, highest negative voxel index + 1 = {hgt}{}", px.depth, if clamped { format!(" (clamped to {d})") } else { String::new() }),
                );
                return;
            }
            // normal of an unclamped surface pixel = gradient at voxel (i, j, h-1)
            if hgt > 0 && !clamped {
                let seeds = [(i as f64, 0usize), (j as f64, 1), ((hgt - 1) as f64, 2)];
                let s3: Vec<D64> = seeds
                    .iter()
                    .map(|(v, k)| {
                        let mut dd = D64::constant(*v);
                        dd.d[*k] = 1.0;
                        dd.m[*k] = 1.0;
                        dd
                    })
                    .collect();
                let row = |r: usize| -> D64 {
                    let mut acc = D64::constant(mat[(r, 3)]);
                    for c in 0..3 {
                        let a = mat[(r, c)];
                        acc.v += a * s3[c].v;
                        for q in 0..3 {
                            acc.d[q] += a * s3[c].d[q];
                            acc.m[q] += a.abs() * s3[c].m[q];
                        }
                    }
                    acc
                };
                let wv = row(3);
                let t: Vec<D64> = (0..3).filter_map(|r| dual_bin(B::Div, row(r), wv)).collect();
                if t.len() == 3 {
                    let vars = [t[0], t[1], t[2], D64::constant(0.0), D64::constant(0.0), D64::constant(free)];
                    if let Some(r) = eval_dual(&s.prog, &vars) {
                        let n = px.normal;
                        let want_n = r.d;
                        let wl = (want_n[0].powi(2) + want_n[1].powi(2) + want_n[2].powi(2)).sqrt();
                        let gl = ((n[0] as f64).powi(2) + (n[1] as f64).powi(2) + (n[2] as f64).powi(2)).sqrt();
                        cx.add("normals_checked", 1);
                        let bad = if wl < 1e-6 {
                            gl > 1e-3
                        } else {
                            (gl - wl).abs() > 1e-3 * wl
                                || (0..3).any(|q| (n[q] as f64 / gl.max(1e-30) - want_n[q] / wl).abs() > 1e-3)
                        };
                        if bad {
                            cx.violation(
                                format!("{} normal differs from the gradient at the surface voxel", F::NAME),
                                desc(),
                                format!("column ({i},{j}) depth {hgt}: normal {n:?}, gradient at voxel ({i},{j},{}) is {want_n:?}", hgt - 1),
                            );
                            return;
                        }
                    } else {
                        cx.add("normals_skipped_near_nondifferentiable_locus", 1);
                    }
                }
            }
        }
    }
}

fn scene_unit<F: Backend + RenderHints>(cx: &mut Cx, tier: Tier, si: usize) {
    let scenes = scene::scenes_3d();
    let s = &scenes[si];
    let Some(b) = build::<F>(s) else { return };
    let pool = ThreadPool::Custom(rayon::ThreadPoolBuilder::new().num_threads(4).build().unwrap());
    let mut sub = 0u64;
    for g in grids(tier) {
        for chain in tile_chains() {
            for (tname, m) in transforms() {
                for threads in [false, true] {
                    let sid = sub;
                    sub += 1;
                    if !cx.case(sid) {
                        continue;
                    }
                    cx.add("cases", 1);
                    cx.add("nontrivial", 1);
                    render_case::<F>(cx, s, &b, g, Some(&chain), tname, &m, if threads { Some(&pool) } else { None });
                    if sid % 211 == 0 {
                        cx.sample(|| json!({"backend": F::NAME, "shape": s.name, "grid": [g.0, g.1, g.2], "tiles": chain, "transform": tname, "threads": threads}));
                    }
                }
            }
        }
    }
    // the backend's DEFAULT tile sizes (VM [128,64,32,16,8], JIT [64,16,8]) on grids
    // larger than one root tile in some direction
    let global = ThreadPool::Global;
    let big: &[(u32, u32, u32)] = match tier {
        Tier::Quick => &[(70, 40, 33), (20, 66, 70)],
        Tier::Thorough => &[(70, 40, 33), (20, 66, 70), (65, 65, 65), (130, 20, 16), (40, 130, 9)],
    };
    for &g in big {
        for (tname, m) in transforms().into_iter().step_by(2) {
            for threads in 0..3 {
                let sid = sub;
                sub += 1;
                if !cx.case(sid) {
                    continue;
                }
                cx.add("cases", 1);
                cx.add("nontrivial", 1);
                cx.add("default_tile_size_renders", 1);
                let pool_ref = match threads {
                    0 => None,
                    1 => Some(&pool),
                    _ => Some(&global),
                };
                render_case::<F>(cx, s, &b, g, None, tname, &m, pool_ref);
            }
        }
    }
}

impl Check for C07 {
    fn id(&self) -> &'static str {
        "C07"
    }
    fn units(&self, _tier: Tier) -> usize {
        scene::scenes_3d().len() * 2
    }
    fn unit_label(&self, _tier: Tier, unit: usize) -> String {
        let n = scene::scenes_3d().len();
        format!("{} {}", if unit < n { "vm" } else { "jit" }, scene::scenes_3d()[unit % n].name)
    }
    fn meta(&self, tier: Tier) -> Meta {
        Meta {
            rule: "case = one voxel render; full Cartesian product of 9 shapes (sphere, box, two slabs with a gap (occlusion), slab with a hole, tilted half-space, small sphere above a plate, empty, full, sphere with a free radius) x voxel grids with width != height != depth incl. non-multiples of every tile size x 11 tile-size chains (4 with a root that is not a power of two) x 6 view transforms (identity, scale, z translation, 90-degree rotation about x, general rotation+scale, camera perspective with bottom row (0,0,0.3,1)) x thread pool / none x VM / JIT; plus every shape with the backend's DEFAULT tile sizes on grids larger than a root tile (70x40x33, 20x66x70; thorough 3 more) with no pool / stand-in pool / ThreadPool::Global; oracle: cfg.mat() must equal the DOCUMENTED screen-to-world map (written independently from region.rs' documentation) followed by world_to_model; brute force over the whole column (f64 evaluation of the same program at cfg.mat()*(i,j,k,1)): depth = 1 + highest k < D with a decidably negative value, 0 if none, and D when that is >= D-1 (the implementation's documented clamp; counted separately); columns negative within the top root tile beyond the grid, or with an undecidable voxel at or above the surface, are skipped (counted); the normal of an unclamped surface pixel must match the f64 dual-number gradient of shape o transform at voxel (i,j,depth-1): direction and magnitude within 1e-3".into(),
            bounds: match tier {
                Tier::Quick => "5 grids up to 17 voxels per axis".into(),
                Tier::Thorough => "13 grids up to 17 voxels per axis".into(),
            },
            assumptions: vec![
                "the thread-pool dimension uses the rayon stand-in in its default schedule (schedules are C09's)".into(),
                "a render call that panics (or kills the process) instead of returning an image is reported here: C11 enumerates evaluator entry points, not the renderer".into(),
            ],
            crash_policy: CrashPolicy::Violation,
            vacuity: vec![("columns_checked", 50000), ("normals_checked", 5000)],
            transitions_counter: "evals",
            nontrivial_counter: "nontrivial",
            exhaustive: true,
        }
    }
    fn run_unit(&self, tier: Tier, unit: usize, cx: &mut Cx) {
        let n = scene::scenes_3d().len();
        if unit < n {
            scene_unit::<VmFunction>(cx, tier, unit);
        } else {
            scene_unit::<JitFunction>(cx, tier, unit - n);
        }
    }
}
