//! C15 — serialized bytecode, read per its documented format, computes the
//! tape.  DESIGN.md §4 C15.
//!
//! `bc_interp` below is written from the module documentation of
//! `fidget-bytecode` only: little-endian u32 word pairs; byte 0 opcode (table
//! taken by *name* from the public `iter_ops()`), byte 1 output register,
//! bytes 2 / 3 input registers; an input byte of 0xFF means "the second word
//! is an immediate f32"; `Mem` with byte 2 == 0xFF reads memory[imm] into the
//! register of byte 1, with byte 1 == 0xFF writes the register of byte 2 to
//! memory[imm]; first two words FFFFFFFF 00000000, last two FFFFFFFF FFFFFFFF.
use crate::alpha;
use crate::c01::BUDGETS;
use crate::prog::{self, DagSpec, OpSel, Order, POp, Prog};
use crate::refsem::{self, Flat, bin32, same32, un32, zero_sign_tie};
use crate::runner::{Check, CrashPolicy, Cx, Meta, Tier, guard, panic_site};
use crate::with_budget;
use fidget_bytecode::Bytecode;
use fidget_core::context::{BinaryOpcode as B, Context, Node, UnaryOpcode as U};
use fidget_core::eval::{Function, TracingEvaluator};
use fidget_core::vm::{GenericVmFunction, VmData};
use serde_json::json;
use std::collections::HashMap;

pub struct C15;

#[derive(Debug)]
pub struct BcError(pub String);

enum Sem {
    Output,
    Input,
    Copy,
    Un(U),
    Bin(B),
    Mem,
}

fn opcode_table() -> HashMap<u8, Sem> {
    let mut m = HashMap::new();
    for (name, v) in fidget_bytecode::iter_ops() {
        let s = match name {
            "Output" => Sem::Output,
            "Input" => Sem::Input,
            "Copy" => Sem::Copy,
            "Neg" => Sem::Un(U::Neg),
            "Abs" => Sem::Un(U::Abs),
            "Recip" => Sem::Un(U::Recip),
            "Sqrt" => Sem::Un(U::Sqrt),
            "Square" => Sem::Un(U::Square),
            "Floor" => Sem::Un(U::Floor),
            "Ceil" => Sem::Un(U::Ceil),
            "Round" => Sem::Un(U::Round),
            "Not" => Sem::Un(U::Not),
            "Rand" => Sem::Un(U::Rand),
            "Sin" => Sem::Un(U::Sin),
            "Cos" => Sem::Un(U::Cos),
            "Tan" => Sem::Un(U::Tan),
            "Asin" => Sem::Un(U::Asin),
            "Acos" => Sem::Un(U::Acos),
            "Atan" => Sem::Un(U::Atan),
            "Exp" => Sem::Un(U::Exp),
            "Ln" => Sem::Un(U::Ln),
            "Add" => Sem::Bin(B::Add),
            "Sub" => Sem::Bin(B::Sub),
            "Mul" => Sem::Bin(B::Mul),
            "Div" => Sem::Bin(B::Div),
            "Atan2" => Sem::Bin(B::Atan),
            "Compare" => Sem::Bin(B::Compare),
            "Mix" => Sem::Bin(B::Mix),
            "Mod" => Sem::Bin(B::Mod),
            "Min" => Sem::Bin(B::Min),
            "Max" => Sem::Bin(B::Max),
            "And" => Sem::Bin(B::And),
            "Or" => Sem::Bin(B::Or),
            "Mem" => Sem::Mem,
            other => panic!("bytecode opcode {other} unknown to the documentation-only interpreter"),
        };
        m.insert(v, s);
    }
    m
}

/// Result of interpreting: outputs, plus whether an output depends on a
/// zero-sign tie of min/max (then it is not compared)
pub struct BcResult {
    pub out: Vec<(f32, bool)>,
}

pub fn bc_interp(
    words: &[u32],
    reg_count: usize,
    mem_count: usize,
    inputs: &[f32],
    n_outputs: usize,
) -> Result<BcResult, BcError> {
    let table = opcode_table();
    if words.len() < 4 || words.len() % 2 != 0 {
        return Err(BcError(format!("bad word count {}", words.len())));
    }
    if words[0] != 0xFFFF_FFFF || words[1] != 0 {
        return Err(BcError(format!("bad start marker {:08x} {:08x}", words[0], words[1])));
    }
    let e = words.len();
    if words[e - 2] != 0xFFFF_FFFF || words[e - 1] != 0xFFFF_FFFF {
        return Err(BcError(format!("bad end marker {:08x} {:08x}", words[e - 2], words[e - 1])));
    }
    let mut regs = vec![(f32::NAN, false); reg_count];
    let mut mem = vec![(f32::NAN, false); mem_count];
    let mut out = vec![(f32::NAN, false); n_outputs];
    let mut written = vec![false; n_outputs];
    let mut pc = 2;
    while pc < e - 2 {
        let [op, b1, b2, b3] = words[pc].to_le_bytes();
        let imm = words[pc + 1];
        let immf = f32::from_bits(imm);
        pc += 2;
        let rd = |regs: &Vec<(f32, bool)>, r: u8| -> Result<(f32, bool), BcError> {
            if r == 0xFF {
                return Err(BcError(format!("reserved register 0xFF read as a register at word {}", pc - 2)));
            }
            regs.get(r as usize)
                .copied()
                .ok_or_else(|| BcError(format!("register {r} >= reg_count {reg_count}")))
        };
        let wr = |regs: &mut Vec<(f32, bool)>, r: u8, v: (f32, bool)| -> Result<(), BcError> {
            if r == 0xFF {
                return Err(BcError(format!("reserved register 0xFF written at word {}", pc - 2)));
            }
            match regs.get_mut(r as usize) {
                Some(s) => {
                    *s = v;
                    Ok(())
                }
                None => Err(BcError(format!("register {r} >= reg_count {reg_count}"))),
            }
        };
        match table.get(&op) {
            None => return Err(BcError(format!("unknown opcode {op} at word {}", pc - 2))),
            Some(Sem::Output) => {
                let v = rd(&regs, b1)?;
                let i = imm as usize;
                if i >= n_outputs {
                    return Err(BcError(format!("output index {i} >= {n_outputs}")));
                }
                out[i] = v;
                written[i] = true;
            }
            Some(Sem::Input) => {
                let i = imm as usize;
                let v = *inputs
                    .get(i)
                    .ok_or_else(|| BcError(format!("input index {i} >= {}", inputs.len())))?;
                wr(&mut regs, b1, (v, false))?;
            }
            Some(Sem::Copy) => {
                let v = if b2 == 0xFF { (immf, false) } else { rd(&regs, b2)? };
                wr(&mut regs, b1, v)?;
            }
            Some(Sem::Un(u)) => {
                let a = rd(&regs, b2)?;
                wr(&mut regs, b1, (un32(*u, a.0), a.1))?;
            }
            Some(Sem::Bin(b)) => {
                if b2 == 0xFF && b3 == 0xFF {
                    return Err(BcError("binary op with two immediates".into()));
                }
                let l = if b2 == 0xFF { (immf, false) } else { rd(&regs, b2)? };
                let r = if b3 == 0xFF { (immf, false) } else { rd(&regs, b3)? };
                let amb = l.1 || r.1 || zero_sign_tie(*b, l.0, r.0);
                wr(&mut regs, b1, (bin32(*b, l.0, r.0), amb))?;
            }
            Some(Sem::Mem) => {
                let slot = imm as usize;
                if slot >= mem_count {
                    return Err(BcError(format!("memory slot {slot} >= mem_count {mem_count}")));
                }
                if b2 == 0xFF && b1 != 0xFF {
                    let v = mem[slot];
                    wr(&mut regs, b1, v)?;
                } else if b1 == 0xFF && b2 != 0xFF {
                    mem[slot] = rd(&regs, b2)?;
                } else {
                    return Err(BcError(format!("Mem op with direction bytes {b1:#x} {b2:#x}")));
                }
            }
        }
    }
    if let Some(i) = written.iter().position(|w| !w) {
        return Err(BcError(format!("output {i} never written")));
    }
    Ok(BcResult { out })
}

fn run_budget<const N: usize>(
    ctx: &Context,
    roots: &[Node],
    flat: &Flat,
    points: &[Vec<f32>],
    desc: &dyn Fn() -> serde_json::Value,
    cx: &mut Cx,
) {
    let data = match guard(|| VmData::<N>::new(ctx, roots)) {
        Ok(Ok(d)) => d,
        _ => return, // tape construction is C01's claim
    };
    let f_fresh = GenericVmFunction::<N>::from(data);
    // simplified tapes contain ops that fresh tapes never do (CopyReg,
    // CopyImm): every distinct point trace of the function gives one more tape
    // to serialize and execute
    {
        use fidget_core::eval::Function;
        let f = &f_fresh;
        let tape = f.point_tape(Default::default());
        let mut seen: Vec<Vec<u8>> = vec![];
        for pt in points {
            let args = refsem::args_for(f.vars(), flat, pt);
            let mut ev = GenericVmFunction::<N>::new_point_eval();
            let Ok(Ok(Some(trace))) = guard(|| ev.eval(&tape, &args).map(|(_, t)| t.cloned())) else { continue };
            let key: Vec<u8> = trace.as_slice().iter().map(|c| *c as u8).collect();
            if seen.contains(&key) {
                continue;
            }
            seen.push(key);
            let Ok(Ok(child)) = guard(|| f.simplify(&trace, Default::default(), &mut Default::default())) else { continue };
            cx.add("simplified_tapes_serialized", 1);
            let d2 = || {
                let mut d = desc();
                d["simplified_with_point_trace_at"] = json!(pt);
                d
            };
            check_data::<N>(&child, flat, std::slice::from_ref(pt), roots.len(), &d2, cx);
        }
    }
    check_data::<N>(&f_fresh, flat, points, roots.len(), desc, cx);
}

fn check_data<const N: usize>(
    f: &GenericVmFunction<N>,
    flat: &Flat,
    points: &[Vec<f32>],
    n_roots: usize,
    desc: &dyn Fn() -> serde_json::Value,
    cx: &mut Cx,
) {
    let data = f.data();
    let n_ops = data.len();
    let bc = match guard(|| Bytecode::new(data)) {
        Ok(Ok(b)) => b,
        Ok(Err(e)) => {
            cx.violation(
                format!("Bytecode::new error N={N}"),
                desc(),
                format!("{e:?} for a tape with {} slots", data.slot_count()),
            );
            return;
        }
        Err(p) => {
            cx.violation(format!("Bytecode::new panic {}", panic_site(&p)), desc(), p);
            return;
        }
    };
    cx.add("bytecodes", 1);
    let words = bc.data();
    if words.len() != 2 * (n_ops + 2) || bc.len() != words.len() {
        cx.violation(
            "word count",
            desc(),
            format!("N={N}: {} words for {} tape ops (expected {})", words.len(), n_ops, 2 * (n_ops + 2)),
        );
    }
    if bc.as_bytes().len() != 4 * words.len() {
        cx.violation("byte view length", desc(), format!("N={N}"));
    }
    let has_mem = data.slot_count() > N;
    if has_mem {
        cx.add("bytecodes_with_memory_traffic", 1);
    }
    if (bc.mem_count() > 0) != has_mem && data.slot_count() > N {
        cx.add("mem_count_zero_although_slots", 1);
    }
    let tape = f.point_tape(Default::default());
    for pt in points {
        let args = refsem::args_for(f.vars(), flat, pt);
        let mut ev = GenericVmFunction::<N>::new_point_eval();
        let Ok(Ok(vm)) = guard(|| ev.eval(&tape, &args).map(|(o, _)| o.to_vec())) else {
            continue; // evaluator failures are C01's / C11's
        };
        cx.add("evals", 1);
        match bc_interp(
            words,
            bc.reg_count() as usize,
            bc.mem_count() as usize,
            &args,
            n_roots,
        ) {
            Err(e) => {
                cx.violation(
                    format!("format violation: {}", strip_numbers(&e.0)),
                    desc(),
                    format!("N={N} at {pt:?}: {}", e.0),
                );
                return;
            }
            Ok(r) => {
                for (i, ((g, amb), v)) in r.out.iter().zip(&vm).enumerate() {
                    if *amb {
                        cx.add("outputs_skipped_zero_sign_tie", 1);
                        continue;
                    }
                    cx.add("outputs_compared", 1);
                    if !same32(*g, *v) {
                        cx.violation(
                            format!("bytecode output differs from interpreter budget={}", if N == 255 { "255" } else { "small" }),
                            desc(),
                            format!("N={N} at {pt:?}: output {i}: bytecode interpreter {g:?}, VM {v:?}"),
                        );
                    }
                }
            }
        }
    }
}

fn strip_numbers(s: &str) -> String {
    s.split_whitespace()
        .filter(|w| !w.chars().any(|c| c.is_ascii_digit()))
        .collect::<Vec<_>>()
        .join(" ")
}

const BC_BUDGETS: [usize; 5] = [3, 4, 5, 8, 255];

fn check_program(cx: &mut Cx, sub: &mut u64, p: &Prog, points: &[Vec<f32>], budgets: &[usize]) {
    let mut ctx = Context::new();
    let roots = p.build(&mut ctx);
    let flat = Flat::from_ctx(&ctx, &roots);
    let h = flat.hash();
    let nontrivial = flat
        .ops
        .iter()
        .any(|o| matches!(o, refsem::FOp::Un(..) | refsem::FOp::Bin(..)));
    cx.add("programs", 1);
    for &n in budgets {
        let s = *sub;
        *sub += 1;
        if !cx.case(s) {
            continue;
        }
        cx.add("cases", 1);
        if nontrivial {
            cx.add("nontrivial", 1);
        }
        {
            use std::hash::{Hash, Hasher};
            let mut hh = std::collections::hash_map::DefaultHasher::new();
            (h, n).hash(&mut hh);
            cx.distinct(hh.finish(), nontrivial);
        }
        let desc = || json!({"program": p.describe(), "context_graph": flat.describe(), "budget": n});
        with_budget!(n, run_budget, (&ctx, &roots, &flat, points, &desc, cx));
    }
    cx.sample(|| json!({"program": p.describe(), "budgets": budgets, "points": format!("{points:?}")}));
}

#[derive(Clone)]
enum Unit {
    Unary(U),
    Binary(B),
    Dag { n: usize, prefix: Vec<POp> },
    Fan { w: usize },
    Tree { w: usize },
    /// many simultaneously live values (memory slot numbers beyond one byte)
    Huge { half: usize },
    /// one node bound to two outputs with m others between
    FarRepeat { m: usize },
}

fn dag_spec() -> DagSpec {
    DagSpec {
        leaves: vec![POp::Var(0), POp::Var(1), POp::Const(2.5)],
        ops: vec![
            OpSel::Un(U::Neg),
            OpSel::Bin(B::Sub),
            OpSel::Bin(B::Min),
            OpSel::Bin(B::Add),
        ],
    }
}

fn units(tier: Tier) -> Vec<Unit> {
    let mut v = vec![];
    for u in refsem::UNARY {
        v.push(Unit::Unary(u));
    }
    for b in refsem::BINARY {
        v.push(Unit::Binary(b));
    }
    let nmax = match tier {
        Tier::Quick => 3,
        Tier::Thorough => 4,
    };
    let spec = dag_spec();
    for n in 1..=nmax {
        for p in spec.prefixes(n) {
            v.push(Unit::Dag { n, prefix: p });
        }
    }
    let wmax = match tier {
        Tier::Quick => 12,
        Tier::Thorough => 24,
    };
    for w in 1..=wmax {
        v.push(Unit::Fan { w });
        v.push(Unit::Tree { w });
    }
    for half in [300usize, 1400] {
        v.push(Unit::Huge { half });
    }
    for m in 1..=16 {
        v.push(Unit::FarRepeat { m });
    }
    v
}

fn generic_points(nvars: usize) -> Vec<Vec<f32>> {
    let base = [[0.75f32, -1.25, 2.0], [-3.5, 0.375, -0.5], [0.0, -0.0, f32::INFINITY]];
    base.iter()
        .map(|b| (0..nvars).map(|i| if i < 3 { b[i] } else { b[i % 3] * (i as f32 + 0.5) }).collect())
        .collect()
}

impl Check for C15 {
    fn id(&self) -> &'static str {
        "C15"
    }
    fn units(&self, tier: Tier) -> usize {
        units(tier).len()
    }
    fn meta(&self, tier: Tier) -> Meta {
        Meta {
            rule: "case = (program, register budget N in {3,4,5,8,255} (+all C01 budgets for families)); programs as in C01: every opcode x operand form x value alphabet, every DAG up to the node bound, fan/tree families, two huge programs (300 / 1400 simultaneously live values: memory slot numbers beyond one byte) and output lists with a repeated node; Bytecode::new(tape) is executed by a documentation-only interpreter (opcode numbers by name from iter_ops(), 0xFF = immediate, Mem direction by which byte is 0xFF) and compared bit-for-bit (NaN = NaN) with the VM point evaluator; the same for the tape simplified with every distinct point trace (simplified tapes contain CopyReg / CopyImm); markers, word count, register and memory bounds and the reserved register are checked on every bytecode".into(),
            bounds: match tier {
                Tier::Quick => "DAG nodes <= 3, family width <= 12".into(),
                Tier::Thorough => "DAG nodes <= 4, family width <= 24".into(),
            },
            assumptions: vec![
                "the independent interpreter uses ref32 op semantics; outputs depending on a min/max zero-sign tie are not compared".into(),
                "the WGSL consumer of the same format (fidget-wgpu) is not executed".into(),
            ],
            crash_policy: CrashPolicy::Violation,
            vacuity: vec![("bytecodes_with_memory_traffic", 50), ("outputs_compared", 1000)],
            transitions_counter: "evals",
            nontrivial_counter: "nontrivial",
            exhaustive: true,
        }
    }
    fn run_unit(&self, tier: Tier, unit: usize, cx: &mut Cx) {
        let u = units(tier)[unit].clone();
        let mut sub = 0u64;
        match u {
            Unit::Unary(op) => {
                let vals = alpha::unary_values(op, true);
                let mut p = Prog::default();
                let x = p.push(POp::Var(0));
                let r = p.push(POp::Un(op, x));
                p.roots = vec![r];
                let pts: Vec<Vec<f32>> = vals.iter().map(|v| vec![*v]).collect();
                check_program(cx, &mut sub, &p, &pts, &[3, 255]);
            }
            Unit::Binary(op) => {
                let vals = alpha::binary_values(op, true);
                let pairs: Vec<Vec<f32>> =
                    vals.iter().flat_map(|a| vals.iter().map(move |b| vec![*a, *b])).collect();
                let mut p = Prog::default();
                let x = p.push(POp::Var(0));
                let y = p.push(POp::Var(1));
                let r = p.push(POp::Bin(op, x, y));
                p.roots = vec![r];
                check_program(cx, &mut sub, &p, &pairs, &[3, 255]);
                let singles: Vec<Vec<f32>> = vals.iter().map(|v| vec![*v]).collect();
                for c in &vals {
                    for form in 0..2 {
                        let mut p = Prog::default();
                        let x = p.push(POp::Var(0));
                        let k = p.push(POp::Const(*c));
                        let r = if form == 0 {
                            p.push(POp::Bin(op, x, k))
                        } else {
                            p.push(POp::Bin(op, k, x))
                        };
                        p.roots = vec![r, k];
                        check_program(cx, &mut sub, &p, &singles, &[3, 255]);
                    }
                }
            }
            Unit::Dag { n, prefix } => {
                let spec = dag_spec();
                let pts = generic_points(2);
                spec.for_each(n, &prefix, true, &mut |p, _| {
                    check_program(cx, &mut sub, p, &pts, &BC_BUDGETS);
                });
            }
            Unit::Fan { w } => {
                for mid in [None, Some(U::Sin)] {
                    for order in [Order::Forward, Order::Reverse, Order::Interleaved] {
                        for comb in [B::Add, B::Sub, B::Min] {
                            let p = prog::family_fan(w, mid, order, comb);
                            let pts = generic_points(2);
                            check_program(cx, &mut sub, &p, &pts, &BUDGETS);
                            let mut q = p.clone();
                            q.roots = (0..q.nodes.len())
                                .filter(|i| !matches!(q.nodes[*i], POp::Const(_)))
                                .collect();
                            check_program(cx, &mut sub, &q, &pts, &BC_BUDGETS);
                        }
                    }
                }
            }
            Unit::Huge { half } => {
                let p = prog::huge_prog(half, false);
                let pts = generic_points(1);
                check_program(cx, &mut sub, &p, &pts, &[3, 12, 255]);
            }
            Unit::FarRepeat { m } => {
                for variant in 0..2 {
                    let p = crate::c01::far_repeat_prog(m, variant);
                    let pts = generic_points(2);
                    check_program(cx, &mut sub, &p, &pts, &BUDGETS);
                }
            }
            Unit::Tree { w } => {
                for comb in [B::Add, B::Sub, B::Max] {
                    let p = prog::family_tree(w, comb);
                    let pts = generic_points(w);
                    check_program(cx, &mut sub, &p, &pts, &BUDGETS);
                }
            }
        }
    }
}
