//! C19 — the constraint solver honours fixed parameters and solves solvable
//! systems.  DESIGN.md §4 C19.
use crate::prog::var_by_index;
use crate::runner::{Check, CrashPolicy, Cx, Meta, Tier, guard, panic_site};
use fidget_core::context::{Context, Tree};
use fidget_core::eval::{Function, MathFunction};
use fidget_core::var::Var;
use fidget_core::vm::VmFunction;
use fidget_jit::JitFunction;
use fidget_solver::{Parameter, solve};
use serde_json::json;
use std::collections::HashMap;

pub struct C19;

#[derive(Copy, Clone, Debug, PartialEq)]
enum Family {
    Diagonal,
    Bidiagonal,
    Dense,
    /// fewer equations than unknowns: pairs (x_{2i} + x_{2i+1} = c)
    Pairs,
    Tridiagonal,
}

const FAMILIES: [Family; 5] = [Family::Diagonal, Family::Bidiagonal, Family::Dense, Family::Pairs, Family::Tridiagonal];

/// Row i of A as (column, coefficient) pairs
fn matrix(fam: Family, n: usize) -> Vec<Vec<(usize, f64)>> {
    match fam {
        Family::Diagonal => (0..n).map(|i| vec![(i, 1.0 + (i % 3) as f64)]).collect(),
        Family::Bidiagonal => (0..n)
            .map(|i| {
                let mut r = vec![(i, 2.0)];
                if i + 1 < n {
                    r.push((i + 1, if i % 2 == 0 { 1.0 } else { -1.0 }));
                }
                r
            })
            .collect(),
        Family::Tridiagonal => (0..n)
            .map(|i| {
                let mut r = vec![];
                if i > 0 {
                    r.push((i - 1, -1.0));
                }
                r.push((i, 4.0));
                if i + 1 < n {
                    r.push((i + 1, 1.0));
                }
                r
            })
            .collect(),
        // n*I + ones: eigenvalues n (n-1 times) and 2n: condition number 2
        Family::Dense => (0..n)
            .map(|i| (0..n).map(|j| (j, if i == j { n as f64 + 1.0 } else { 1.0 })).collect())
            .collect(),
        Family::Pairs => (0..n.div_ceil(2))
            .map(|i| {
                let mut r = vec![(2 * i, 1.0)];
                if 2 * i + 1 < n {
                    r.push((2 * i + 1, 1.0));
                }
                r
            })
            .collect(),
    }
}

fn xstar(n: usize) -> Vec<f64> {
    (0..n).map(|j| (j as f64) - 2.0 + if j % 4 == 3 { 0.5 } else { 0.0 }).collect()
}

#[derive(Clone, Debug)]
struct Sys {
    fam: Family,
    n: usize,
    fixed: Vec<bool>,
    /// start the free parameters at the solution (already satisfied)?
    start_at_solution: bool,
    /// number of additional parameters that no equation mentions (alternately
    /// free and fixed): the free ones must come back unchanged
    unused: usize,
}

fn unused_var(k: usize) -> Var {
    var_by_index(500 + k)
}

fn var(j: usize) -> Var {
    // X, Y, Z take part too for the first three unknowns of odd-sized systems
    if j < 3 { var_by_index(j) } else { var_by_index(j + 3) }
}

fn build<F: Function + MathFunction>(s: &Sys) -> (Vec<F>, Vec<Vec<(usize, f64)>>, Vec<f64>) {
    let a = matrix(s.fam, s.n);
    let xs = xstar(s.n);
    let mut eqs = vec![];
    let mut rhs = vec![];
    for row in &a {
        let b: f64 = row.iter().map(|(j, c)| c * xs[*j]).sum();
        let mut t: Option<Tree> = None;
        for (j, c) in row {
            let term = Tree::from(var(*j)) * (*c as f32);
            t = Some(match t {
                None => term,
                Some(t) => t + term,
            });
        }
        let t = t.unwrap() - (b as f32);
        let mut ctx = Context::new();
        let root = ctx.import(&t);
        eqs.push(F::new(&ctx, &[root]).unwrap());
        rhs.push(b);
    }
    (eqs, a, rhs)
}

fn params(s: &Sys) -> HashMap<Var, Parameter> {
    let xs = xstar(s.n);
    let extra = (0..s.unused).map(|k| {
        let v = 0.75 + k as f32;
        (unused_var(k), if k % 2 == 0 { Parameter::Free(v) } else { Parameter::Fixed(v) })
    });
    (0..s.n)
        .map(|j| {
            (
                var(j),
                if s.fixed[j] {
                    Parameter::Fixed(xs[j] as f32)
                } else if s.start_at_solution {
                    Parameter::Free(xs[j] as f32)
                } else {
                    Parameter::Free(if j % 2 == 0 { 0.0 } else { xs[j] as f32 + 1.5 })
                },
            )
        })
        .chain(extra)
        .collect()
}

fn run_backend<F: Function + MathFunction>(
    cx: &mut Cx,
    s: &Sys,
    name: &str,
    desc: &dyn Fn() -> serde_json::Value,
) -> Option<HashMap<Var, f32>> {
    let (eqs, a, rhs) = build::<F>(s);
    let ps = params(s);
    cx.add("evals", 1);
    let sol = match guard(|| solve(&eqs, &ps)) {
        Ok(Ok(sol)) => sol,
        Ok(Err(e)) => {
            cx.violation(
                format!("{name} solver returned an error for a consistent well-conditioned system"),
                desc(),
                format!("{e}"),
            );
            return None;
        }
        Err(p) => {
            let nfree = s.fixed.iter().filter(|f| !**f).count();
            cx.violation(
                format!("{name} solver panicked {} free={}", panic_site(&p), if nfree == 0 { "none" } else { "some" }),
                desc(),
                p,
            );
            return None;
        }
    };
    let xs = xstar(s.n);
    // keys: exactly the free parameters
    for j in 0..s.n {
        let has = sol.contains_key(&var(j));
        if has == s.fixed[j] {
            cx.violation(
                format!("{name} result keys are not exactly the free parameters"),
                desc(),
                format!(
                    "parameter {j} is {} but {} in the result",
                    if s.fixed[j] { "fixed" } else { "free" },
                    if has { "present" } else { "absent" }
                ),
            );
            return None;
        }
    }
    // parameters that no equation mentions: the free ones are part of the result,
    // at their starting value; the fixed ones are not
    for k in 0..s.unused {
        let v = 0.75 + k as f32;
        match (k % 2 == 0, sol.get(&unused_var(k))) {
            (true, None) => {
                cx.violation(format!("{name} a free parameter that no equation mentions is missing from the result"), desc(), format!("unused parameter {k}"));
                return None;
            }
            // the property only pins values for an already satisfied start (then nothing may move)
            (true, Some(x)) if s.start_at_solution && x.to_bits() != v.to_bits() => {
                cx.violation(format!("{name} a free parameter that no equation mentions was changed"), desc(), format!("unused parameter {k}: start {v} returned {x}"));
                return None;
            }
            (false, Some(_)) => {
                cx.violation(format!("{name} result keys are not exactly the free parameters"), desc(), format!("unused fixed parameter {k} is present in the result"));
                return None;
            }
            _ => (),
        }
    }
    if sol.len() != s.fixed.iter().filter(|f| !**f).count() + s.unused.div_ceil(2) {
        cx.violation(format!("{name} result has extra keys"), desc(), format!("{} keys", sol.len()));
        return None;
    }
    let val = |j: usize| -> f64 {
        if s.fixed[j] { xs[j] as f32 as f64 } else { sol[&var(j)] as f64 }
    };
    if s.start_at_solution {
        for j in 0..s.n {
            if !s.fixed[j] && sol[&var(j)].to_bits() != (xs[j] as f32).to_bits() {
                cx.violation(
                    format!("{name} moved away from an exactly satisfied starting point"),
                    desc(),
                    format!("parameter {j}: start {} returned {}", xs[j], sol[&var(j)]),
                );
                return None;
            }
        }
    }
    // residual with fixed parameters at their given values
    let mut worst = 0.0f64;
    let mut scale = 1.0f64;
    for (row, b) in a.iter().zip(&rhs) {
        let r: f64 = row.iter().map(|(j, c)| c * val(*j)).sum::<f64>() - b;
        worst = worst.max(r.abs());
        scale = scale.max(b.abs());
    }
    cx.add("solutions_checked", 1);
    if !(worst <= 1e-3 * scale) {
        cx.violation(
            format!("{name} residual too large for a consistent well-conditioned linear system"),
            desc(),
            format!("max |A x - b| = {worst:e} (scale {scale})"),
        );
        return None;
    }
    Some(sol)
}

#[derive(Clone, Debug)]
enum Unit {
    Small { n: usize, fam: Family },
    Large { n: usize, fam: Family },
}

fn units(tier: Tier) -> Vec<Unit> {
    let mut v = vec![];
    for n in 1..=6 {
        for fam in FAMILIES {
            v.push(Unit::Small { n, fam });
        }
    }
    let ns: Vec<usize> = match tier {
        Tier::Quick => vec![7, 8, 9, 10, 13, 16, 25, 40],
        Tier::Thorough => (7..=40).collect(),
    };
    for n in ns {
        for fam in FAMILIES {
            v.push(Unit::Large { n, fam });
        }
    }
    v
}

fn check_system(cx: &mut Cx, sub: &mut u64, s: &Sys) {
    let c = *sub;
    *sub += 1;
    if !cx.case(c) {
        return;
    }
    cx.add("cases", 1);
    let nfree = s.fixed.iter().filter(|f| !**f).count();
    if nfree > 0 && nfree < s.n {
        cx.add("nontrivial", 1);
    }
    let desc = || {
        json!({"family": format!("{:?}", s.fam), "unknowns": s.n,
               "fixed": s.fixed.iter().enumerate().filter(|(_, f)| **f).map(|(i, _)| i).collect::<Vec<_>>(),
               "start_at_solution": s.start_at_solution})
    };
    // The solver iterates over std HashMaps, whose order differs from map to
    // map; every system is solved three times (fresh maps each time) so that
    // an order-dependent defect has several chances to show
    let mut vm = None;
    let mut jit = None;
    for _rep in 0..3 {
        vm = run_backend::<VmFunction>(cx, s, "vm", &desc);
        jit = run_backend::<JitFunction>(cx, s, "jit", &desc);
        if vm.is_none() || jit.is_none() {
            break;
        }
    }
    if let (Some(a), Some(b)) = (vm, jit) {
        // for square full-rank systems the solution is unique: compare backends
        let rows = matrix(s.fam, s.n).len();
        if rows >= nfree && s.fam != Family::Pairs {
            for (v, x) in &a {
                let y = b[v];
                if (x - y).abs() > 1e-3 * 1f32.max(x.abs()) {
                    cx.violation(
                        "vm and jit solutions differ",
                        desc(),
                        format!("{v}: vm {x} jit {y}"),
                    );
                    break;
                }
            }
        }
    }
    cx.sample(desc);
}

impl Check for C19 {
    fn id(&self) -> &'static str {
        "C19"
    }
    fn units(&self, tier: Tier) -> usize {
        units(tier).len()
    }
    fn meta(&self, tier: Tier) -> Meta {
        Meta {
            rule: "case = (matrix family, number of unknowns n, set of fixed parameters, start); families {diagonal, bidiagonal, tridiagonal, dense n*I+ones (condition number 2), pairs (under-determined)}, small integer coefficients, known solution x*; for n <= 6 EVERY subset of parameters is fixed (2^n subsets, including all and none), for larger n the fixed sets {none, all, all-but-one (each position for n <= 12), every k-th for k=2,3,4, first m for every m}; starts: away from the solution and exactly at it; fixed parameters sit at their solution values so the system stays consistent; each system also with 1-3 additional parameters that no equation mentions (alternately free and fixed): the free ones must be in the result (bit-identical to their start when the system starts satisfied); VM and JIT; oracle: result keys = exactly the free parameters, exact start returned bit-for-bit, max residual <= 1e-3*scale computed with fixed parameters at their given values, VM vs JIT within 1e-3, no panic; non-trivial = some but not all parameters fixed".into(),
            bounds: match tier {
                Tier::Quick => "n in 1..=6 exhaustive over subsets; n in {7,8,9,10,13,16,25,40}".into(),
                Tier::Thorough => "n in 1..=6 exhaustive over subsets; every n in 7..=40".into(),
            },
            assumptions: vec!["HashMap iteration order inside the solver is not controlled (std RandomState, different for every map): the oracle is order-independent, every system is solved 3 times, and a replay re-runs the case up to 30 times".into()],
            crash_policy: CrashPolicy::Violation,
            vacuity: vec![("solutions_checked", 500)],
            transitions_counter: "evals",
            nontrivial_counter: "nontrivial",
            exhaustive: true,
        }
    }
    fn replay_attempts(&self) -> u32 {
        30
    }
    fn run_unit(&self, tier: Tier, unit: usize, cx: &mut Cx) {
        let mut sub = 0u64;
        match units(tier)[unit].clone() {
            Unit::Small { n, fam } => {
                for mask in 0..(1u32 << n) {
                    for start in [false, true] {
                        for unused in [0usize, 1, 3] {
                            let s = Sys {
                                fam,
                                n,
                                fixed: (0..n).map(|j| (mask >> j) & 1 == 1).collect(),
                                start_at_solution: start,
                                unused,
                            };
                            check_system(cx, &mut sub, &s);
                        }
                    }
                }
            }
            Unit::Large { n, fam } => {
                let mut sets: Vec<Vec<bool>> = vec![vec![false; n], vec![true; n]];
                let singles: Vec<usize> = if n <= 12 { (0..n).collect() } else { vec![0, n / 2, n - 1] };
                for k in singles {
                    sets.push((0..n).map(|j| j != k).collect());
                }
                for k in [2usize, 3, 4] {
                    sets.push((0..n).map(|j| j % k == 0).collect());
                    sets.push((0..n).map(|j| j % k != 0).collect());
                }
                for m in 1..n {
                    sets.push((0..n).map(|j| j < m).collect());
                }
                for fixed in sets {
                    for start in [false, true] {
                        for unused in [0usize, 2] {
                            let s = Sys { fam, n, fixed: fixed.clone(), start_at_solution: start, unused };
                            check_system(cx, &mut sub, &s);
                        }
                    }
                }
            }
        }
    }
}
