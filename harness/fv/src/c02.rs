//! C02 — native (JIT) evaluators agree with the interpreter on every tape.
//! DESIGN.md §4 C02.
use crate::alpha;
use crate::evalkit::{self, GuardedSlice};
use crate::prog::{self, DagSpec, OpSel, Order, POp, Prog};
use crate::refsem::{self, FOp, Flat};
use crate::runner::{Check, CrashPolicy, Cx, Meta, Tier, guard, panic_site};
use fidget_core::context::{BinaryOpcode as B, Context, UnaryOpcode as U};
use fidget_core::eval::{BulkEvaluator, Function};
use fidget_core::vm::VmFunction;
use fidget_jit::JitFunction;
use serde_json::json;

pub struct C02;

fn dag_spec() -> DagSpec {
    DagSpec {
        leaves: vec![POp::Var(0), POp::Var(1), POp::Const(2.5)],
        ops: vec![
            OpSel::Un(U::Neg),
            OpSel::Bin(B::Sub),
            OpSel::Bin(B::Min),
            OpSel::Bin(B::Add),
            OpSel::Un(U::Sin),
        ],
    }
}

#[derive(Clone)]
enum Unit {
    Unary(U),
    Binary(B),
    /// the op followed by further uses of its operands (register sharing patterns)
    ReuseBin(B),
    ReuseUn(U),
    Dag { n: usize, prefix: Vec<POp> },
    Fan { w: usize },
    Tree { w: usize },
    /// one node bound to two outputs with m others between (outputs as given,
    /// repeats kept)
    FarRepeat { m: usize },
    /// `half` simultaneously live values: JIT stack frames of several KiB
    Huge { half: usize },
}

fn units(tier: Tier) -> Vec<Unit> {
    let mut v = vec![];
    for u in refsem::UNARY {
        v.push(Unit::Unary(u));
    }
    for b in refsem::BINARY {
        v.push(Unit::Binary(b));
        v.push(Unit::ReuseBin(b));
    }
    for u in refsem::UNARY {
        v.push(Unit::ReuseUn(u));
    }
    let nmax = match tier {
        Tier::Quick => 3,
        Tier::Thorough => 4,
    };
    let spec = dag_spec();
    for n in 1..=nmax {
        for p in spec.prefixes(n) {
            v.push(Unit::Dag { n, prefix: p });
        }
    }
    let wmax = match tier {
        Tier::Quick => 16,
        Tier::Thorough => 24,
    };
    for w in 1..=wmax {
        v.push(Unit::Fan { w });
    }
    for w in [1, 2, 3, 5, 12, 13, 14, 25, 40] {
        v.push(Unit::Tree { w });
    }
    for m in 1..=16 {
        v.push(Unit::FarRepeat { m });
    }
    for half in [300usize, 1400] {
        v.push(Unit::Huge { half });
    }
    v
}

pub const MAX_LEN: usize = 35; // 4 * SIMD(8) + 3

/// Lane values: distinct per (lane, variable), drawn from `vals` cyclically
fn lanes(vals: &[f32], nvars: usize, n: usize) -> Vec<Vec<f32>> {
    (0..nvars)
        .map(|v| (0..n).map(|l| vals[(l * 7 + v * 3 + l / vals.len()) % vals.len()]).collect())
        .collect()
}

struct Compare<'a> {
    flat: &'a Flat,
    /// only the program's own outputs are exported: intermediate values are
    /// not observable, so min/max zero-sign ties are found with the reference
    /// evaluation of the graph at the sample instead
    raw: bool,
}

impl Compare<'_> {
    /// Per-node comparison with the min/max-of-two-zeros exception: returns
    /// the first offending output index, if any.  `jit` / `vm` are per-output
    /// values for one sample.
    fn sample(&self, cx: &mut Cx, jit: &[f32], vm: &[f32], inputs: &[f32]) -> Option<(usize, f32, f32)> {
        let flat = self.flat;
        if self.raw {
            let (mut vals, mut amb) = (vec![], vec![]);
            flat.eval_all(inputs, &mut vals, &mut amb);
            for (i, r) in flat.roots.iter().enumerate() {
                cx.add("node_samples_compared", 1);
                if refsem::same32(jit[i], vm[i]) {
                    continue;
                }
                if amb[*r] {
                    // downstream of a min/max of two zeros of different sign
                    cx.add("node_samples_excluded_after_zero_sign", 1);
                    continue;
                }
                return Some((i, jit[i], vm[i]));
            }
            return None;
        }
        // value of every graph node according to the VM (constants from the graph)
        let mut val_vm = vec![f32::NAN; flat.ops.len()];
        let mut out_of = vec![usize::MAX; flat.ops.len()];
        for (i, r) in flat.roots.iter().enumerate() {
            out_of[*r] = i;
        }
        let mut taint = vec![false; flat.ops.len()];
        let mut known = vec![false; flat.ops.len()];
        for (j, op) in flat.ops.iter().enumerate() {
            match *op {
                FOp::Const(c) => {
                    val_vm[j] = c;
                    known[j] = true;
                }
                _ if out_of[j] != usize::MAX => {
                    val_vm[j] = vm[out_of[j]];
                    known[j] = true;
                }
                _ => (),
            }
            let (t_in, minmax_zero) = match *op {
                FOp::Un(_, a) => (taint[a], false),
                FOp::Bin(o, a, b) => (
                    taint[a] || taint[b],
                    matches!(o, B::Min | B::Max)
                        && known[a]
                        && known[b]
                        && val_vm[a] == 0.0
                        && val_vm[b] == 0.0,
                ),
                _ => (false, false),
            };
            if t_in {
                taint[j] = true;
                cx.add("node_samples_excluded_after_zero_sign", 1);
                continue;
            }
            if out_of[j] == usize::MAX {
                continue;
            }
            let (a, b) = (jit[out_of[j]], vm[out_of[j]]);
            cx.add("node_samples_compared", 1);
            if refsem::same32(a, b) {
                continue;
            }
            if minmax_zero && a == 0.0 && b == 0.0 {
                taint[j] = true;
                cx.add("minmax_zero_sign_differences", 1);
                continue;
            }
            return Some((out_of[j], a, b));
        }
        None
    }
}

fn check_program(
    cx: &mut Cx,
    sub: &mut u64,
    p: &Prog,
    point_vals: &[f32],
    all_pairs: bool,
    lens: &[usize],
) {
    check_program_roots(cx, sub, p, point_vals, all_pairs, lens, false)
}

/// `raw_roots`: export exactly the program's output list (repeated bindings
/// kept) instead of every non-constant node once
fn check_program_roots(
    cx: &mut Cx,
    sub: &mut u64,
    p: &Prog,
    point_vals: &[f32],
    all_pairs: bool,
    lens: &[usize],
    raw_roots: bool,
) {
    let s = *sub;
    *sub += 1;
    if !cx.case(s) {
        return;
    }
    cx.add("cases", 1);
    // export every non-constant node
    let mut ctx = Context::new();
    let all = p.build_all(&mut ctx);
    let mut roots = vec![];
    if raw_roots {
        roots = p.roots.iter().map(|r| all[*r]).collect();
    } else {
        for r in p.roots.iter().map(|r| all[*r]).chain(all.iter().cloned()) {
            if !roots.contains(&r) {
                roots.push(r);
            }
        }
    }
    let flat = Flat::from_ctx(&ctx, &roots);
    let nontrivial = flat.ops.iter().any(|o| matches!(o, FOp::Un(..) | FOp::Bin(..)));
    if nontrivial {
        cx.add("nontrivial", 1);
    }
    cx.distinct(flat.hash(), nontrivial);
    let desc = || json!({"program": p.describe(), "context_graph": flat.describe(), "all_nodes_exported": true});
    let jit = match evalkit::build::<JitFunction>(&ctx, &roots) {
        Ok(f) => f,
        Err(e) => {
            cx.violation(format!("jit build crash {}", panic_site(&e)), desc(), e);
            return;
        }
    };
    let Ok(vm) = evalkit::build::<VmFunction>(&ctx, &roots) else {
        return;
    };
    let nv = flat.vars.len();
    let cmp = Compare { flat: &flat, raw: raw_roots };
    if {
        let ops = evalkit::Backend::reg_ops(&jit);
        ops.iter().any(|o| matches!(o, fidget_core::compiler::RegOp::Load(..) | fidget_core::compiler::RegOp::Store(..)))
    } {
        cx.add("jit_tapes_with_stack_spills", 1);
    }

    // single-point evaluator over the value grid
    let pts: Vec<Vec<f32>> = if nv == 0 {
        vec![vec![]]
    } else if all_pairs && nv <= 2 {
        if nv == 1 {
            point_vals.iter().map(|a| vec![*a]).collect()
        } else {
            point_vals
                .iter()
                .flat_map(|a| point_vals.iter().map(move |b| vec![*a, *b]))
                .collect()
        }
    } else {
        (0..point_vals.len().max(6))
            .map(|k| (0..nv).map(|v| point_vals[(k * 5 + v * 3) % point_vals.len()]).collect())
            .collect()
    };
    let jt = match guard(|| jit.point_tape(Default::default())) {
        Ok(t) => t,
        Err(e) => {
            cx.violation(format!("jit point tape crash {}", panic_site(&e)), desc(), e);
            return;
        }
    };
    let vt = vm.point_tape(Default::default());
    let mut jev = JitFunction::new_point_eval();
    let mut vev = VmFunction::new_point_eval();
    use fidget_core::eval::TracingEvaluator;
    for pt in &pts {
        let ja = refsem::args_for(jit.vars(), &flat, pt);
        let va = refsem::args_for(vm.vars(), &flat, pt);
        cx.add("evals", 2);
        let jo = match guard(|| jev.eval(&jt, &ja).map(|(o, _)| o.to_vec())) {
            Ok(Ok(o)) => o,
            Ok(Err(e)) => {
                cx.violation("jit-point eval error", desc(), format!("{e:?}"));
                continue;
            }
            Err(e) => {
                cx.violation(format!("jit-point crash {}", panic_site(&e)), desc(), e);
                continue;
            }
        };
        let Ok(Ok(vo)) = guard(|| vev.eval(&vt, &va).map(|(o, _)| o.to_vec())) else {
            continue;
        };
        if jo.len() != vo.len() {
            cx.violation("jit-point output count", desc(), format!("{} vs {}", jo.len(), vo.len()));
            continue;
        }
        if let Some((i, a, b)) = cmp.sample(cx, &jo, &vo, pt) {
            cx.violation(
                format!("jit-point value differs from interpreter op={}", node_kind(&flat, i)),
                desc(),
                format!("at {pt:?}: output {i} jit {a:?} ({:#x}) vm {b:?} ({:#x})", a.to_bits(), b.to_bits()),
            );
            break;
        }
    }

    // many-point evaluator: every slice length, guard pages on both sides
    if nv == 0 {
        return;
    }
    let jft = match guard(|| jit.float_slice_tape(Default::default())) {
        Ok(t) => t,
        Err(e) => {
            cx.violation(format!("jit float-slice tape crash {}", panic_site(&e)), desc(), e);
            return;
        }
    };
    let vft = vm.float_slice_tape(Default::default());
    let mut jfe = JitFunction::new_float_slice_eval();
    let mut vfe = VmFunction::new_float_slice_eval();
    let mut lens: Vec<usize> = lens.to_vec();
    if all_pairs {
        lens.push(pts.len());
    }
    for &n in &lens {
        // lane data
        let cols_flat: Vec<Vec<f32>> = if all_pairs && n == pts.len() {
            (0..nv).map(|v| pts.iter().map(|p| p[v]).collect()).collect()
        } else {
            lanes(point_vals, nv, n)
        };
        // order columns per the function's VarMap
        let order = |vars: &fidget_core::var::VarMap| -> Vec<Vec<f32>> {
            let mut out = vec![vec![0.0f32; n]; vars.len()];
            for (v, i) in vars.iter() {
                if let Some(p) = flat.vars.iter().position(|u| *u == v) {
                    out[i] = cols_flat[p].clone();
                }
            }
            out
        };
        let jcols = order(jit.vars());
        let vcols = order(vm.vars());
        let Ok(Ok(vo)) = guard(|| {
            vfe.eval(&vft, &vcols)
                .map(|o| (0..o.len()).map(|i| o[i].to_vec()).collect::<Vec<Vec<f32>>>())
        }) else {
            continue;
        };
        for at_end in [true, false] {
            let g: Vec<GuardedSlice> = jcols.iter().map(|c| GuardedSlice::new(c, at_end)).collect();
            cx.add("evals", 1);
            cx.add("slice_evals", 1);
            let jo = match guard(|| {
                jfe.eval(&jft, &g)
                    .map(|o| (0..o.len()).map(|i| o[i].to_vec()).collect::<Vec<Vec<f32>>>())
            }) {
                Ok(Ok(o)) => o,
                Ok(Err(e)) => {
                    cx.violation("jit-float-slice eval error", desc(), format!("n={n}: {e:?}"));
                    continue;
                }
                Err(e) => {
                    cx.violation(format!("jit-float-slice crash {}", panic_site(&e)), desc(), format!("n={n}: {e}"));
                    continue;
                }
            };
            if jo.len() != roots.len() || jo.iter().any(|o| o.len() != n) {
                cx.violation(
                    "jit-float-slice result shape",
                    desc(),
                    format!(
                        "n={n}: {} outputs of lengths {:?}; wanted {} x {n}",
                        jo.len(),
                        jo.iter().map(|o| o.len()).collect::<Vec<_>>(),
                        roots.len()
                    ),
                );
                continue;
            }
            let mut bad = false;
            for l in 0..n {
                let js: Vec<f32> = jo.iter().map(|o| o[l]).collect();
                let vs: Vec<f32> = vo.iter().map(|o| o[l]).collect();
                let ins: Vec<f32> = cols_flat.iter().map(|c| c[l]).collect();
                if let Some((i, a, b)) = cmp.sample(cx, &js, &vs, &ins) {
                    cx.violation(
                        format!("jit-float-slice value differs from interpreter op={}", node_kind(&flat, i)),
                        desc(),
                        format!(
                            "slice length {n} lane {l} inputs {ins:?}: output {i} jit {a:?} ({:#x}) vm {b:?} ({:#x})",
                            a.to_bits(),
                            b.to_bits()
                        ),
                    );
                    bad = true;
                    break;
                }
            }
            if bad {
                break;
            }
        }
    }
    cx.sample(|| json!({"program": p.describe(), "points": pts.len(), "slice_lengths": lens}));
}

fn node_kind(flat: &Flat, out_idx: usize) -> String {
    match flat.ops[flat.roots[out_idx]] {
        FOp::Un(u, _) => format!("{u:?}"),
        FOp::Bin(b, ..) => format!("{b:?}"),
        FOp::Input(_) => "Input".into(),
        FOp::Const(_) => "Const".into(),
    }
}

fn all_lens() -> Vec<usize> {
    (0..=MAX_LEN).collect()
}

impl Check for C02 {
    fn id(&self) -> &'static str {
        "C02"
    }
    fn units(&self, tier: Tier) -> usize {
        units(tier).len()
    }
    fn meta(&self, tier: Tier) -> Meta {
        Meta {
            rule: "case = program with every non-constant node exported; programs: every opcode x operand form {reg/reg, same-reg, reg/imm, imm/reg} x (value alphabet V + op-specific boundary values)^2; for EVERY opcode 11 (binary) / 3 (unary) programs in which the op's operands are used again afterwards in every pattern (b(x,y)+x, b(x,y)+y, x-b(x,y), b(b(x,y),x), b(x,b(x,y)), ...: the patterns decide whether the output shares a register with the left operand, the right operand or neither) over the op's value alphabet squared; every DAG up to the node bound over leaves {X,Y,2.5}, ops {neg,sub,min,add,sin}; fan families of width w (libm / atan2 / mod call-outs between live registers, w > 12 forces stack spills) and trees with up to 40 variables and 79 outputs; output lists in which one node is bound to two outputs with m = 1..16 other outputs between; two huge programs with 300 and 1400 simultaneously live values (stack frames of several KiB); JIT point evaluator vs VM point evaluator at every point; JIT SIMD evaluator vs VM many-point evaluator for EVERY slice length 0..=35 with each input slice placed both right before and right after a PROT_NONE guard page; per-node comparison bit-identical, NaN = NaN, min/max of two zeros may differ in sign (dependants then excluded)".into(),
            bounds: match tier {
                Tier::Quick => "DAG nodes <= 3, fan width <= 16".into(),
                Tier::Thorough => "DAG nodes <= 4, fan width <= 24, every unary opcode as the fan call-out".into(),
            },
            assumptions: vec![
                "x86_64 JIT only (aarch64 assemblers cannot run here)".into(),
                "out-of-bounds accesses are detected by guard pages (granularity: any access beyond the slice on the guarded side)".into(),
            ],
            crash_policy: CrashPolicy::Violation,
            vacuity: vec![("jit_tapes_with_stack_spills", 5), ("node_samples_compared", 10000), ("slice_evals", 1000)],
            transitions_counter: "evals",
            nontrivial_counter: "nontrivial",
            exhaustive: true,
        }
    }
    fn run_unit(&self, tier: Tier, unit: usize, cx: &mut Cx) {
        let u = units(tier)[unit].clone();
        let mut sub = 0u64;
        let generic: Vec<f32> = vec![0.75, -1.25, 2.0, -3.5, 0.375, -0.5, 0.0, -0.0, f32::INFINITY, f32::NAN, 1e-40, 7.0, -1e20];
        match u {
            Unit::Unary(op) => {
                let vals = alpha::unary_values(op, true);
                let mut p = Prog::default();
                let x = p.push(POp::Var(0));
                let r = p.push(POp::Un(op, x));
                p.roots = vec![r];
                check_program(cx, &mut sub, &p, &vals, true, &all_lens());
            }
            Unit::Binary(op) => {
                let vals = alpha::binary_values(op, true);
                let mut p = Prog::default();
                let x = p.push(POp::Var(0));
                let y = p.push(POp::Var(1));
                let r = p.push(POp::Bin(op, x, y));
                p.roots = vec![r];
                check_program(cx, &mut sub, &p, &vals, true, &all_lens());
                let mut p = Prog::default();
                let x = p.push(POp::Var(0));
                let r = p.push(POp::Bin(op, x, x));
                p.roots = vec![r];
                check_program(cx, &mut sub, &p, &vals, true, &[0, 1, 7, 8, 9, 35]);
                for c in &vals {
                    for form in 0..2 {
                        let mut p = Prog::default();
                        let x = p.push(POp::Var(0));
                        let k = p.push(POp::Const(*c));
                        let r = if form == 0 {
                            p.push(POp::Bin(op, x, k))
                        } else {
                            p.push(POp::Bin(op, k, x))
                        };
                        p.roots = vec![r];
                        check_program(cx, &mut sub, &p, &vals, true, &[0, 3, 8, 13]);
                    }
                }
            }
            Unit::ReuseBin(op) => {
                // operands used again after the op, in every pattern: decides which
                // operand register the output may share
                let vals = alpha::binary_values(op, true);
                // both with the single root (the allocation a user gets) and with
                // every node exported (which keeps all values live)
                for p in prog::reuse_patterns(op) {
                    check_program_roots(cx, &mut sub, &p, &vals, true, &[0, 1, 7, 8, 9, 35], true);
                    check_program(cx, &mut sub, &p, &vals, true, &[0, 8, 9]);
                }
            }
            Unit::ReuseUn(op) => {
                let vals = alpha::unary_values(op, true);
                for p in prog::reuse_patterns_unary(op) {
                    check_program_roots(cx, &mut sub, &p, &vals, true, &[0, 1, 7, 8, 9, 35], true);
                    check_program(cx, &mut sub, &p, &vals, true, &[0, 8, 9]);
                }
            }
            Unit::Dag { n, prefix } => {
                let spec = dag_spec();
                spec.for_each(n, &prefix, true, &mut |p, _| {
                    check_program(cx, &mut sub, p, &generic, false, &[0, 1, 5, 8, 11, 16, 35]);
                });
            }
            Unit::Fan { w } => {
                let lens: Vec<usize> = if tier == Tier::Thorough { all_lens() } else { vec![0, 1, 7, 8, 9, 17, 35] };
                let mut mids: Vec<Option<U>> = vec![None, Some(U::Sin), Some(U::Exp), Some(U::Floor)];
                if tier == Tier::Thorough {
                    mids = std::iter::once(None).chain(refsem::UNARY.iter().map(|u| Some(*u))).collect();
                }
                for mid in mids {
                    for order in [Order::Forward, Order::Reverse, Order::Interleaved] {
                        for comb in [B::Add, B::Atan, B::Mod, B::Min, B::Mix] {
                            let p = prog::family_fan(w, mid, order, comb);
                            check_program(cx, &mut sub, &p, &generic, false, &lens);
                        }
                    }
                }
            }
            Unit::Huge { half } => {
                let p = prog::huge_prog(half, false);
                check_program_roots(cx, &mut sub, &p, &generic, false, &[0, 1, 7, 8, 9, 35], true);
            }
            Unit::FarRepeat { m } => {
                for variant in 0..2 {
                    let p = crate::c01::far_repeat_prog(m, variant);
                    check_program_roots(cx, &mut sub, &p, &generic, false, &all_lens(), true);
                }
            }
            Unit::Tree { w } => {
                for comb in [B::Add, B::Max, B::Atan] {
                    let p = prog::family_tree(w, comb);
                    check_program(cx, &mut sub, &p, &generic, false, &all_lens());
                }
            }
        }
    }
}
