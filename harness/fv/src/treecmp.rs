//! An independent structural comparison of `Tree`s, written against the
//! public `TreeOp` enum only.  It never calls `Tree::eq`: C17's oracle ("the
//! script builds the same tree as the Rust calls") and C12's cross-check of
//! `Tree::eq` / `Hash` both need a notion of "the same tree" that does not
//! come from the code under test.
//!
//! Constants follow the semantics that `TreeOp`'s documentation states
//! ("equality uses OrderedFloat semantics"): NaN equals NaN, +0 equals -0.
use fidget_core::context::{Tree, TreeOp};
use std::collections::HashSet;

fn feq(a: f32, b: f32) -> bool {
    if a.is_nan() { b.is_nan() } else { a == b }
}

fn kids(t: &TreeOp) -> Vec<&TreeOp> {
    match t {
        TreeOp::Input(..) | TreeOp::Const(..) => vec![],
        TreeOp::Unary(_, a) => vec![&**a],
        TreeOp::Binary(_, a, b) => vec![&**a, &**b],
        TreeOp::RemapAxes { target, x, y, z } => vec![&**target, &**x, &**y, &**z],
        TreeOp::RemapAffine { target, .. } => vec![&**target],
    }
}

/// First structural difference between two trees (None = the same tree)
pub fn first_difference(a: &Tree, b: &Tree) -> Option<String> {
    let mut todo: Vec<(&TreeOp, &TreeOp)> = vec![(&**a, &**b)];
    // pairs already compared (shared sub-trees make a naive walk exponential)
    let mut seen: HashSet<(usize, usize)> = HashSet::new();
    while let Some((p, q)) = todo.pop() {
        if !seen.insert((p as *const TreeOp as usize, q as *const TreeOp as usize)) {
            continue;
        }
        match (p, q) {
            (TreeOp::Input(u), TreeOp::Input(v)) => {
                if u != v {
                    return Some(format!("input {u:?} vs {v:?}"));
                }
            }
            (TreeOp::Const(u), TreeOp::Const(v)) => {
                if !feq(*u, *v) {
                    return Some(format!("constant {u:?} vs {v:?}"));
                }
            }
            (TreeOp::Unary(u, _), TreeOp::Unary(v, _)) => {
                if u != v {
                    return Some(format!("unary {u:?} vs {v:?}"));
                }
            }
            (TreeOp::Binary(u, ..), TreeOp::Binary(v, ..)) => {
                if u != v {
                    return Some(format!("binary {u:?} vs {v:?}"));
                }
            }
            (TreeOp::RemapAxes { .. }, TreeOp::RemapAxes { .. }) => (),
            (TreeOp::RemapAffine { mat: m, .. }, TreeOp::RemapAffine { mat: n, .. }) => {
                for (u, v) in m.matrix().iter().zip(n.matrix().iter()) {
                    if !feq(*u, *v) {
                        return Some(format!("affine matrix entry {u:?} vs {v:?}"));
                    }
                }
            }
            _ => return Some(format!("node kind {} vs {}", kind(p), kind(q))),
        }
        let (kp, kq) = (kids(p), kids(q));
        debug_assert_eq!(kp.len(), kq.len());
        todo.extend(kp.into_iter().zip(kq));
    }
    None
}

pub fn struct_eq(a: &Tree, b: &Tree) -> bool {
    first_difference(a, b).is_none()
}

fn kind(t: &TreeOp) -> String {
    match t {
        TreeOp::Input(v) => format!("input {v:?}"),
        TreeOp::Const(c) => format!("const {c:?}"),
        TreeOp::Unary(op, _) => format!("unary {op:?}"),
        TreeOp::Binary(op, ..) => format!("binary {op:?}"),
        TreeOp::RemapAxes { .. } => "remap-axes".into(),
        TreeOp::RemapAffine { .. } => "remap-affine".into(),
    }
}
