//! C18 — view manipulation keeps the grabbed point under the cursor.
//! DESIGN.md §4 C18.  Explicit-state search (stateright) over the REAL
//! `Canvas2` / `Canvas3` methods: `next_state` calls them, the per-transition
//! obligations are evaluated inside it, and every obligation is an `always`
//! property "no state carries this failure".
use crate::runner::{Check, CrashPolicy, Cx, Meta, Tier, guard};
use fidget_core::render::{ImageSize, VoxelSize};
use fidget_gui::{Canvas2, Canvas3, CursorState, DragMode};
use nalgebra::{Matrix3, Matrix4, Point2, Point3, Vector3};
use serde_json::json;
use stateright::{Checker, Model, Property};
use std::hash::{Hash, Hasher};

pub struct C18;

const K_ZOOM: u8 = 1;
const K_PAN: u8 = 2;
const K_ROTATE: u8 = 3;
const K_CHANGED: u8 = 4;
const K_MATRIX: u8 = 5;
const K_PANIC: u8 = 6;

fn kind_name(k: u8) -> &'static str {
    match k {
        K_ZOOM => "zoom does not keep the model point under the cursor fixed",
        K_PAN => "pan does not keep the grabbed model point under the cursor",
        K_ROTATE => "rotate changed centre/scale or left the pitch/yaw range",
        K_CHANGED => "changed flag true although the view is bit-identical",
        K_MATRIX => "world_to_model differs from translate*rotate*scale of the components",
        _ => "panic in a canvas method",
    }
}

// two positions share their x (a purely vertical drag), one is far off-canvas
const POSITIONS: [(i32, i32); 5] = [(0, 0), (32, 25), (-300, 200), (32, 60), (3, 7)];
const SCROLLS: [f32; 4] = [0.0, 100.0, -100.0, 37.5];
const SIZES: [(u32, u32, u32); 3] = [(64, 64, 64), (100, 50, 30), (33, 77, 20)];

#[derive(Clone, Copy, Debug, PartialEq, Eq, Hash)]
enum Act {
    /// interact(current size, cursor, scroll); drag: 0 = none, 1 = pan (2D drag), 2 = rotate
    Interact { cursor: Option<(u8, u8)>, scroll: u8 },
    BeginDrag { pos: u8, mode: u8 },
    Drag { pos: u8 },
    EndDrag,
    Zoom { scroll: u8, pos: Option<u8> },
    Resize { size: u8 },
    /// interact(a size different from the current one, cursor with an active drag mode, no scroll):
    /// a resize and a drag event delivered in the same call
    InteractResized { size: u8, pos: u8, mode: u8 },
}

#[derive(Clone, Copy)]
struct Shadow {
    rotate: bool,
    grabbed: [f32; 3],
    key: [u32; 8],
}

#[derive(Clone)]
struct St<C: Copy> {
    canvas: C,
    size: u8,
    drag: Option<Shadow>,
    fail: Option<(u8, String)>,
    depth: u8,
}

trait Cv: Copy + Send + Sync + 'static {
    const DIM3: bool;
    fn new(size: u8) -> Self;
    fn view_bits(&self) -> Vec<u32>;
    fn model_under(&self, size: u8, pos: u8) -> [f32; 3];
    fn scale_abs(&self) -> f32;
    fn centre_abs(&self) -> f32;
    fn interact(&mut self, size: u8, cursor: Option<(u8, u8)>, scroll: f32) -> bool;
    fn begin_drag(&mut self, pos: u8, mode: u8);
    fn drag(&mut self, pos: u8) -> bool;
    fn end_drag(&mut self);
    fn zoom(&mut self, scroll: f32, pos: Option<u8>) -> bool;
    fn resize(&mut self, size: u8);
    /// max relative error between world_to_model() and T*R*S of components
    fn matrix_error(&self) -> f32;
    /// (centre+scale bits, yaw, pitch)
    fn rot_state(&self) -> (Vec<u32>, f32, f32);
}

fn p2(pos: u8) -> Point2<i32> {
    Point2::new(POSITIONS[pos as usize].0, POSITIONS[pos as usize].1)
}
fn isize2(size: u8) -> ImageSize {
    ImageSize::new(SIZES[size as usize].0, SIZES[size as usize].1)
}
fn vsize(size: u8) -> VoxelSize {
    VoxelSize::new(SIZES[size as usize].0, SIZES[size as usize].1, SIZES[size as usize].2)
}

impl Cv for Canvas2 {
    const DIM3: bool = false;
    fn new(size: u8) -> Self {
        Canvas2::new(isize2(size))
    }
    fn view_bits(&self) -> Vec<u32> {
        let (c, s) = self.view().components();
        vec![c.x.to_bits(), c.y.to_bits(), s.to_bits()]
    }
    fn model_under(&self, size: u8, pos: u8) -> [f32; 3] {
        let w = isize2(size).transform_point(p2(pos));
        let m = self.view().transform_point(&w);
        [m.x, m.y, 0.0]
    }
    fn scale_abs(&self) -> f32 {
        self.view().components().1.abs()
    }
    fn centre_abs(&self) -> f32 {
        self.view().components().0.norm()
    }
    fn interact(&mut self, size: u8, cursor: Option<(u8, u8)>, scroll: f32) -> bool {
        Canvas2::interact(
            self,
            isize2(size),
            cursor.map(|(p, d)| CursorState { screen_pos: p2(p), drag: d != 0 }),
            scroll,
        )
    }
    fn begin_drag(&mut self, pos: u8, _mode: u8) {
        Canvas2::begin_drag(self, p2(pos))
    }
    fn drag(&mut self, pos: u8) -> bool {
        Canvas2::drag(self, p2(pos))
    }
    fn end_drag(&mut self) {
        Canvas2::end_drag(self)
    }
    fn zoom(&mut self, scroll: f32, pos: Option<u8>) -> bool {
        Canvas2::zoom(self, scroll, pos.map(p2))
    }
    fn resize(&mut self, size: u8) {
        Canvas2::resize(self, isize2(size))
    }
    fn matrix_error(&self) -> f32 {
        let (c, s) = self.view().components();
        let want = Matrix3::new_translation(&c) * Matrix3::new_scaling(s);
        let got = self.view().world_to_model();
        let scale = want.iter().fold(1.0f32, |a, b| a.max(b.abs()));
        (want - got).iter().fold(0.0f32, |a, b| a.max(b.abs())) / scale
    }
    fn rot_state(&self) -> (Vec<u32>, f32, f32) {
        (self.view_bits(), 0.0, 0.0)
    }
}

impl Cv for Canvas3 {
    const DIM3: bool = true;
    fn new(size: u8) -> Self {
        Canvas3::new(vsize(size))
    }
    fn view_bits(&self) -> Vec<u32> {
        let (c, s, y, p) = self.view().components();
        vec![c.x.to_bits(), c.y.to_bits(), c.z.to_bits(), s.to_bits(), y.to_bits(), p.to_bits()]
    }
    fn model_under(&self, size: u8, pos: u8) -> [f32; 3] {
        let q = p2(pos);
        let w = vsize(size).transform_point(Point3::new(q.x, q.y, 0));
        let m = self.view().transform_point(&w);
        [m.x, m.y, m.z]
    }
    fn scale_abs(&self) -> f32 {
        self.view().components().1.abs()
    }
    fn centre_abs(&self) -> f32 {
        self.view().components().0.norm()
    }
    fn interact(&mut self, size: u8, cursor: Option<(u8, u8)>, scroll: f32) -> bool {
        Canvas3::interact(
            self,
            vsize(size),
            cursor.map(|(p, d)| CursorState {
                screen_pos: p2(p),
                drag: match d {
                    0 => None,
                    1 => Some(DragMode::Pan),
                    _ => Some(DragMode::Rotate),
                },
            }),
            scroll,
        )
    }
    fn begin_drag(&mut self, pos: u8, mode: u8) {
        Canvas3::begin_drag(self, p2(pos), if mode == 2 { DragMode::Rotate } else { DragMode::Pan })
    }
    fn drag(&mut self, pos: u8) -> bool {
        Canvas3::drag(self, p2(pos))
    }
    fn end_drag(&mut self) {
        Canvas3::end_drag(self)
    }
    fn zoom(&mut self, scroll: f32, pos: Option<u8>) -> bool {
        Canvas3::zoom(self, scroll, pos.map(p2))
    }
    fn resize(&mut self, size: u8) {
        // Canvas3 has no resize(); the size changes through interact(), which
        // (without a cursor) also ends any drag
        let _ = Canvas3::interact(self, vsize(size), None, 0.0);
    }
    fn matrix_error(&self) -> f32 {
        let (c, s, yaw, pitch) = self.view().components();
        let rot = Matrix4::from_axis_angle(&Vector3::z_axis(), yaw) * Matrix4::from_axis_angle(&Vector3::x_axis(), pitch);
        let want = Matrix4::new_translation(&c) * rot * Matrix4::new_scaling(s);
        let got = self.view().world_to_model();
        let scale = want.iter().fold(1.0f32, |a, b| a.max(b.abs()));
        (want - got).iter().fold(0.0f32, |a, b| a.max(b.abs())) / scale
    }
    fn rot_state(&self) -> (Vec<u32>, f32, f32) {
        let (c, s, y, p) = self.view().components();
        (vec![c.x.to_bits(), c.y.to_bits(), c.z.to_bits(), s.to_bits()], y, p)
    }
}

impl<C: Cv> St<C> {
    /// Fingerprint of the canvas's HIDDEN drag state, taken through the public
    /// API on copies of the canvas (it is `Copy`): the views that a drag event at
    /// two different positions would lead to.  Without it two states that differ
    /// only in a stale internal drag handle (same view, no drag according to the
    /// shadow record) would be merged although their futures differ - which is
    /// exactly how a canvas that forgets to end a drag escaped the search.
    fn hidden_key(&self) -> Vec<u32> {
        let mut k = vec![];
        for p in [0u8, 3] {
            let mut c = self.canvas.clone();
            let _ = guard(|| c.drag(p));
            k.extend(c.view_bits());
        }
        k
    }
}

impl<C: Cv> Hash for St<C> {
    fn hash<H: Hasher>(&self, h: &mut H) {
        self.hidden_key().hash(h);
        self.canvas.view_bits().hash(h);
        self.size.hash(h);
        self.drag.map(|d| (d.rotate, d.key)).hash(h);
        self.fail.as_ref().map(|f| f.0).hash(h);
        self.depth.hash(h);
    }
}
impl<C: Cv> PartialEq for St<C> {
    fn eq(&self, o: &Self) -> bool {
        self.canvas.view_bits() == o.canvas.view_bits()
            && self.hidden_key() == o.hidden_key()
            && self.size == o.size
            && self.drag.map(|d| (d.rotate, d.key)) == o.drag.map(|d| (d.rotate, d.key))
            && self.fail.as_ref().map(|f| f.0) == o.fail.as_ref().map(|f| f.0)
            && self.depth == o.depth
    }
}
impl<C: Cv> Eq for St<C> {}
impl<C: Cv> std::fmt::Debug for St<C> {
    fn fmt(&self, f: &mut std::fmt::Formatter<'_>) -> std::fmt::Result {
        write!(f, "view={:x?} size={} drag={} fail={:?}", self.canvas.view_bits(), self.size, self.drag.is_some(), self.fail)
    }
}

struct CanvasModel<C> {
    big: bool,
    _p: std::marker::PhantomData<C>,
}

fn close(a: [f32; 3], b: [f32; 3], scale: f32) -> bool {
    let tol = 1e-4 * scale.max(1.0);
    (0..3).all(|i| (a[i] - b[i]).abs() <= tol || (a[i].is_nan() && b[i].is_nan()))
}

impl<C: Cv> CanvasModel<C> {
    /// Starts the shadow record of a drag if none is active (begin is idempotent)
    fn shadow_begin(&self, s: &mut St<C>, pos: u8, rotate: bool) {
        if s.drag.is_none() {
            let g = s.canvas.model_under(s.size, pos);
            let mut key = [0u32; 8];
            for (i, b) in s.canvas.view_bits().iter().enumerate().take(6) {
                key[i] = *b;
            }
            key[6] = pos as u32;
            key[7] = s.size as u32;
            s.drag = Some(Shadow { rotate, grabbed: g, key });
        }
    }

    fn check_after_drag(&self, s: &mut St<C>, pos: u8, before_rot: &(Vec<u32>, f32, f32)) {
        let Some(d) = s.drag else { return };
        if d.rotate {
            let (cs, yaw, pitch) = s.canvas.rot_state();
            if cs != before_rot.0
                || !(0.0..=std::f32::consts::PI).contains(&pitch)
                || !(yaw.abs() < std::f32::consts::TAU)
            {
                s.fail = Some((K_ROTATE, format!("after rotating to position {:?}: centre/scale bits {:x?} -> {:x?}, yaw {yaw}, pitch {pitch}", POSITIONS[pos as usize], before_rot.0, cs)));
            }
        } else {
            let now = s.canvas.model_under(s.size, pos);
            let scale = d.grabbed.iter().fold(0f32, |a, b| a.max(b.abs())).max(s.canvas.centre_abs()).max(s.canvas.scale_abs() * 4.0);
            if !close(now, d.grabbed, scale) {
                s.fail = Some((K_PAN, format!("grabbed model point {:?} but the point under the cursor at {:?} is now {:?}", d.grabbed, POSITIONS[pos as usize], now)));
            }
        }
    }
}

impl<C: Cv> Model for CanvasModel<C> {
    type State = St<C>;
    type Action = Act;

    fn init_states(&self) -> Vec<St<C>> {
        // the default canvas, and canvases that already have a history: zoomed
        // about a point and panned, and (3D) rotated - most view states are not
        // reachable from the default within the depth bound
        let mut v = vec![St { canvas: C::new(0), size: 0, drag: None, fail: None, depth: 0 }];
        let mut c = C::new(0);
        let _ = c.zoom(SCROLLS[3], Some(1));
        c.begin_drag(1, 1);
        let _ = c.drag(3);
        c.end_drag();
        v.push(St { canvas: c, size: 0, drag: None, fail: None, depth: 0 });
        if C::DIM3 {
            let mut c = C::new(0);
            c.begin_drag(1, 2);
            let _ = c.drag(3);
            c.end_drag();
            v.push(St { canvas: c, size: 0, drag: None, fail: None, depth: 0 });
            let mut c = C::new(0);
            c.begin_drag(3, 2);
            let _ = c.drag(0);
            c.end_drag();
            let _ = c.zoom(SCROLLS[2], None);
            v.push(St { canvas: c, size: 0, drag: None, fail: None, depth: 0 });
        }
        v
    }

    fn actions(&self, s: &St<C>, out: &mut Vec<Act>) {
        if s.fail.is_some() {
            return;
        }
        let np = if self.big { POSITIONS.len() } else { 4 } as u8;
        let ns = if self.big { SCROLLS.len() } else { 3 } as u8;
        let modes: &[u8] = if C::DIM3 { &[1, 2] } else { &[1] };
        for sc in 0..ns {
            out.push(Act::Interact { cursor: None, scroll: sc });
            for p in 0..np {
                out.push(Act::Interact { cursor: Some((p, 0)), scroll: sc });
                for m in modes {
                    out.push(Act::Interact { cursor: Some((p, *m)), scroll: sc });
                }
            }
        }
        for p in 0..np {
            for m in modes {
                out.push(Act::BeginDrag { pos: p, mode: *m });
            }
            out.push(Act::Drag { pos: p });
        }
        out.push(Act::EndDrag);
        for sc in 1..ns {
            out.push(Act::Zoom { scroll: sc, pos: None });
            for p in 0..np {
                out.push(Act::Zoom { scroll: sc, pos: Some(p) });
            }
        }
        for z in 0..SIZES.len() as u8 {
            if z != s.size {
                out.push(Act::Resize { size: z });
                for p in 0..np {
                    for m in modes {
                        out.push(Act::InteractResized { size: z, pos: p, mode: *m });
                    }
                }
            }
        }
    }

    fn next_state(&self, s: &St<C>, a: Act) -> Option<St<C>> {
        let mut n = s.clone();
        n.depth = s.depth + 1;
        let before_bits = s.canvas.view_bits();
        let before_rot = s.canvas.rot_state();
        let r = guard(|| {
            let mut changed: Option<bool> = None;
            match a {
                Act::Interact { cursor, scroll } => {
                    let sc = SCROLLS[scroll as usize];
                    // the point under the cursor before the zoom part is not
                    // observable separately; check zoom-fixpoint only when no
                    // drag moves the view in the same call
                    let dragging = matches!(cursor, Some((_, d)) if d != 0);
                    let under_before = cursor.filter(|_| !dragging).map(|(p, _)| (p, n.canvas.model_under(n.size, p)));
                    if let Some((p, d)) = cursor {
                        if d != 0 {
                            self.shadow_begin(&mut n, p, d == 2);
                        } else {
                            n.drag = None;
                        }
                    } else {
                        n.drag = None;
                    }
                    changed = Some(n.canvas.interact(n.size, cursor, sc));
                    if let Some((p, before)) = under_before {
                        let after = n.canvas.model_under(n.size, p);
                        let scale = before.iter().fold(0f32, |a, b| a.max(b.abs())).max(n.canvas.centre_abs());
                        if !close(before, after, scale) {
                            n.fail = Some((K_ZOOM, format!("interact with scroll {sc} at {:?}: point under the cursor {before:?} -> {after:?}", POSITIONS[p as usize])));
                        }
                    }
                    if let Some((p, d)) = cursor {
                        // a rotate drag combined with a scroll in the same call also
                        // zooms, which legitimately changes centre and scale
                        let rotating = n.drag.map(|d| d.rotate).unwrap_or(false);
                        if d != 0 && n.fail.is_none() && !(rotating && sc != 0.0) {
                            self.check_after_drag(&mut n, p, &before_rot);
                        }
                    }
                }
                Act::BeginDrag { pos, mode } => {
                    self.shadow_begin(&mut n, pos, mode == 2);
                    n.canvas.begin_drag(pos, mode);
                }
                Act::Drag { pos } => {
                    changed = Some(n.canvas.drag(pos));
                    self.check_after_drag(&mut n, pos, &before_rot);
                }
                Act::EndDrag => {
                    n.canvas.end_drag();
                    n.drag = None;
                }
                Act::Zoom { scroll, pos } => {
                    let sc = SCROLLS[scroll as usize];
                    let before = pos.map(|p| n.canvas.model_under(n.size, p));
                    changed = Some(n.canvas.zoom(sc, pos));
                    if let (Some(p), Some(before)) = (pos, before) {
                        let after = n.canvas.model_under(n.size, p);
                        let scale = before.iter().fold(0f32, |a, b| a.max(b.abs())).max(n.canvas.centre_abs());
                        if !close(before, after, scale) {
                            n.fail = Some((K_ZOOM, format!("zoom {sc} about {:?}: point under the cursor {before:?} -> {after:?}", POSITIONS[p as usize])));
                        }
                    }
                }
                Act::InteractResized { size, pos, mode } => {
                    // the call first adopts the new size, then begins / continues the drag
                    n.size = size;
                    if let Some(d) = &n.drag {
                        if d.rotate != (mode == 2) {
                            // an active drag keeps its mode (begin is idempotent)
                        }
                    }
                    self.shadow_begin(&mut n, pos, mode == 2);
                    changed = Some(n.canvas.interact(size, Some((pos, mode)), 0.0));
                    self.check_after_drag(&mut n, pos, &before_rot);
                }
                Act::Resize { size } => {
                    n.size = size;
                    n.canvas.resize(size);
                    if C::DIM3 {
                        n.drag = None;
                    }
                }
            }
            if n.fail.is_none() {
                if let Some(true) = changed {
                    if n.canvas.view_bits() == before_bits {
                        n.fail = Some((K_CHANGED, format!("{a:?} returned changed = true but the view is bit-identical")));
                    }
                }
            }
            if n.fail.is_none() && n.canvas.matrix_error() > 1e-5 {
                n.fail = Some((K_MATRIX, format!("relative error {}", n.canvas.matrix_error())));
            }
        });
        if let Err(e) = r {
            n.fail = Some((K_PANIC, e));
        }
        Some(n)
    }

    fn properties(&self) -> Vec<Property<Self>> {
        vec![
            Property::always("zoom", |_, s: &St<C>| s.fail.as_ref().map(|f| f.0) != Some(K_ZOOM)),
            Property::always("pan", |_, s: &St<C>| s.fail.as_ref().map(|f| f.0) != Some(K_PAN)),
            Property::always("rotate", |_, s: &St<C>| s.fail.as_ref().map(|f| f.0) != Some(K_ROTATE)),
            Property::always("changed", |_, s: &St<C>| s.fail.as_ref().map(|f| f.0) != Some(K_CHANGED)),
            Property::always("matrix", |_, s: &St<C>| s.fail.as_ref().map(|f| f.0) != Some(K_MATRIX)),
            Property::always("panic", |_, s: &St<C>| s.fail.as_ref().map(|f| f.0) != Some(K_PANIC)),
        ]
    }
}

fn run_model<C: Cv>(cx: &mut Cx, case: u64, depth: usize, big: bool) {
    if !cx.case(case) {
        return;
    }
    let dim = if C::DIM3 { "3D" } else { "2D" };
    let model = CanvasModel::<C> { big, _p: std::marker::PhantomData };
    let checker = model
        .checker()
        .threads(8)
        .target_max_depth(depth + 1)
        .finish_when(stateright::HasDiscoveries::All)
        .spawn_bfs()
        .join();
    let states = checker.unique_state_count() as u64;
    cx.add("cases", states);
    cx.add("states", states);
    cx.add("transitions", checker.state_count() as u64);
    cx.add("nontrivial", states);
    cx.max("max_depth", checker.max_depth() as u64);
    for (name, path) in checker.discoveries() {
        let actions: Vec<String> = path.clone().into_actions().iter().map(|a| format!("{a:?}")).collect();
        let last = path.last_state().clone();
        let (k, msg) = last.fail.clone().unwrap_or((0, String::new()));
        // input class: was a zoom performed while a pan drag was active?
        let zoom_during_pan = {
            let mut active = false;
            let mut hit = false;
            for a in path.clone().into_actions() {
                match a {
                    Act::BeginDrag { mode: 1, .. } | Act::InteractResized { mode: 1, .. } => active = true,
                    Act::Interact { cursor: Some((_, 1)), scroll } => {
                        if active && scroll != 0 {
                            hit = true;
                        }
                        active = true;
                        if scroll != 0 {
                            hit = true;
                        }
                    }
                    Act::Interact { cursor: Some((_, 0)), .. } | Act::Interact { cursor: None, .. } | Act::EndDrag => active = false,
                    Act::Zoom { .. } if active => hit = true,
                    _ => (),
                }
            }
            hit
        };
        let class = if k == K_PAN && zoom_during_pan { " [zoom while a pan drag is active]" } else { "" };
        cx.violation(
            format!("{dim} {}{class}", kind_name(k)),
            json!({"canvas": dim, "property": name, "events": actions, "positions": POSITIONS, "scrolls": SCROLLS, "sizes": SIZES}),
            format!("after {} events {:?}: {msg}", actions.len(), actions),
        );
    }
    cx.sample(|| json!({"canvas": dim, "depth": depth, "unique_states": states}));
}

impl Check for C18 {
    fn id(&self) -> &'static str {
        "C18"
    }
    fn units(&self, _tier: Tier) -> usize {
        2
    }
    fn case_timeout_s(&self, tier: Tier) -> f64 {
        // one case is a whole breadth-first search
        match tier {
            Tier::Quick => 120.0,
            Tier::Thorough => 3000.0,
        }
    }
    fn unit_label(&self, _tier: Tier, unit: usize) -> String {
        ["2D", "3D"][unit].to_string()
    }
    fn meta(&self, tier: Tier) -> Meta {
        Meta {
            rule: "explicit-state breadth-first search (stateright) whose transition function calls the real Canvas2 / Canvas3 methods; actions: interact(cursor in {none, position x {no drag, pan, rotate}}, scroll), begin_drag, drag, end_drag, zoom(scroll, position or none), resize, interact(new image size, position x {pan, rotate}) i.e. a resize and a drag event in one call, from 2 (2D) / 4 (3D) initial canvases (default; zoomed and panned; rotated; rotated the other way and zoomed), over screen positions {corner, centre, far off-canvas (-300,200), (32,60) sharing its x with the centre, (3,7)}, scrolls {0, +100, -100, 37.5}, image sizes {64x64, 100x50, 33x77}; state key = bit pattern of the view components + image size + shadow record of the active drag (view and position at its start) + a fingerprint of the canvas's hidden drag state (the views a drag event at two positions would lead to, probed on copies) + depth; per-transition obligations: zoom about p keeps the model point under p (1e-4 relative), while a pan is active the point grabbed at its start stays under the cursor, rotation leaves centre and scale bit-identical with pitch in [0,pi] and |yaw| < 2pi, changed == false when the view is bit-identical, world_to_model == translate*rotate*scale of the components; every obligation is an `always` property; counts: states = unique states, transitions = generated states".into(),
            bounds: match tier {
                Tier::Quick => "every history of up to 3 events is checked (search depth 4: the states after a 4th event are generated, not checked) over 4 positions, 3 scrolls".into(),
                Tier::Thorough => "every history of up to 3 events over 5 positions, 4 scrolls and of up to 4 events over 4 positions, 3 scrolls (search depths 4 and 5: stateright checks the states strictly below the target depth)".into(),
            },
            assumptions: vec!["the drag handle is opaque; the state key uses the view and cursor at the start of the drag, of which the handle is a function".into()],
            crash_policy: CrashPolicy::Violation,
            vacuity: vec![("states", 10000)],
            transitions_counter: "transitions",
            nontrivial_counter: "nontrivial",
            exhaustive: true,
        }
    }
    fn run_unit(&self, tier: Tier, unit: usize, cx: &mut Cx) {
        let runs: &[(usize, bool)] = match tier {
            Tier::Quick => &[(4, false)],
            Tier::Thorough => &[(4, true), (5, false)],
        };
        for (i, (depth, big)) in runs.iter().enumerate() {
            if unit == 0 {
                run_model::<Canvas2>(cx, i as u64, *depth, *big);
            } else {
                run_model::<Canvas3>(cx, i as u64, *depth, *big);
            }
        }
    }
}
