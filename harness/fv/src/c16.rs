//! C16 — standard shapes and transforms have their documented geometry.
//! DESIGN.md §4 C16.
use crate::refsem::Flat;
use crate::runner::{Check, CrashPolicy, Cx, Meta, Tier, guard, panic_site};
use fidget_core::context::{Context, Tree};
use fidget_shapes::types::{Axis, Plane, Vec2, Vec3};
use fidget_shapes::{
    Blend, Circle, Difference, ExtrudeZ, Intersection, Inverse, LoftZ, Move, Rectangle, Reflect, ReflectX,
    ReflectXY, ReflectY, ReflectZ, RepeatX, RevolveY, Rotate, RotateX, RotateY, RotateZ, Scale, ScaleUniform,
    Sphere, Union,
};
use serde_json::json;
use std::sync::Arc;

pub struct C16;

type P3 = [f64; 3];
type RefFn = Arc<dyn Fn(P3) -> f64 + Send + Sync>;

/// Asymmetric probe shape and its f64 reference
fn probe3() -> (Tree, RefFn) {
    let (x, y, z) = Tree::axes();
    let t = x.clone() + y.clone() * 2.0 + z.clone() * 4.0 + (x * y) * 0.5 - 0.25;
    (t, Arc::new(|p: P3| p[0] + 2.0 * p[1] + 4.0 * p[2] + 0.5 * p[0] * p[1] - 0.25))
}

/// Asymmetric 2D probe (ignores z)
fn probe2() -> (Tree, RefFn) {
    let (x, y, _z) = Tree::axes();
    let t = x.clone() * 1.5 - y.clone() * 0.75 + (x * y) * 0.25 - 0.5;
    (t, Arc::new(|p: P3| 1.5 * p[0] - 0.75 * p[1] + 0.25 * p[0] * p[1] - 0.5))
}

fn grid() -> Vec<P3> {
    let g = [-1.5f64, -0.6, 0.1, 0.7, 1.9];
    let mut v = vec![];
    for x in g {
        for y in g {
            for z in g {
                v.push([x, y, z]);
            }
        }
    }
    v
}

fn v3(a: P3) -> Vec3 {
    Vec3::new(a[0] as f32, a[1] as f32, a[2] as f32)
}

struct Case {
    name: String,
    tree: Box<dyn Fn() -> Tree>,
    /// exact value reference (compared to 1e-4 relative) or sign-only
    reference: RefFn,
    sign_only: bool,
}

fn eval_tree(t: &Tree, pts: &[P3]) -> Result<Vec<f32>, String> {
    guard(|| {
        let mut ctx = Context::new();
        let n = ctx.import(t);
        let flat = Flat::from_ctx(&ctx, &[n]);
        let (mut vals, mut amb) = (vec![], vec![]);
        pts.iter()
            .map(|p| {
                let args: Vec<f32> = flat
                    .vars
                    .iter()
                    .map(|v| match v {
                        fidget_core::var::Var::X => p[0] as f32,
                        fidget_core::var::Var::Y => p[1] as f32,
                        fidget_core::var::Var::Z => p[2] as f32,
                        _ => 0.0,
                    })
                    .collect();
                flat.eval_all(&args, &mut vals, &mut amb);
                vals[flat.roots[0]]
            })
            .collect()
    })
}

fn run_case(cx: &mut Cx, sub: &mut u64, shape: &str, c: &Case) {
    let s = *sub;
    *sub += 1;
    if !cx.case(s) {
        return;
    }
    cx.add("cases", 1);
    cx.add("nontrivial", 1);
    let pts = grid();
    let desc = || json!({"shape": shape, "case": c.name});
    let tree = match guard(|| (c.tree)()) {
        Ok(t) => t,
        Err(e) => {
            cx.crash(format!("shape={shape} construction panic {}", panic_site(&e)), desc(), e);
            return;
        }
    };
    cx.add("evals", pts.len() as u64);
    let vals = match eval_tree(&tree, &pts) {
        Ok(v) => v,
        Err(e) => {
            cx.crash(format!("shape={shape} evaluation panic {}", panic_site(&e)), desc(), e);
            return;
        }
    };
    for (p, v) in pts.iter().zip(&vals) {
        let r = (c.reference)(*p);
        if !r.is_finite() {
            continue;
        }
        cx.add("point_checks", 1);
        let v = *v as f64;
        let bad = if c.sign_only {
            r.abs() > 1e-4 && !v.is_nan() && ((v < 0.0) != (r < 0.0))
                || (r.abs() > 1e-4 && v.is_nan())
        } else {
            !((v - r).abs() <= 1e-4 * 1f64.max(r.abs()))
        };
        if bad {
            cx.violation(
                format!("shape={shape}"),
                desc(),
                format!(
                    "{}: at {p:?} the tree evaluates to {v}, documented geometry gives {r}{}",
                    c.name,
                    if c.sign_only { " (sign compared)" } else { "" }
                ),
            );
            return;
        }
    }
    cx.sample(|| json!({"shape": shape, "case": c.name, "points": pts.len()}));
}

fn centres() -> Vec<P3> {
    vec![[0.0, 0.0, 0.0], [0.5, -0.25, 1.0], [-1.0, 2.0, 0.25]]
}
fn radii() -> Vec<f64> {
    vec![0.5, 1.0, 2.0]
}
fn offsets() -> Vec<f64> {
    vec![0.0, 0.5, -1.0, 0.25]
}
fn angles() -> Vec<f64> {
    vec![0.0, 30.0, 90.0, 180.0, -45.0]
}
fn scales() -> Vec<P3> {
    vec![[1.0, 1.0, 1.0], [2.0, 2.0, 2.0], [0.5, 2.0, 4.0], [-1.0, 1.0, 1.0], [-2.0, 0.5, -0.25]]
}
fn axes() -> Vec<(String, Axis, P3)> {
    let n = |v: P3| {
        let l = (v[0] * v[0] + v[1] * v[1] + v[2] * v[2]).sqrt();
        [v[0] / l, v[1] / l, v[2] / l]
    };
    vec![
        ("Axis::X".into(), Axis::X, [1.0, 0.0, 0.0]),
        ("Axis::Y".into(), Axis::Y, [0.0, 1.0, 0.0]),
        ("Axis::Z".into(), Axis::Z, [0.0, 0.0, 1.0]),
        (
            "axis(1,2,-2)".into(),
            Axis::try_from(Vec3::new(1.0, 2.0, -2.0)).unwrap(),
            n([1.0, 2.0, -2.0]),
        ),
    ]
}
fn planes() -> Vec<(String, Plane, P3, f64)> {
    let mut v = vec![
        ("Plane::XY".to_string(), Plane::XY, [0.0, 0.0, 1.0], 0.0),
        ("Plane::YZ".to_string(), Plane::YZ, [1.0, 0.0, 0.0], 0.0),
        ("Plane::ZX".to_string(), Plane::ZX, [0.0, 1.0, 0.0], 0.0),
    ];
    for (n, a, r) in axes() {
        for o in [0.5, -1.0] {
            v.push((format!("Plane{{{n}, {o}}}"), Plane { axis: a, offset: o as f32 }, r, o));
        }
    }
    v
}

/// Rotation of `p` by `deg` degrees about unit axis `a` (right-hand rule)
fn rotate(p: P3, a: P3, deg: f64) -> P3 {
    let t = deg.to_radians();
    let (c, s) = (t.cos(), t.sin());
    let dot = a[0] * p[0] + a[1] * p[1] + a[2] * p[2];
    let cross = [
        a[1] * p[2] - a[2] * p[1],
        a[2] * p[0] - a[0] * p[2],
        a[0] * p[1] - a[1] * p[0],
    ];
    [
        p[0] * c + cross[0] * s + a[0] * dot * (1.0 - c),
        p[1] * c + cross[1] * s + a[1] * dot * (1.0 - c),
        p[2] * c + cross[2] * s + a[2] * dot * (1.0 - c),
    ]
}

fn reflect(p: P3, a: P3, o: f64) -> P3 {
    let d = a[0] * p[0] + a[1] * p[1] + a[2] * p[2] - o;
    [p[0] - 2.0 * d * a[0], p[1] - 2.0 * d * a[1], p[2] - 2.0 * d * a[2]]
}

/// One step of a transform sequence: builds the tree and the reference
#[derive(Clone, Debug)]
enum Step {
    Move(P3),
    Scale(P3),
    RotZ(f64, P3),
    RotAxis(f64),
    ReflX(f64),
    ScaleU(f64),
}

fn apply_step(s: &Step, t: Tree, r: RefFn) -> (Tree, RefFn) {
    match s.clone() {
        Step::Move(v) => (
            Move { shape: t, offset: v3(v) }.into(),
            Arc::new(move |p: P3| r([p[0] - v[0], p[1] - v[1], p[2] - v[2]])),
        ),
        Step::Scale(k) => (
            Scale { shape: t, scale: v3(k) }.into(),
            Arc::new(move |p: P3| r([p[0] / k[0], p[1] / k[1], p[2] / k[2]])),
        ),
        Step::ScaleU(k) => (
            ScaleUniform { shape: t, scale: k as f32 }.into(),
            Arc::new(move |p: P3| r([p[0] / k, p[1] / k, p[2] / k])),
        ),
        Step::RotZ(deg, c) => (
            RotateZ { shape: t, angle: deg as f32, center: v3(c) }.into(),
            Arc::new(move |p: P3| {
                let q = rotate([p[0] - c[0], p[1] - c[1], p[2] - c[2]], [0.0, 0.0, 1.0], -deg);
                r([q[0] + c[0], q[1] + c[1], q[2] + c[2]])
            }),
        ),
        Step::RotAxis(deg) => {
            let (_, ax, a) = axes().pop().unwrap();
            (
                Rotate { shape: t, axis: ax, angle: deg as f32, center: Vec3::new(0.0, 0.0, 0.0) }.into(),
                Arc::new(move |p: P3| r(rotate(p, a, -deg))),
            )
        }
        Step::ReflX(o) => (
            ReflectX { shape: t, offset: o as f32 }.into(),
            Arc::new(move |p: P3| r(reflect(p, [1.0, 0.0, 0.0], o))),
        ),
    }
}

fn steps() -> Vec<Step> {
    vec![
        Step::Move([0.5, -0.25, 1.0]),
        Step::Scale([0.5, 2.0, 4.0]),
        Step::Scale([-1.0, 1.0, 2.0]),
        Step::RotZ(90.0, [0.0, 0.0, 0.0]),
        Step::RotZ(30.0, [0.5, 0.25, 0.0]),
        Step::RotAxis(-45.0),
        Step::ReflX(0.5),
        Step::ScaleU(2.0),
    ]
}

const SHAPES: [&str; 27] = [
    "Sphere", "Box", "Plane", "Circle", "Rectangle", "Move", "Scale", "ScaleUniform", "Reflect",
    "ReflectX", "ReflectY", "ReflectZ", "ReflectXY", "RepeatX", "Rotate", "RotateX", "RotateY",
    "RotateZ", "RevolveY", "ExtrudeZ", "LoftZ", "Union", "Blend", "Intersection", "Difference",
    "Inverse", "TransformSequences",
];

fn cases_for(shape: &str, tier: Tier) -> Vec<Case> {
    let mut out: Vec<Case> = vec![];
    let (pt, pr) = probe3();
    let (p2t, p2r) = probe2();
    macro_rules! case {
        ($name:expr, $sign:expr, $tree:expr, $refn:expr) => {
            out.push(Case { name: $name, tree: Box::new($tree), reference: Arc::new($refn), sign_only: $sign })
        };
    }
    match shape {
        "Sphere" => {
            for c in centres() {
                for r in radii() {
                    case!(format!("center {c:?} radius {r}"), true,
                        move || Sphere { center: v3(c), radius: r as f32 }.into(),
                        move |p: P3| ((p[0]-c[0]).powi(2) + (p[1]-c[1]).powi(2) + (p[2]-c[2]).powi(2)).sqrt() - r);
                }
            }
        }
        "Circle" => {
            for c in centres() {
                for r in radii() {
                    case!(format!("center {c:?} radius {r}"), true,
                        move || Circle { center: Vec2::new(c[0] as f32, c[1] as f32), radius: r as f32 }.into(),
                        move |p: P3| ((p[0]-c[0]).powi(2) + (p[1]-c[1]).powi(2)).sqrt() - r);
                }
            }
        }
        "Box" => {
            for lo in [[-1.0, -0.5, -2.0], [0.0, 0.0, 0.0], [-2.0, 0.25, -0.25]] {
                for sz in [[1.0, 2.0, 3.0], [0.5, 0.5, 0.5], [3.0, 0.25, 2.0]] {
                    let hi = [lo[0] + sz[0], lo[1] + sz[1], lo[2] + sz[2]];
                    case!(format!("lower {lo:?} upper {hi:?}"), true,
                        move || fidget_shapes::Box { lower: v3(lo), upper: v3(hi) }.into(),
                        move |p: P3| (0..3).map(|i| (lo[i] - p[i]).max(p[i] - hi[i])).fold(f64::NEG_INFINITY, f64::max));
                }
            }
        }
        "Rectangle" => {
            for lo in [[-1.0, -0.5], [0.0, 0.0], [-2.0, 0.25]] {
                for sz in [[1.0, 2.0], [0.5, 0.5], [3.0, 0.25]] {
                    let hi = [lo[0] + sz[0], lo[1] + sz[1]];
                    case!(format!("lower {lo:?} upper {hi:?}"), true,
                        move || Rectangle { lower: Vec2::new(lo[0] as f32, lo[1] as f32), upper: Vec2::new(hi[0] as f32, hi[1] as f32) }.into(),
                        move |p: P3| (0..2).map(|i| (lo[i] - p[i]).max(p[i] - hi[i])).fold(f64::NEG_INFINITY, f64::max));
                }
            }
        }
        "Plane" => {
            for (name, pl, a, o) in planes() {
                case!(format!("{name} as a half-space; named axes/planes denote what they say"), false,
                    move || pl.into(),
                    move |p: P3| a[0]*p[0] + a[1]*p[1] + a[2]*p[2] - o);
            }
        }
        "Move" => {
            for v in centres() {
                let (t, r) = (pt.clone(), pr.clone());
                case!(format!("offset {v:?}"), false,
                    move || Move { shape: t.clone(), offset: v3(v) }.into(),
                    move |p: P3| r([p[0]-v[0], p[1]-v[1], p[2]-v[2]]));
            }
        }
        "Scale" => {
            for k in scales() {
                let (t, r) = (pt.clone(), pr.clone());
                case!(format!("scale {k:?}"), false,
                    move || Scale { shape: t.clone(), scale: v3(k) }.into(),
                    move |p: P3| r([p[0]/k[0], p[1]/k[1], p[2]/k[2]]));
            }
        }
        "ScaleUniform" => {
            for k in [1.0, 2.0, 0.5, -1.0, -0.25] {
                let (t, r) = (pt.clone(), pr.clone());
                case!(format!("scale {k}"), false,
                    move || ScaleUniform { shape: t.clone(), scale: k as f32 }.into(),
                    move |p: P3| r([p[0]/k, p[1]/k, p[2]/k]));
            }
        }
        "Reflect" => {
            for (name, pl, a, o) in planes() {
                let (t, r) = (pt.clone(), pr.clone());
                case!(format!("about {name}"), false,
                    move || Reflect { shape: t.clone(), plane: pl }.into(),
                    move |p: P3| r(reflect(p, a, o)));
            }
        }
        "ReflectX" | "ReflectY" | "ReflectZ" => {
            let a: P3 = match shape { "ReflectX" => [1.0,0.0,0.0], "ReflectY" => [0.0,1.0,0.0], _ => [0.0,0.0,1.0] };
            for o in offsets() {
                let (t, r) = (pt.clone(), pr.clone());
                let sh = shape.to_string();
                case!(format!("offset {o}"), false,
                    move || match sh.as_str() {
                        "ReflectX" => ReflectX { shape: t.clone(), offset: o as f32 }.into(),
                        "ReflectY" => ReflectY { shape: t.clone(), offset: o as f32 }.into(),
                        _ => ReflectZ { shape: t.clone(), offset: o as f32 }.into(),
                    },
                    move |p: P3| r(reflect(p, a, o)));
            }
        }
        "ReflectXY" => {
            // reflection about the X = Y line: swaps x and y (offset 0)
            let (t, r) = (pt.clone(), pr.clone());
            case!("offset 0: swaps x and y".to_string(), false,
                move || ReflectXY { shape: t.clone(), offset: 0.0 }.into(),
                move |p: P3| r([p[1], p[0], p[2]]));
        }
        "RepeatX" => {
            for radius in [1.0, 0.75, 2.0] {
                for o in offsets() {
                    let (t, r) = (pt.clone(), pr.clone());
                    case!(format!("radius {radius} offset {o}"), false,
                        move || RepeatX { shape: t.clone(), radius: radius as f32, offset: o as f32 }.into(),
                        move |p: P3| {
                            let lo = o - radius;
                            let k = (p[0] - lo) / (2.0 * radius);
                            // skip sample points at the seam of the repetition
                            if (k - k.round()).abs() < 1e-6 { return f64::NAN; }
                            let x = lo + (p[0] - lo).rem_euclid(2.0 * radius);
                            r([x, p[1], p[2]])
                        });
                }
            }
        }
        "Rotate" => {
            for (name, ax, a) in axes() {
                for deg in angles() {
                    for c in centres() {
                        let (t, r) = (pt.clone(), pr.clone());
                        case!(format!("{deg} degrees about {name} through {c:?}"), false,
                            move || Rotate { shape: t.clone(), axis: ax, angle: deg as f32, center: v3(c) }.into(),
                            move |p: P3| {
                                let q = rotate([p[0]-c[0], p[1]-c[1], p[2]-c[2]], a, -deg);
                                r([q[0]+c[0], q[1]+c[1], q[2]+c[2]])
                            });
                    }
                }
            }
        }
        "RotateX" | "RotateY" | "RotateZ" => {
            let a: P3 = match shape { "RotateX" => [1.0,0.0,0.0], "RotateY" => [0.0,1.0,0.0], _ => [0.0,0.0,1.0] };
            for deg in angles() {
                for c in centres() {
                    let (t, r) = (pt.clone(), pr.clone());
                    let sh = shape.to_string();
                    case!(format!("{deg} degrees through {c:?}"), false,
                        move || match sh.as_str() {
                            "RotateX" => RotateX { shape: t.clone(), angle: deg as f32, center: v3(c) }.into(),
                            "RotateY" => RotateY { shape: t.clone(), angle: deg as f32, center: v3(c) }.into(),
                            _ => RotateZ { shape: t.clone(), angle: deg as f32, center: v3(c) }.into(),
                        },
                        move |p: P3| {
                            let q = rotate([p[0]-c[0], p[1]-c[1], p[2]-c[2]], a, -deg);
                            r([q[0]+c[0], q[1]+c[1], q[2]+c[2]])
                        });
                }
            }
        }
        "RevolveY" => {
            for o in offsets() {
                let (t, r) = (p2t.clone(), p2r.clone());
                case!(format!("XY probe revolved about the line x = {o} (parallel to Y)"), false,
                    move || RevolveY { shape: t.clone(), offset: o as f32 }.into(),
                    move |p: P3| r([o + ((p[0]-o).powi(2) + p[2].powi(2)).sqrt(), p[1], 0.0]));
            }
            // a solid: circle of radius 0.25 centred at x = 1 revolved about Y is a torus
            case!("circle at x=1 revolved about Y is a torus".to_string(), true,
                move || RevolveY { shape: Circle { center: Vec2::new(1.0, 0.0), radius: 0.25 }.into(), offset: 0.0 }.into(),
                move |p: P3| (((p[0].powi(2) + p[2].powi(2)).sqrt() - 1.0).powi(2) + p[1].powi(2)).sqrt() - 0.25);
        }
        "ExtrudeZ" => {
            for (lo, hi) in [(0.0, 1.0), (-1.0, 0.5), (0.25, 2.0)] {
                let (t, r) = (p2t.clone(), p2r.clone());
                case!(format!("z in [{lo}, {hi}]"), false,
                    move || ExtrudeZ { shape: t.clone(), lower: lo as f32, upper: hi as f32 }.into(),
                    move |p: P3| r([p[0], p[1], 0.0]).max(lo - p[2]).max(p[2] - hi));
            }
        }
        "LoftZ" => {
            for (lo, hi) in [(0.0, 1.0), (-1.0, 0.5), (0.25, 2.0)] {
                let (ta, ra) = (p2t.clone(), p2r.clone());
                let cb: Tree = Circle { center: Vec2::new(0.25, 0.0), radius: 1.0 }.into();
                case!(format!("probe to circle, z in [{lo}, {hi}]"), false,
                    move || LoftZ { a: ta.clone(), b: cb.clone(), lower: lo as f32, upper: hi as f32 }.into(),
                    move |p: P3| {
                        let a = ra([p[0], p[1], 0.0]);
                        let b = ((p[0]-0.25).powi(2) + p[1].powi(2)).sqrt() - 1.0;
                        (((p[2]-lo)*b + (hi-p[2])*a)/(hi-lo)).max(lo - p[2]).max(p[2] - hi)
                    });
            }
        }
        "Union" | "Intersection" => {
            let is_union = shape == "Union";
            for n in 1..=5usize {
                let spheres: Vec<(P3, f64)> = (0..n).map(|i| ([i as f64 * 0.7 - 1.2, (i % 2) as f64 * 0.8 - 0.3, 0.1 * i as f64], 0.6 + 0.2 * i as f64)).collect();
                let sp = spheres.clone();
                case!(format!("{n} spheres"), true,
                    move || {
                        let input: Vec<Tree> = sp.iter().map(|(c, r)| Sphere { center: v3(*c), radius: *r as f32 }.into()).collect();
                        if is_union { Union { input }.into() } else { Intersection { input }.into() }
                    },
                    move |p: P3| {
                        let vs = spheres.iter().map(|(c, r)| ((p[0]-c[0]).powi(2)+(p[1]-c[1]).powi(2)+(p[2]-c[2]).powi(2)).sqrt() - r);
                        if is_union { vs.fold(f64::INFINITY, f64::min) } else { vs.fold(f64::NEG_INFINITY, f64::max) }
                    });
            }
            case!("empty input".to_string(), true,
                move || if is_union { Union { input: vec![] }.into() } else { Intersection { input: vec![] }.into() },
                move |_p: P3| if is_union { 1e30 } else { -1e30 });
        }
        "Difference" => {
            for c in centres() {
                case!(format!("sphere minus sphere at {c:?}"), true,
                    move || Difference { shape: Sphere { center: v3([0.0,0.0,0.0]), radius: 1.5 }.into(), cutout: Sphere { center: v3(c), radius: 1.0 }.into() }.into(),
                    move |p: P3| {
                        let a = (p[0].powi(2)+p[1].powi(2)+p[2].powi(2)).sqrt() - 1.5;
                        let b = ((p[0]-c[0]).powi(2)+(p[1]-c[1]).powi(2)+(p[2]-c[2]).powi(2)).sqrt() - 1.0;
                        a.max(-b)
                    });
            }
        }
        "Inverse" => {
            let (t, r) = (pt.clone(), pr.clone());
            case!("complement of the probe".to_string(), false,
                move || Inverse { shape: t.clone() }.into(),
                move |p: P3| -r(p));
            case!("complement of a sphere".to_string(), true,
                move || Inverse { shape: Sphere { center: v3([0.5,-0.25,1.0]), radius: 1.0 }.into() }.into(),
                move |p: P3| 1.0 - ((p[0]-0.5).powi(2)+(p[1]+0.25).powi(2)+(p[2]-1.0).powi(2)).sqrt());
        }
        "Blend" => {
            for radius in [0.0, 0.5, 1.0] {
                let c = [1.0, 0.25, -0.5];
                case!(format!("two spheres, radius {radius}: equals the union where the two fields differ by at least the radius"), false,
                    move || Blend { a: Sphere { center: v3([0.0,0.0,0.0]), radius: 1.0 }.into(), b: Sphere { center: v3(c), radius: 0.75 }.into(), radius: radius as f32 }.into(),
                    move |p: P3| {
                        let a = (p[0].powi(2)+p[1].powi(2)+p[2].powi(2)).sqrt() - 1.0;
                        let b = ((p[0]-c[0]).powi(2)+(p[1]-c[1]).powi(2)+(p[2]-c[2]).powi(2)).sqrt() - 0.75;
                        if (a - b).abs() >= radius { a.min(b) } else { f64::NAN }
                    });
            }
        }
        "TransformSequences" => {
            let st = steps();
            let depth = if tier == Tier::Quick { 2 } else { 3 };
            let mut seqs: Vec<Vec<usize>> = vec![vec![]];
            for _ in 0..depth {
                let mut next = vec![];
                for s in &seqs {
                    if s.len() + 1 <= depth {
                        for i in 0..st.len() {
                            let mut q = s.clone();
                            q.push(i);
                            next.push(q);
                        }
                    }
                }
                seqs.extend(next.clone());
                seqs.sort();
                seqs.dedup();
            }
            seqs.retain(|s| !s.is_empty());
            for seq in seqs {
                let st2 = st.clone();
                let st3 = st.clone();
                let (t, r) = (pt.clone(), pr.clone());
                let seq2 = seq.clone();
                let mut rf: RefFn = r.clone();
                {
                    // reference built eagerly
                    let mut tt = t.clone();
                    for i in &seq {
                        let (nt, nr) = apply_step(&st3[*i], tt, rf);
                        tt = nt;
                        rf = nr;
                    }
                }
                let rf2 = rf.clone();
                case!(format!("sequence {:?}", seq.iter().map(|i| format!("{:?}", st[*i])).collect::<Vec<_>>()), false,
                    move || {
                        let mut tt = t.clone();
                        let mut rr: RefFn = Arc::new(|_p: P3| 0.0);
                        for i in &seq2 {
                            let (nt, nr) = apply_step(&st2[*i], tt, rr);
                            tt = nt;
                            rr = nr;
                        }
                        tt
                    },
                    move |p: P3| rf2(p));
            }
        }
        _ => unreachable!(),
    }
    out
}

impl Check for C16 {
    fn id(&self) -> &'static str {
        "C16"
    }
    fn units(&self, _tier: Tier) -> usize {
        SHAPES.len()
    }
    fn unit_label(&self, _tier: Tier, unit: usize) -> String {
        SHAPES[unit].to_string()
    }
    fn meta(&self, tier: Tier) -> Meta {
        Meta {
            rule: "case = (shape or transform of the library, parameter combination); parameters from grids (3 centres, 3 radii, 4 offsets, 5 angles incl. negative, 5 scale vectors incl. negative and non-uniform, 4 axes incl. a general one, 11 planes incl. the three named ones); each case is built through the public struct + Into<Tree>, imported, and evaluated at a 5x5x5 asymmetric grid of points; primitives and CSG: sign must agree with closed-form f64 geometry away from the boundary (|v| > 1e-4); transforms: with an asymmetric probe s, T(s)(p) = s(T^-1 p) to 1e-4 for the documented action; all sequences of up to 2 (quick) / 3 (thorough) transforms from an 8-step alphabet vs the composed reference; non-trivial = every case".into(),
            bounds: match tier {
                Tier::Quick => "transform sequences of length <= 2".into(),
                Tier::Thorough => "transform sequences of length <= 3".into(),
            },
            assumptions: vec![
                "documented meaning taken from the doc comments: rotation by the right-hand rule in degrees, RepeatX period 2*radius centred on offset, RevolveY about the line x = offset parallel to Y, ReflectXY swaps x and y, Plane::XY / YZ / ZX have normals Z / X / Y".into(),
                "evaluation through Context::import + ref32 (tree evaluation itself is C12/C13's claim)".into(),
            ],
            crash_policy: CrashPolicy::Violation,
            vacuity: vec![("point_checks", 10000)],
            transitions_counter: "evals",
            nontrivial_counter: "nontrivial",
            exhaustive: true,
        }
    }
    fn run_unit(&self, tier: Tier, unit: usize, cx: &mut Cx) {
        let shape = SHAPES[unit];
        let mut sub = 0u64;
        for c in cases_for(shape, tier) {
            run_case(cx, &mut sub, shape, &c);
        }
    }
}
