//! C10 — reusing evaluators, tapes' storage and workspaces never changes
//! results.  DESIGN.md §4 C10.
//!
//! Explicit exploration over REAL long-lived objects: every sequence of uses
//! up to the depth bound is executed through one evaluator of each kind, one
//! pool of recycled tape storage, one pool of recycled function storage and
//! one simplification workspace; each step's observation must equal, bit for
//! bit, the observation of the same call on fresh objects (a differential
//! oracle).  No state de-duplication: the storage objects are opaque.
use crate::evalkit::{self, Backend};
use crate::prog::{self, Order, POp, Prog};
use crate::refsem::Flat;
use crate::runner::{Check, CrashPolicy, Cx, Meta, Tier, guard, panic_site};
use fidget_core::context::{BinaryOpcode as B, Context, UnaryOpcode as U};
use fidget_core::eval::{BulkEvaluator, Function, Tape, TracingEvaluator};
use fidget_core::render::RenderHandle;
use fidget_core::shape::Shape;
use fidget_core::types::{Grad, Interval};
use fidget_core::vm::{Choice, GenericVmFunction, VmFunction, VmTrace};
use fidget_jit::JitFunction;
use serde_json::json;

pub struct C10;

fn pool_progs() -> Vec<(&'static str, Prog)> {
    let mut v = vec![];
    // f0: no choice, two variables
    let mut p = Prog::default();
    let x = p.push(POp::Var(0));
    let y = p.push(POp::Var(1));
    let m = p.push(POp::Bin(B::Mul, x, y));
    let k = p.push(POp::Const(1.0));
    let r = p.push(POp::Bin(B::Add, m, k));
    p.roots = vec![r];
    v.push(("x*y+1", p));
    // f1: three variables, two choices
    let mut p = Prog::default();
    let x = p.push(POp::Var(0));
    let y = p.push(POp::Var(1));
    let z = p.push(POp::Var(2));
    let a = p.push(POp::Bin(B::Min, x, y));
    let k = p.push(POp::Const(0.5));
    let b = p.push(POp::Bin(B::Max, z, k));
    let r = p.push(POp::Bin(B::Add, a, b));
    p.roots = vec![r];
    v.push(("min(x,y)+max(z,0.5)", p));
    // f2: many live values (spills in VM<3> and in the 12-register JIT)
    v.push(("fan(14,sin)", prog::family_fan(14, Some(U::Sin), Order::Reverse, B::Add)));
    // f3: three outputs including a constant
    let mut p = Prog::default();
    let x = p.push(POp::Var(0));
    let y = p.push(POp::Var(1));
    let s = p.push(POp::Bin(B::Add, x, y));
    let c = p.push(POp::Const(2.5));
    let k = p.push(POp::Const(1.0));
    let m = p.push(POp::Bin(B::Min, x, k));
    p.roots = vec![s, c, m];
    v.push(("[x+y, 2.5, min(x,1)]", p));
    // f4: a free variable
    let mut p = Prog::default();
    let x = p.push(POp::Var(0));
    let fv = p.push(POp::Var(5));
    let k = p.push(POp::Const(2.0));
    let m = p.push(POp::Bin(B::Mul, fv, k));
    let r = p.push(POp::Bin(B::Add, x, m));
    p.roots = vec![r];
    v.push(("x+2v", p));
    // f5: zero variables
    let mut p = Prog::default();
    let c = p.push(POp::Const(4.0));
    p.roots = vec![c];
    v.push(("const 4", p));
    // f6: forty choices
    v.push(("chain(40)", prog::family_chain(40, &[B::Min, B::Max, B::And, B::Or], 3)));
    // f7: HUGE - about 1400 values live at once (more than 1024 spill slots
    // even with 255 registers) and one choice
    let p = prog::huge_prog(1400, true);
    v.push(("huge: 1400 live values, one choice", p));
    v
}

/// Index of the huge function, which only takes part with three uses
const HUGE: u8 = 7;

#[derive(Copy, Clone, Debug, PartialEq, Eq, Hash)]
enum Use {
    Point { f: u8, input: u8 },
    Interval { f: u8, input: u8 },
    Float { f: u8, input: u8 },
    Grad { f: u8, input: u8 },
    /// simplify f with the trace of box `input`, evaluate the child, recycle it
    Simplify { f: u8, input: u8 },
}

/// What a use observes (bit patterns)
#[derive(Clone, Debug, PartialEq, Eq)]
struct Obs {
    out: Vec<u32>,
    trace: Option<Vec<u8>>,
    extra: Vec<u64>,
}

struct Fun<F: Backend> {
    f: F,
    nvars: usize,
}

fn point_input(nvars: usize, input: u8) -> Vec<f32> {
    (0..nvars)
        .map(|i| if input == 0 { 0.75 - i as f32 * 0.5 } else { -1.25 + i as f32 * 0.75 })
        .collect()
}

fn box_input(nvars: usize, input: u8) -> Vec<Interval> {
    (0..nvars)
        .map(|i| {
            if input == 0 {
                Interval::new(-1.0 + i as f32 * 0.25, 0.5 + i as f32 * 0.25)
            } else {
                Interval::new(0.75 + i as f32, 0.75 + i as f32)
            }
        })
        .collect()
}

/// Slice length of a bulk use.  It depends on the function as well as on the
/// input, so that histories contain "longer slice, then a shorter one that is
/// still longer than a SIMD vector and not a multiple of it" (20 -> 12, 13 ->
/// 12) next to lengths below the SIMD width
fn lanes(f: u8, input: u8) -> usize {
    match (f % 2, input) {
        (0, 0) => 5,
        (0, _) => 13,
        (_, 0) => 12,
        _ => 20,
    }
}

fn tr(t: Option<&VmTrace>) -> Option<Vec<u8>> {
    t.map(|t| t.as_slice().iter().map(|c| *c as u8).collect())
}

/// The shared, long-lived objects
struct World<F: Backend> {
    pe: F::PointEval,
    ie: F::IntervalEval,
    fe: F::FloatSliceEval,
    ge: F::GradSliceEval,
    tape_storage: Vec<F::TapeStorage>,
    fn_storage: Vec<F::Storage>,
    workspace: F::Workspace,
}

impl<F: Backend> World<F> {
    fn fresh() -> Self {
        World {
            pe: F::new_point_eval(),
            ie: F::new_interval_eval(),
            fe: F::new_float_slice_eval(),
            ge: F::new_grad_slice_eval(),
            tape_storage: vec![],
            fn_storage: vec![],
            workspace: Default::default(),
        }
    }

    fn apply(&mut self, funs: &[Fun<F>], u: Use) -> Result<Obs, String> {
        guard(|| self.apply_inner(funs, u)).and_then(|r| r)
    }

    fn apply_inner(&mut self, funs: &[Fun<F>], u: Use) -> Result<Obs, String> {
        match u {
            Use::Point { f, input } => {
                let fun = &funs[f as usize];
                let tape = fun.f.point_tape(self.tape_storage.pop().unwrap_or_default());
                let args = point_input(fun.nvars, input);
                let (o, t) = self.pe.eval(&tape, &args).map_err(|e| format!("{e:?}"))?;
                let obs = Obs { out: o.iter().map(|v| v.to_bits()).collect(), trace: tr(t), extra: vec![] };
                self.tape_storage.extend(tape.recycle());
                Ok(obs)
            }
            Use::Interval { f, input } => {
                let fun = &funs[f as usize];
                let tape = fun.f.interval_tape(self.tape_storage.pop().unwrap_or_default());
                let args = box_input(fun.nvars, input);
                let (o, t) = self.ie.eval(&tape, &args).map_err(|e| format!("{e:?}"))?;
                let obs = Obs {
                    out: o.iter().flat_map(|v| [v.lower().to_bits(), v.upper().to_bits()]).collect(),
                    trace: tr(t),
                    extra: vec![],
                };
                self.tape_storage.extend(tape.recycle());
                Ok(obs)
            }
            Use::Float { f, input } => {
                let fun = &funs[f as usize];
                let tape = fun.f.float_slice_tape(self.tape_storage.pop().unwrap_or_default());
                let n = lanes(f, input);
                let cols: Vec<Vec<f32>> = (0..fun.nvars)
                    .map(|v| (0..n).map(|l| 0.25 * l as f32 - 1.0 + v as f32 * 0.5).collect())
                    .collect();
                let o = self.fe.eval(&tape, &cols).map_err(|e| format!("{e:?}"))?;
                let mut out = vec![];
                for i in 0..o.len() {
                    out.extend(o[i].iter().map(|v| v.to_bits()));
                    out.push(0xdead_beef);
                }
                let obs = Obs { out, trace: None, extra: vec![o.len() as u64] };
                self.tape_storage.extend(tape.recycle());
                Ok(obs)
            }
            Use::Grad { f, input } => {
                let fun = &funs[f as usize];
                let tape = fun.f.grad_slice_tape(self.tape_storage.pop().unwrap_or_default());
                let n = lanes(f, input);
                let cols: Vec<Vec<Grad>> = (0..fun.nvars)
                    .map(|v| {
                        (0..n)
                            .map(|l| {
                                let x = 0.25 * l as f32 - 1.0 + v as f32 * 0.5;
                                match v % 3 {
                                    0 => Grad::new(x, 1.0, 0.0, 0.0),
                                    1 => Grad::new(x, 0.0, 1.0, 0.0),
                                    _ => Grad::new(x, 0.0, 0.0, 1.0),
                                }
                            })
                            .collect()
                    })
                    .collect();
                let o = self.ge.eval(&tape, &cols).map_err(|e| format!("{e:?}"))?;
                let mut out = vec![];
                for i in 0..o.len() {
                    for g in o[i].iter() {
                        out.extend([g.v.to_bits(), g.dx.to_bits(), g.dy.to_bits(), g.dz.to_bits()]);
                    }
                    out.push(0xdead_beef);
                }
                let obs = Obs { out, trace: None, extra: vec![o.len() as u64] };
                self.tape_storage.extend(tape.recycle());
                Ok(obs)
            }
            Use::Simplify { f, input } => {
                let fun = &funs[f as usize];
                let tape = fun.f.interval_tape(self.tape_storage.pop().unwrap_or_default());
                let args = box_input(fun.nvars, input);
                let (_, t) = self.ie.eval(&tape, &args).map_err(|e| format!("{e:?}"))?;
                let trace: Option<VmTrace> = t.cloned();
                self.tape_storage.extend(tape.recycle());
                let Some(trace) = trace else {
                    return Ok(Obs { out: vec![], trace: None, extra: vec![0] });
                };
                let storage = self.fn_storage.pop().unwrap_or_default();
                let child = fun.f.simplify(&trace, storage, &mut self.workspace).map_err(|e| format!("{e:?}"))?;
                // evaluate the child at the lower corner of the box, and on the box
                let pt: Vec<f32> = args.iter().map(|i| i.lower()).collect();
                let ctape = child.point_tape(self.tape_storage.pop().unwrap_or_default());
                let (o, t2) = self.pe.eval(&ctape, &pt).map_err(|e| format!("{e:?}"))?;
                let mut out: Vec<u32> = o.iter().map(|v| v.to_bits()).collect();
                let trace2 = tr(t2);
                self.tape_storage.extend(ctape.recycle());
                let itape = child.interval_tape(self.tape_storage.pop().unwrap_or_default());
                let (o, _) = self.ie.eval(&itape, &args).map_err(|e| format!("{e:?}"))?;
                out.extend(o.iter().flat_map(|v| [v.lower().to_bits(), v.upper().to_bits()]));
                self.tape_storage.extend(itape.recycle());
                let extra = vec![1, child.size() as u64, child.choice_count() as u64, child.output_count() as u64];
                let ops: Vec<String> = child.reg_ops().iter().map(|o| format!("{o:?}")).collect();
                let mut h = std::collections::hash_map::DefaultHasher::new();
                use std::hash::{Hash, Hasher};
                ops.hash(&mut h);
                let mut extra = extra;
                extra.push(h.finish());
                self.fn_storage.extend(child.recycle());
                Ok(Obs { out, trace: trace2, extra })
            }
        }
    }
}

fn build_pool<F: Backend>() -> Vec<Fun<F>> {
    pool_progs()
        .into_iter()
        .map(|(_, p)| {
            let mut ctx = Context::new();
            let roots = p.build(&mut ctx);
            let flat = Flat::from_ctx(&ctx, &roots);
            let f = evalkit::build::<F>(&ctx, &roots).expect("pool function");
            let nvars = f.vars().len().max(flat.vars.len());
            Fun { f, nvars }
        })
        .collect()
}

fn alphabet(nf: usize, fs: &[u8]) -> Vec<Use> {
    let mut v = vec![];
    for &f in fs {
        if f as usize >= nf {
            continue;
        }
        if f == HUGE {
            v.push(Use::Point { f, input: 0 });
            v.push(Use::Float { f, input: 0 });
            v.push(Use::Simplify { f, input: 0 });
            continue;
        }
        for input in 0..2u8 {
            v.push(Use::Point { f, input });
            v.push(Use::Interval { f, input });
            v.push(Use::Float { f, input });
            v.push(Use::Grad { f, input });
            v.push(Use::Simplify { f, input });
        }
    }
    v
}

/// All sequences with the given first use, up to `depth`
fn explore<F: Backend>(cx: &mut Cx, sub: &mut u64, funs: &[Fun<F>], alpha: &[Use], first: Use, depth: usize) {
    let names: Vec<&str> = pool_progs().iter().map(|p| p.0).collect();
    // expected observation of every use on fresh objects
    let mut expected: std::collections::HashMap<Use, Result<Obs, String>> = std::collections::HashMap::new();
    for u in alpha {
        expected.insert(*u, World::<F>::fresh().apply(funs, *u));
    }
    let mut seqs: Vec<Vec<Use>> = vec![vec![first]];
    let mut frontier = seqs.clone();
    for _ in 1..depth {
        let mut next = vec![];
        for s in &frontier {
            for u in alpha {
                let mut q = s.clone();
                q.push(*u);
                next.push(q);
            }
        }
        seqs.extend(next.iter().cloned());
        frontier = next;
    }
    // only maximal sequences need to run (prefixes are covered by them)
    for seq in seqs.iter().filter(|s| s.len() == depth) {
        let s = *sub;
        *sub += 1;
        if !cx.case(s) {
            continue;
        }
        cx.add("cases", 1);
        cx.add("nontrivial", 1);
        let mut w = World::<F>::fresh();
        let desc = || {
            json!({"backend": F::NAME, "sequence": seq.iter().map(|u| format!("{u:?}")).collect::<Vec<_>>(),
                   "functions": names})
        };
        for (i, u) in seq.iter().enumerate() {
            cx.add("evals", 1);
            let got = w.apply(funs, *u);
            let want = &expected[u];
            if &got != want {
                let kind = match u {
                    Use::Point { .. } => "point eval",
                    Use::Interval { .. } => "interval eval",
                    Use::Float { .. } => "float-slice eval",
                    Use::Grad { .. } => "grad-slice eval",
                    Use::Simplify { .. } => "simplify",
                };
                let prev = if i > 0 { format!("{:?}", seq[i - 1]) } else { "nothing".into() };
                cx.violation(
                    format!("{} {kind} result depends on what the reused objects did before", F::NAME),
                    desc(),
                    format!(
                        "step {i} {u:?} (function `{}`) after {prev}: reused objects gave {}, fresh objects give {}",
                        names[match u {
                            Use::Point { f, .. } | Use::Interval { f, .. } | Use::Float { f, .. } | Use::Grad { f, .. } | Use::Simplify { f, .. } => *f as usize,
                        }],
                        short(&got),
                        short(want)
                    ),
                );
                break;
            }
        }
        if s % 997 == 0 {
            cx.sample(desc);
        }
    }
}

fn short(r: &Result<Obs, String>) -> String {
    match r {
        Err(e) => format!("a crash/error: {e}"),
        Ok(o) => {
            let vals: Vec<String> = o.out.iter().take(8).map(|b| format!("{:?}", f32::from_bits(*b))).collect();
            format!("out[..8]={vals:?} ({} words) trace={:?} extra={:?}", o.out.len(), o.trace.as_ref().map(|t| t.iter().take(8).collect::<Vec<_>>()), o.extra)
        }
    }
}

/// Union of two disks, each clipped by two half-planes that share x and y
/// with the disk: min(max(max(x-a, y-b), disk), max(max(x-c, y-d), disk'))
pub fn clipped_disks() -> Prog {
    let mut p = Prog::default();
    let x = p.push(POp::Var(0));
    let y = p.push(POp::Var(1));
    let mut part = |p: &mut Prog, a: f32, b: f32, cx: f32, cy: f32, r2: f32| {
        let ka = p.push(POp::Const(a));
        let xa = p.push(POp::Bin(B::Sub, x, ka));
        let kb = p.push(POp::Const(b));
        let yb = p.push(POp::Bin(B::Sub, y, kb));
        let half = p.push(POp::Bin(B::Max, xa, yb));
        let kx = p.push(POp::Const(cx));
        let dx = p.push(POp::Bin(B::Sub, x, kx));
        let ky = p.push(POp::Const(cy));
        let dy = p.push(POp::Bin(B::Sub, y, ky));
        let sx = p.push(POp::Un(U::Square, dx));
        let sy = p.push(POp::Un(U::Square, dy));
        let s = p.push(POp::Bin(B::Add, sx, sy));
        let kr = p.push(POp::Const(r2));
        let disk = p.push(POp::Bin(B::Sub, s, kr));
        p.push(POp::Bin(B::Max, half, disk))
    };
    let a = part(&mut p, -0.5625, 0.5, -0.9375, 0.1875, 0.3125);
    let b = part(&mut p, 0.0, -0.0, -0.75, -0.6875, 0.125);
    let r = p.push(POp::Bin(B::Min, a, b));
    p.roots = vec![r];
    p
}

/// RenderHandle: all orders of simplify (cache hit / miss) and recycle
fn render_handle_unit<F: Backend + fidget_core::render::RenderHints>(cx: &mut Cx, sub: &mut u64, depth: usize) {
    let mut progs = pool_progs();
    progs.push(("two clipped disks", clipped_disks()));
    let last = progs.len() - 1;
    for fi in [1usize, 6, last] {
        let p = &progs[fi].1;
        let mut ctx = Context::new();
        let roots = p.build(&mut ctx);
        let Ok(f) = evalkit::build::<F>(&ctx, &roots) else { continue };
        let nv = f.vars().len();
        // Trace discovery: the boxes of 3^nv, 6^nv, 12^nv and 2^nv grids over [-1.5, 1.5]^nv (plus
        // three fixed boxes) are evaluated; the distinct traces are classified
        // by whether simplifying with them shortens the function (if not, the
        // handle caches nothing and evicts what it had) and up to three
        // shortening + two non-shortening traces form the alphabet.
        let mut cand: Vec<Vec<Interval>> = vec![
            (0..nv).map(|i| Interval::new(-1.0 + i as f32, -0.5 + i as f32)).collect(),
            (0..nv).map(|i| Interval::new(0.75 + i as f32 * 0.5, 1.0 + i as f32 * 0.5)).collect(),
            (0..nv).map(|i| Interval::new(2.0 - i as f32, 2.0 - i as f32)).collect(),
        ];
        for (g, w) in [(3usize, 1.0f32), (6, 0.5), (12, 0.25), (2, 1.5)] {
            for k in 0..g.pow(nv as u32) {
                cand.push(
                    (0..nv)
                        .map(|i| {
                            let c = (k / g.pow(i as u32)) % g;
                            Interval::new(-1.5 + w * c as f32, -1.5 + w * (c + 1) as f32)
                        })
                        .collect(),
                );
            }
        }
        let mut boxes: Vec<Vec<Interval>> = vec![];
        let mut traces: Vec<Option<VmTrace>> = vec![];
        let (mut n_short, mut n_same) = (0, 0);
        for b in cand {
            let t = f.interval_tape(Default::default());
            let Some(tr) = F::new_interval_eval().eval(&t, &b).ok().and_then(|(_, t)| t.cloned()) else { continue };
            if traces.iter().flatten().any(|o| o.as_slice() == tr.as_slice()) {
                continue;
            }
            let Ok(c) = f.simplify(&tr, Default::default(), &mut Default::default()) else { continue };
            let shortens = c.size() < f.size();
            if std::env::var("FV_DEBUG_SIZES").is_ok() {
                println!("fi={fi} trace={:?} parent={} child={} box={:?}", tr.as_slice(), f.size(), c.size(), b);
            }
            if (shortens && n_short < 3) || (!shortens && n_same < 2) {
                if shortens { n_short += 1 } else { n_same += 1 }
                boxes.push(b);
                traces.push(Some(tr));
            }
        }
        cx.add("render_handle_traces_shortening", n_short);
        cx.add("render_handle_traces_not_shortening", n_same);
        let nt = traces.len();
        let pts: Vec<Vec<f32>> = boxes.iter().map(|b| b.iter().map(|i| i.lower()).collect()).collect();
        // expected value of the original function at each point
        let expect: Vec<Vec<u32>> = pts
            .iter()
            .map(|pt| evalkit::eval_point(&f, pt).map(|(o, _)| o.iter().map(|v| v.to_bits()).collect()).unwrap_or_default())
            .collect();
        // sequences over the trace alphabet
        let mut seqs: Vec<Vec<usize>> = vec![vec![]];
        for _ in 0..depth {
            seqs = seqs.into_iter().flat_map(|s| (0..nt).map(move |t| { let mut q = s.clone(); q.push(t); q })).collect();
        }
        for seq in seqs {
            let s = *sub;
            *sub += 1;
            if !cx.case(s) {
                continue;
            }
            cx.add("cases", 1);
            cx.add("render_handle_sequences", 1);
            let desc = || json!({"backend": F::NAME, "function": progs[fi].0, "render_handle_simplify_sequence": seq});
            let r = guard(|| {
                let mut rh = RenderHandle::new(Shape::new_raw(f.clone()));
                let mut ws: F::Workspace = Default::default();
                let mut ss: Vec<F::Storage> = vec![];
                let mut ts: Vec<F::TapeStorage> = vec![];
                let mut pe = Shape::<F>::new_point_eval();
                let mut bad: Option<String> = None;
                for (step, ti) in seq.iter().enumerate() {
                    let Some(trace) = &traces[*ti] else { continue };
                    let child = rh.simplify(trace, &mut ws, &mut ss, &mut ts);
                    // the child's float-slice tape evaluated at the traced point
                    let pt = &pts[*ti];
                    // `pt` is indexed by the function's variable map; the Shape
                    // API wants x, y, z by identity
                    let by = |v: fidget_core::var::Var| f.vars().get(&v).map(|i| pt[i]).unwrap_or(0.0);
                    let (x, y, z) = (by(fidget_core::var::Var::X), by(fidget_core::var::Var::Y), by(fidget_core::var::Var::Z));
                    let mut fe = Shape::<F>::new_float_slice_eval();
                    let v = fe.eval(child.f_tape(&mut ts), &[x], &[y], &[z]).map(|o| o[0].to_bits());
                    let _ = &mut pe;
                    match v {
                        Ok(b) => {
                            if vec![b] != expect[*ti] {
                                bad = Some(format!("step {step} (trace {ti}): simplified handle evaluates to {:?}, the function gives {:?}", f32::from_bits(b), expect[*ti].iter().map(|b| f32::from_bits(*b)).collect::<Vec<_>>()));
                                break;
                            }
                        }
                        Err(e) => {
                            bad = Some(format!("step {step}: {e}"));
                            break;
                        }
                    }
                }
                rh.recycle(&mut ss, &mut ts);
                bad
            });
            cx.add("evals", seq.len() as u64);
            match r {
                Ok(None) => (),
                Ok(Some(m)) => cx.violation(format!("{} RenderHandle reuse changed a result", F::NAME), desc(), m),
                Err(e) => cx.violation(format!("{} RenderHandle reuse panicked {}", F::NAME, panic_site(&e)), desc(), e),
            }
        }
    }
}

/// Shape-level evaluators (ShapeTracingEval / ShapeBulkEval keep scratch of
/// their own): every sequence of (shape, batch size, transform?) uses through
/// ONE evaluator per kind, compared with a fresh evaluator
fn shape_eval_unit<F: Backend>(cx: &mut Cx, sub: &mut u64, depth: usize) {
    use fidget_core::shape::{EzShape, ShapeVars};
    // shapes with 1, 3, 5 and 2 variables (free variables Var(4), Var(5))
    let mk = |f: &dyn Fn(&mut Prog) -> usize| {
        let mut p = Prog::default();
        let r = f(&mut p);
        p.roots = vec![r];
        p
    };
    let progs: Vec<(&str, Prog)> = vec![
        ("x", mk(&|p| p.push(POp::Var(0)))),
        ("x+y+z", mk(&|p| {
            let (x, y, z) = (p.push(POp::Var(0)), p.push(POp::Var(1)), p.push(POp::Var(2)));
            let a = p.push(POp::Bin(B::Add, x, y));
            p.push(POp::Bin(B::Add, a, z))
        })),
        ("(x+y+z)+a*b", mk(&|p| {
            let (x, y, z) = (p.push(POp::Var(0)), p.push(POp::Var(1)), p.push(POp::Var(2)));
            let (a, b) = (p.push(POp::Var(4)), p.push(POp::Var(5)));
            let s = p.push(POp::Bin(B::Add, x, y));
            let s = p.push(POp::Bin(B::Add, s, z));
            let m = p.push(POp::Bin(B::Mul, a, b));
            p.push(POp::Bin(B::Add, s, m))
        })),
        ("x*b", mk(&|p| {
            let (x, b) = (p.push(POp::Var(0)), p.push(POp::Var(5)));
            p.push(POp::Bin(B::Mul, x, b))
        })),
    ];
    let shapes: Vec<Shape<F>> = progs
        .iter()
        .filter_map(|(_, p)| {
            let mut ctx = Context::new();
            let roots = p.build(&mut ctx);
            evalkit::build::<F>(&ctx, &roots).ok().map(Shape::new_raw)
        })
        .collect();
    if shapes.len() != progs.len() {
        return;
    }
    let mut vars = ShapeVars::<f32>::new();
    for (i, v) in [(4usize, 1.5f32), (5, -0.75), (3, 9.0)] {
        if let fidget_core::var::Var::V(ix) = crate::prog::var_by_index(i) {
            vars.insert(ix, v);
        }
    }
    let sizes = [1usize, 4, 8, 13];
    let mat = nalgebra::Matrix4::new_translation(&nalgebra::Vector3::new(0.5, -1.0, 0.25)) * nalgebra::Matrix4::new_scaling(2.0);
    // a use = (shape, size index, with transform?)
    let uses: Vec<(usize, usize, bool)> = (0..shapes.len()).flat_map(|s| (0..sizes.len()).flat_map(move |n| [false, true].map(move |t| (s, n, t)))).collect();
    let xs = |n: usize| -> (Vec<f32>, Vec<f32>, Vec<f32>) {
        ((0..n).map(|i| 0.25 * i as f32 - 1.0).collect(), (0..n).map(|i| 0.5 - 0.125 * i as f32).collect(), (0..n).map(|i| 0.75 * (i % 3) as f32).collect())
    };
    for kind in 0..4usize {
        let mut seqs: Vec<Vec<usize>> = vec![vec![]];
        for _ in 0..depth {
            seqs = seqs.into_iter().flat_map(|q| (0..uses.len()).map(move |u| { let mut r = q.clone(); r.push(u); r })).collect();
        }
        // tracing evaluators take one sample: only the first size is used
        for seq in seqs {
            if kind >= 2 && seq.iter().any(|u| uses[*u].1 != 0) {
                continue;
            }
            let s = *sub;
            *sub += 1;
            if !cx.case(s) {
                continue;
            }
            cx.add("cases", 1);
            cx.add("shape_evaluator_sequences", 1);
            let kname = ["float-slice", "grad-slice", "point", "interval"][kind];
            let desc = || json!({"backend": F::NAME, "shape_evaluator": kname,
                "sequence": seq.iter().map(|u| format!("{} on {} samples{}", progs[uses[*u].0].0, sizes[uses[*u].1], if uses[*u].2 { " with transform" } else { "" })).collect::<Vec<_>>()});
            let r = guard(|| -> Option<String> {
                let mut fe = Shape::<F>::new_float_slice_eval();
                let mut ge = Shape::<F>::new_grad_slice_eval();
                let mut pe = Shape::<F>::new_point_eval();
                let mut ie = Shape::<F>::new_interval_eval();
                for (step, u) in seq.iter().enumerate() {
                    let (si, ni, tr) = uses[*u];
                    let sh = &shapes[si];
                    let n = sizes[ni];
                    let (x, y, z) = xs(n);
                    let m = if tr { Some(&mat) } else { None };
                    let run = |fe: &mut fidget_core::shape::ShapeBulkEval<F::FloatSliceEval>,
                               ge: &mut fidget_core::shape::ShapeBulkEval<F::GradSliceEval>,
                               pe: &mut fidget_core::shape::ShapeTracingEval<F::PointEval>,
                               ie: &mut fidget_core::shape::ShapeTracingEval<F::IntervalEval>|
                     -> Result<Vec<u32>, String> {
                        match kind {
                            0 => {
                                let t = sh.ez_float_slice_tape();
                                let o = match m {
                                    Some(m) => fe.eval_with_transform_and_vars(&t, &x, &y, &z, m, &vars),
                                    None => fe.eval_with_vars(&t, &x, &y, &z, &vars),
                                };
                                o.map(|o| o.iter().map(|v| v.to_bits()).collect()).map_err(|e| format!("{e}"))
                            }
                            1 => {
                                let t = sh.ez_grad_slice_tape();
                                let gx: Vec<Grad> = x.iter().map(|v| Grad::new(*v, 1.0, 0.0, 0.0)).collect();
                                let gy: Vec<Grad> = y.iter().map(|v| Grad::new(*v, 0.0, 1.0, 0.0)).collect();
                                let gz: Vec<Grad> = z.iter().map(|v| Grad::new(*v, 0.0, 0.0, 1.0)).collect();
                                let o = match m {
                                    Some(m) => ge.eval_with_transform_and_vars(&t, &gx, &gy, &gz, m, &vars),
                                    None => ge.eval_with_vars(&t, &gx, &gy, &gz, &vars),
                                };
                                o.map(|o| o.iter().flat_map(|g| [g.v.to_bits(), g.dx.to_bits(), g.dy.to_bits(), g.dz.to_bits()]).collect()).map_err(|e| format!("{e}"))
                            }
                            2 => {
                                let t = sh.ez_point_tape();
                                let o = match m {
                                    Some(m) => pe.eval_with_transform_and_vars(&t, x[0], y[0], z[0], m, &vars),
                                    None => pe.eval_with_vars(&t, x[0], y[0], z[0], &vars),
                                };
                                o.map(|(v, _)| vec![v.to_bits()]).map_err(|e| format!("{e}"))
                            }
                            _ => {
                                let t = sh.ez_interval_tape();
                                let b = |v: f32| Interval::new(v - 0.25, v + 0.5);
                                let o = match m {
                                    Some(m) => ie.eval_with_transform_and_vars(&t, b(x[0]), b(y[0]), b(z[0]), m, &vars),
                                    None => ie.eval_with_vars(&t, b(x[0]), b(y[0]), b(z[0]), &vars),
                                };
                                o.map(|(v, _)| vec![v.lower().to_bits(), v.upper().to_bits()]).map_err(|e| format!("{e}"))
                            }
                        }
                    };
                    let got = run(&mut fe, &mut ge, &mut pe, &mut ie);
                    let want = run(
                        &mut Shape::<F>::new_float_slice_eval(),
                        &mut Shape::<F>::new_grad_slice_eval(),
                        &mut Shape::<F>::new_point_eval(),
                        &mut Shape::<F>::new_interval_eval(),
                    );
                    if got != want {
                        return Some(format!("step {step}: reused evaluator gives {:?}, a fresh one {:?}", got.map(|v| v.len()), want.map(|v| v.len())));
                    }
                }
                None
            });
            cx.add("evals", seq.len() as u64 * 2);
            cx.add("nontrivial", 1);
            match r {
                Ok(None) => (),
                Ok(Some(m)) => cx.violation(format!("{} shape-level {kname} evaluator reuse changed a result", F::NAME), desc(), m),
                Err(e) => cx.violation(format!("{} shape-level {kname} evaluator reuse panicked {}", F::NAME, panic_site(&e)), desc(), e),
            }
        }
    }
}

#[derive(Clone, Debug)]
enum Unit {
    /// workspace / storage hand-over between every ordered pair of a panel of
    /// pressure programs (round 10)
    Handover { backend: u8 },
    Seq { backend: u8, first: usize },
    Handles { backend: u8 },
    ShapeEvals { backend: u8 },
}

fn full_alpha_len() -> usize {
    7 * 2 * 5 + 3
}

fn units(_tier: Tier) -> Vec<Unit> {
    let mut v = vec![];
    for backend in 0..3u8 {
        v.push(Unit::Handover { backend });
        v.push(Unit::Handles { backend });
        v.push(Unit::ShapeEvals { backend });
        for first in 0..full_alpha_len() {
            v.push(Unit::Seq { backend, first });
        }
    }
    v
}

/// Panel for the hand-over unit: programs whose allocation passes through the
/// allocator's rarely taken arms - a binary op on operands that are spilled at
/// that point, including op(a, a) - each with a decided root choice, so that an
/// interval trace exists and `simplify` re-allocates the whole body with the
/// shared workspace.  Small pressure (3 live values: spills in VM<3>) and wide
/// pressure (14 live values across calls: spills in the 12-register JIT).
fn handover_panel() -> Vec<(String, Prog)> {
    let mut v = vec![];
    let ops = [B::Sub, B::Div, B::Atan, B::Compare, B::Mod, B::And, B::Or, B::Add, B::Mul, B::Min, B::Max];
    for b in ops {
        for same in [true, false] {
            // ((y+z)*z - b(z, z|y)) - (y+z) - z, guarded by min(., 1e6)
            let mut p = Prog::default();
            let _x = p.push(POp::Var(0));
            let y = p.push(POp::Var(1));
            let z = p.push(POp::Var(2));
            let t = p.push(POp::Bin(B::Add, y, z));
            let u = p.push(POp::Bin(B::Mul, t, z));
            let d = p.push(POp::Bin(b, z, if same { z } else { y }));
            let a = p.push(POp::Bin(B::Sub, u, d));
            let c = p.push(POp::Bin(B::Sub, a, t));
            let e = p.push(POp::Bin(B::Sub, c, z));
            let big = p.push(POp::Const(1e6));
            let r = p.push(POp::Bin(B::Min, e, big));
            p.roots = vec![r];
            v.push((format!("min(((y+z)*z - {b:?}(z,{})) - (y+z) - z, 1e6)", if same { "z" } else { "y" }), p));
        }
        for j in [0usize, 7, 13] {
            // 14 values sin(x + i) live at once, b(v_j, v_j) computed first, all summed in reverse
            let mut p = Prog::default();
            let x = p.push(POp::Var(0));
            let vs: Vec<usize> = (0..14)
                .map(|i| {
                    let k = p.push(POp::Const(i as f32 * 0.25));
                    let s = p.push(POp::Bin(B::Add, x, k));
                    p.push(POp::Un(U::Sin, s))
                })
                .collect();
            let mut acc = p.push(POp::Bin(b, vs[j], vs[j]));
            for i in (0..14).rev() {
                acc = p.push(POp::Bin(B::Add, acc, vs[i]));
            }
            let big = p.push(POp::Const(1e6));
            let r = p.push(POp::Bin(B::Min, acc, big));
            p.roots = vec![r];
            v.push((format!("min({b:?}(v{j},v{j}) + sum of 14 live sin values, 1e6)"), p));
        }
    }
    let base = pool_progs();
    for i in [1usize, 3, 6] {
        v.push((base[i].0.to_owned(), base[i].1.clone()));
    }
    v
}

fn handover_unit<F: Backend>(cx: &mut Cx, tier: Tier) {
    let panel = handover_panel();
    let funs: Vec<Fun<F>> = panel
        .iter()
        .map(|(_, p)| {
            let mut ctx = Context::new();
            let roots = p.build(&mut ctx);
            let flat = Flat::from_ctx(&ctx, &roots);
            let f = evalkit::build::<F>(&ctx, &roots).expect("panel function");
            let nvars = f.vars().len().max(flat.vars.len());
            Fun { f, nvars }
        })
        .collect();
    let n = funs.len();
    let uses: Vec<Use> = (0..n).map(|f| Use::Simplify { f: f as u8, input: 0 }).collect();
    let expected: Vec<Result<Obs, String>> = uses.iter().map(|u| World::<F>::fresh().apply(&funs, *u)).collect();
    for (i, e) in expected.iter().enumerate() {
        if matches!(e, Ok(o) if o.extra.first() == Some(&1)) {
            cx.add("handover_functions_with_a_trace", 1);
        } else if let Err(m) = e {
            cx.violation(format!("{} simplify on fresh objects fails", F::NAME), json!({"function": panel[i].0}), m.clone());
        }
    }
    let mut sub = 0u64;
    // thorough: also every triple over the op(a,a) programs of the small-pressure family
    let third: Vec<Option<usize>> = if tier == Tier::Thorough { std::iter::once(None).chain((0..n).step_by(5).map(Some)).collect() } else { vec![None] };
    for a in 0..n {
        for b in 0..n {
            for c in &third {
                let sid = sub;
                sub += 1;
                if !cx.case(sid) {
                    continue;
                }
                cx.add("cases", 1);
                cx.add("nontrivial", 1);
                cx.add("handover_sequences", 1);
                let mut w = World::<F>::fresh();
                let mut seq = vec![a, b];
                if let Some(c) = c {
                    seq.push(*c);
                }
                for (k, &f) in seq.iter().enumerate() {
                    cx.add("evals", 1);
                    let got = w.apply(&funs, uses[f]);
                    if got != expected[f] {
                        cx.violation(
                            format!("{} simplify result depends on what the workspace / storage was used for before", F::NAME),
                            json!({"backend": F::NAME, "sequence": seq.iter().map(|i| panel[*i].0.clone()).collect::<Vec<_>>(), "step": k}),
                            format!("step {k} (simplify {}): on shared objects {}, on fresh objects {}", panel[f].0, short(&got), short(&expected[f])),
                        );
                        break;
                    }
                }
            }
        }
    }
}

fn seq_unit<F: Backend>(cx: &mut Cx, tier: Tier, first: usize) {
    let funs = build_pool::<F>();
    let all: Vec<u8> = (0..8).collect();
    let full = alphabet(funs.len(), &all);
    let firstu = full[first];
    let mut sub = 0u64;
    match tier {
        Tier::Quick => {
            // depth 2 over the full alphabet; depth 3 over the four most
            // differently shaped functions
            explore::<F>(cx, &mut sub, &funs, &full, firstu, 2);
            let small = alphabet(funs.len(), &[1, 2, 3, 6]);
            if small.contains(&firstu) {
                explore::<F>(cx, &mut sub, &funs, &small, firstu, 3);
            }
        }
        Tier::Thorough => {
            explore::<F>(cx, &mut sub, &funs, &full, firstu, 3);
            let small = alphabet(funs.len(), &[1, 2, 3, 6]);
            if small.contains(&firstu) {
                explore::<F>(cx, &mut sub, &funs, &small, firstu, 4);
            }
        }
    }
}

impl Check for C10 {
    fn id(&self) -> &'static str {
        "C10"
    }
    fn units(&self, tier: Tier) -> usize {
        units(tier).len()
    }
    fn unit_label(&self, tier: Tier, unit: usize) -> String {
        format!("{:?}", units(tier)[unit])
    }
    fn meta(&self, tier: Tier) -> Meta {
        Meta {
            rule: "case = sequence of uses executed on shared long-lived objects; function pool of 8 differently shaped functions {no choice / 2 vars; 3 vars / 2 choices; 14 live values (spills); 3 outputs incl. a constant; a free variable; zero variables; 40 choices; a HUGE one with ~1400 simultaneously live values (> 1024 spill slots at every register budget, 8400 nodes) and one choice, taking part with 3 uses}; a use = (point | interval | float-slice | grad-slice evaluation, function, one of 2 inputs with different sample counts) or (simplify function with the trace of one of 2 boxes, evaluate and recycle the child); 73 uses; EVERY sequence up to the depth bound goes through ONE evaluator per kind, ONE stack of recycled tape storage (JIT: executable mappings larger / smaller than the next code), ONE stack of recycled function storage and ONE workspace; each step's outputs, trace and (for simplify) the child's tape must equal bit-for-bit the same call on fresh objects; RenderHandle: on 3 functions (2 choices; 40 choices; a union of two clipped disks) every sequence of simplify calls over up to 5 traces discovered on grids of boxes of four sizes - up to three that shorten the function differently and up to two that do not, which makes the handle evict without caching - (cached-next hit, miss, eviction, recycle) up to the depth bound; Shape-level evaluators (ShapeBulkEval / ShapeTracingEval): every sequence of uses (4 shapes with 1, 3, 5, 2 variables x batch sizes {1,4,8,13} x with / without transform) up to depth 2 (thorough 3) through one evaluator per kind vs a fresh one; hand-over panel (round 10): 58 programs whose allocation goes through the allocator's rare arms (a binary op - 11 opcodes - on operands spilled at that point, incl. op(a,a); 3 live values for VM<3>, 14 live values across calls for the JIT) each with a decided root choice: EVERY ordered pair (thorough: and triples with every 5th program third) is simplified through ONE workspace and ONE function-storage stack, each result (child tape hash, values, trace) equal to the same simplify on fresh objects; backends VM<255>, VM<3>, JIT; no state de-duplication (storage is opaque)".into(),
            bounds: match tier {
                Tier::Quick => "depth 2 over all 73 uses; depth 3 over the 40 uses of the 4 most differently shaped functions; RenderHandle depth 4".into(),
                Tier::Thorough => "depth 3 over all 73 uses; depth 4 over the 40-use sub-alphabet; RenderHandle depth 5".into(),
            },
            assumptions: vec!["observations are bit patterns of outputs, traces and, for simplify, size/choice count/tape hash of the child".into()],
            crash_policy: CrashPolicy::Violation,
            vacuity: vec![("cases", 5000), ("handover_functions_with_a_trace", 100), ("render_handle_sequences", 50), ("render_handle_traces_not_shortening", 1), ("render_handle_traces_shortening", 2)],
            transitions_counter: "evals",
            nontrivial_counter: "nontrivial",
            exhaustive: true,
        }
    }
    fn run_unit(&self, tier: Tier, unit: usize, cx: &mut Cx) {
        match units(tier)[unit].clone() {
            Unit::Seq { backend, first } => match backend {
                0 => seq_unit::<VmFunction>(cx, tier, first),
                1 => seq_unit::<GenericVmFunction<3>>(cx, tier, first),
                _ => seq_unit::<JitFunction>(cx, tier, first),
            },
            Unit::Handover { backend } => match backend {
                0 => handover_unit::<VmFunction>(cx, tier),
                1 => handover_unit::<GenericVmFunction<3>>(cx, tier),
                _ => handover_unit::<JitFunction>(cx, tier),
            },
            Unit::ShapeEvals { backend } => {
                let mut sub = 0u64;
                let depth = if tier == Tier::Quick { 2 } else { 3 };
                match backend {
                    0 => shape_eval_unit::<VmFunction>(cx, &mut sub, depth),
                    1 => shape_eval_unit::<GenericVmFunction<3>>(cx, &mut sub, depth),
                    _ => shape_eval_unit::<JitFunction>(cx, &mut sub, depth),
                }
            }
            Unit::Handles { backend } => {
                let mut sub = 0u64;
                let depth = if tier == Tier::Quick { 4 } else { 5 };
                match backend {
                    0 => render_handle_unit::<VmFunction>(cx, &mut sub, depth),
                    1 => render_handle_unit::<GenericVmFunction<3>>(cx, &mut sub, depth),
                    _ => render_handle_unit::<JitFunction>(cx, &mut sub, depth),
                }
            }
        }
    }
}

#[allow(dead_code)]
fn _unused(_: Choice) {}
