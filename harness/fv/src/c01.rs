//! C01 — compiled tapes compute exactly the expression they were built from
//! (interpreter, every register budget).  DESIGN.md §4 C01.
use crate::alpha;
use crate::prog::{self, DagSpec, OpSel, Order, POp, Prog};
use crate::refsem::{self, Flat, same32};
use crate::runner::{Check, CrashPolicy, Cx, Meta, Tier, guard, panic_site};
use fidget_core::compiler::RegOp;
use fidget_core::context::{BinaryOpcode as B, Context, Node, UnaryOpcode as U};
use fidget_core::eval::{BulkEvaluator, Function, TracingEvaluator};
use fidget_core::vm::{GenericVmFunction, VmData};
use serde_json::json;

pub const BUDGETS: [usize; 12] = [3, 4, 5, 6, 7, 8, 9, 10, 11, 12, 16, 255];

#[macro_export]
macro_rules! with_budget {
    ($n:expr, $f:ident, ($($a:expr),*)) => {
        match $n {
            1 => $f::<1>($($a),*),
            2 => $f::<2>($($a),*),
            3 => $f::<3>($($a),*),
            4 => $f::<4>($($a),*),
            5 => $f::<5>($($a),*),
            6 => $f::<6>($($a),*),
            7 => $f::<7>($($a),*),
            8 => $f::<8>($($a),*),
            9 => $f::<9>($($a),*),
            10 => $f::<10>($($a),*),
            11 => $f::<11>($($a),*),
            12 => $f::<12>($($a),*),
            16 => $f::<16>($($a),*),
            255 => $f::<255>($($a),*),
            n => panic!("budget {n} not instantiated"),
        }
    };
}

pub struct C01;

/// Structure-level generator
fn dag_spec() -> DagSpec {
    DagSpec {
        leaves: vec![POp::Var(0), POp::Var(1), POp::Const(2.5)],
        ops: vec![
            OpSel::Un(U::Neg),
            OpSel::Bin(B::Sub),
            OpSel::Bin(B::Min),
            OpSel::Bin(B::Add),
        ],
    }
}

/// Allocator-pressure generator: four variables and a non-commutative op, so
/// that at budget 3 / 4 every row of the allocator's operand table (register /
/// memory / unassigned for lhs and rhs, output in a register or in memory) is
/// reached with operands whose order matters
fn pressure_spec() -> DagSpec {
    DagSpec {
        leaves: vec![POp::Var(0), POp::Var(1), POp::Var(2), POp::Var(3)],
        ops: vec![OpSel::Bin(B::Sub), OpSel::Bin(B::Mul)],
    }
}

#[derive(Clone)]
enum Unit {
    Unary(U),
    Binary(B),
    Pressure { n: usize, prefix: Vec<POp> },
    Dag { n: usize, prefix: Vec<POp>, variants: bool },
    Fan { w: usize },
    Tree { w: usize },
    Stress { w: usize },
    /// output lists: every list of `len` output bindings over 5 nodes
    /// (repeats, a constant and a bare variable included)
    Outputs { len: usize },
    /// one node bound to the first and the last output with m others between
    FarRepeat { m: usize },
    /// `half` simultaneously live values (spill slot numbers beyond 255 / 1024)
    Huge { half: usize },
    /// root-only programs in which an op's operands are used again afterwards
    Reuse(B),
    TooSmall,
}

fn units(tier: Tier) -> Vec<Unit> {
    let mut v = vec![];
    for u in refsem::UNARY {
        v.push(Unit::Unary(u));
    }
    for b in refsem::BINARY {
        v.push(Unit::Binary(b));
    }
    v.push(Unit::TooSmall);
    let spec = dag_spec();
    let (nmax, nvar) = match tier {
        Tier::Quick => (3, 3),
        Tier::Thorough => (5, 4),
    };
    for n in 1..=nmax {
        for p in spec.prefixes(n) {
            v.push(Unit::Dag {
                n,
                prefix: p,
                variants: n <= nvar,
            });
        }
    }
    let pmax = match tier {
        Tier::Quick => 4,
        Tier::Thorough => 5,
    };
    let pspec = pressure_spec();
    for n in 2..=pmax {
        for p in pspec.prefixes(n) {
            v.push(Unit::Pressure { n, prefix: p });
        }
    }
    let wmax = match tier {
        Tier::Quick => 14,
        Tier::Thorough => 24,
    };
    for w in 1..=wmax {
        v.push(Unit::Fan { w });
        v.push(Unit::Tree { w });
        v.push(Unit::Stress { w });
    }
    for w in [30, 40] {
        v.push(Unit::Tree { w });
    }
    let lmax = match tier {
        Tier::Quick => 5,
        Tier::Thorough => 6,
    };
    for len in 1..=lmax {
        v.push(Unit::Outputs { len });
    }
    for m in 1..=16 {
        v.push(Unit::FarRepeat { m });
    }
    for half in [300usize, 1400] {
        v.push(Unit::Huge { half });
    }
    for b in refsem::BINARY {
        v.push(Unit::Reuse(b));
    }
    v
}

/// Statistics extracted from the emitted tape (non-vacuity)
struct TapeStats {
    loads: u64,
    stores: u64,
    real_ops: u64,
}

fn tape_stats<const N: usize>(d: &VmData<N>) -> TapeStats {
    let mut s = TapeStats {
        loads: 0,
        stores: 0,
        real_ops: 0,
    };
    for op in d.iter_asm() {
        match op {
            RegOp::Load(..) => s.loads += 1,
            RegOp::Store(..) => s.stores += 1,
            RegOp::Input(..) | RegOp::Output(..) | RegOp::CopyImm(..) => (),
            _ => s.real_ops += 1,
        }
    }
    s
}

/// Evaluates `roots` compiled at budget N on `points` (each a value per
/// `flat.vars`), comparing every output with `expected[point][output]`.
fn run_budget<const N: usize>(
    ctx: &Context,
    roots: &[Node],
    flat: &Flat,
    points: &[Vec<f32>],
    expected: &[Vec<(f32, bool)>],
    desc: &dyn Fn() -> serde_json::Value,
    cx: &mut Cx,
) {
    let data = match guard(|| VmData::<N>::new(ctx, roots)) {
        Ok(Ok(d)) => d,
        Ok(Err(e)) => {
            cx.violation(
                format!("tape-build error N={N}"),
                desc(),
                format!("VmData::<{N}>::new returned {e:?}"),
            );
            return;
        }
        Err(p) => {
            cx.violation(
                format!("tape-build panic {}", panic_site(&p)),
                desc(),
                format!("VmData::<{N}>::new panicked: {p}"),
            );
            return;
        }
    };
    cx.add("tapes", 1);
    let st = tape_stats(&data);
    if st.loads + st.stores > 0 {
        cx.add("tapes_with_spill", 1);
        cx.max("max_spill_ops_in_a_tape", st.loads + st.stores);
        if N == 3 {
            cx.add("tapes_with_spill_at_budget_3", 1);
        }
    }
    if st.real_ops > 0 {
        cx.add("nontrivial", 1);
    }
    if data.slot_count() > N {
        cx.max("max_memory_slots", (data.slot_count() - N) as u64);
    }
    let out_count = data.output_count();
    if out_count != roots.len() {
        cx.violation(
            format!("output_count N={N}"),
            desc(),
            format!("output_count {} != roots {}", out_count, roots.len()),
        );
    }
    let f = GenericVmFunction::<N>::from(data);
    let tape = f.point_tape(Default::default());
    let ftape = f.float_slice_tape(Default::default());

    // single-point evaluator
    for (pi, pt) in points.iter().enumerate() {
        let args = refsem::args_for(f.vars(), flat, pt);
        let mut ev = GenericVmFunction::<N>::new_point_eval();
        cx.add("evals", 1);
        let r = guard(|| ev.eval(&tape, &args).map(|(o, _t)| o.to_vec()));
        match r {
            Ok(Ok(out)) => compare(cx, N, "vm-point", pi, pt, &out, &expected[pi], desc),
            Ok(Err(e)) => cx.violation(
                format!("eval error vm-point N={N}"),
                desc(),
                format!("{e:?} at {pt:?}"),
            ),
            Err(p) => cx.violation(
                format!("eval panic vm-point {}", panic_site(&p)),
                desc(),
                format!("N={N} point {pt:?}: {p}"),
            ),
        }
    }
    // many-point evaluator: all points as lanes, and a single lane
    for lanes in [points.len(), 1usize] {
        let nv = f.vars().len();
        if nv == 0 {
            // no input slices: the API cannot convey a sample count
            cx.add("bulk_skipped_no_variables", 1);
            continue;
        }
        let mut cols: Vec<Vec<f32>> = vec![vec![0.0; lanes]; nv];
        for (l, pt) in points.iter().take(lanes).enumerate() {
            let args = refsem::args_for(f.vars(), flat, pt);
            for (v, a) in args.iter().enumerate() {
                cols[v][l] = *a;
            }
        }
        let mut ev = GenericVmFunction::<N>::new_float_slice_eval();
        cx.add("evals", 1);
        let r = guard(|| {
            ev.eval(&ftape, &cols).map(|o| {
                (0..o.len()).map(|i| o[i].to_vec()).collect::<Vec<Vec<f32>>>()
            })
        });
        match r {
            Ok(Ok(out)) => {
                if out.len() != roots.len() || out.iter().any(|o| o.len() != lanes) {
                    cx.violation(
                        format!("bulk output shape N={N}"),
                        desc(),
                        format!(
                            "{} outputs of lengths {:?}, wanted {} x {lanes}",
                            out.len(),
                            out.iter().map(|o| o.len()).collect::<Vec<_>>(),
                            roots.len()
                        ),
                    );
                    continue;
                }
                for (l, pt) in points.iter().take(lanes).enumerate() {
                    let got: Vec<f32> = out.iter().map(|o| o[l]).collect();
                    compare(cx, N, "vm-float-slice", l, pt, &got, &expected[l], desc);
                }
            }
            Ok(Err(e)) => cx.violation(
                format!("eval error vm-float-slice N={N}"),
                desc(),
                format!("{e:?}"),
            ),
            Err(p) => cx.violation(
                format!("eval panic vm-float-slice {}", panic_site(&p)),
                desc(),
                format!("N={N}: {p}"),
            ),
        }
    }
}

#[allow(clippy::too_many_arguments)]
fn compare(
    cx: &mut Cx,
    n: usize,
    kind: &str,
    _pi: usize,
    pt: &[f32],
    got: &[f32],
    expected: &[(f32, bool)],
    desc: &dyn Fn() -> serde_json::Value,
) {
    if got.len() != expected.len() {
        cx.violation(
            format!("output count {kind}"),
            desc(),
            format!("N={n}: {} outputs, expected {}", got.len(), expected.len()),
        );
        return;
    }
    for (i, (g, (e, amb))) in got.iter().zip(expected).enumerate() {
        if *amb {
            cx.add("outputs_skipped_zero_sign_tie", 1);
            continue;
        }
        cx.add("outputs_compared", 1);
        if !same32(*g, *e) {
            cx.violation(
                format!("value mismatch {kind} budget={}", budget_class(n)),
                desc(),
                format!(
                    "N={n} {kind} at {pt:?}: output {i} = {g:?} ({:#x}), graph evaluates to {e:?} ({:#x})",
                    g.to_bits(),
                    e.to_bits()
                ),
            );
        }
    }
}

fn budget_class(n: usize) -> &'static str {
    match n {
        0..=2 => "1-2",
        3 => "3",
        4..=8 => "4-8",
        9..=16 => "9-16",
        _ => "255",
    }
}

/// Checks one program at all budgets.  `sub` is the running case counter.
fn check_program(
    cx: &mut Cx,
    sub: &mut u64,
    p: &Prog,
    points: &[Vec<f32>],
    budgets: &[usize],
) {
    let mut ctx = Context::new();
    let roots = p.build(&mut ctx);
    let flat = Flat::from_ctx(&ctx, &roots);
    let h = flat.hash();
    // Reference values, and a cross-check of Context::eval against ref32
    let mut expected: Vec<Vec<(f32, bool)>> = vec![];
    let (mut vals, mut amb) = (vec![], vec![]);
    for pt in points {
        flat.eval_all(pt, &mut vals, &mut amb);
        expected.push(flat.roots.iter().map(|r| (vals[*r], amb[*r])).collect());
    }
    cx.add("programs", 1);
    for &n in budgets {
        let s = *sub;
        *sub += 1;
        if !cx.case(s) {
            continue;
        }
        cx.add("cases", 1);
        {
            use std::hash::{Hash, Hasher};
            let mut hh = std::collections::hash_map::DefaultHasher::new();
            (h, n).hash(&mut hh);
            let nontrivial = flat.ops.iter().any(|o| matches!(o, refsem::FOp::Un(..) | refsem::FOp::Bin(..)));
            cx.distinct(hh.finish(), nontrivial);
        }
        let desc = || {
            json!({"program": p.describe(), "context_graph": flat.describe(), "budget": n,
                   "points": points.iter().map(|p| format!("{p:?}")).collect::<Vec<_>>()})
        };
        with_budget!(n, run_budget, (&ctx, &roots, &flat, points, &expected, &desc, cx));
    }
    cx.sample(|| json!({"program": p.describe(), "budgets": budgets, "points": format!("{points:?}")}));
}

/// Cross-check: the repository's own tree-walking evaluator agrees with ref32
/// (so a C01 disagreement is attributed to the right party)
fn cross_check_ctx_eval(cx: &mut Cx, p: &Prog, pt: &[f32]) {
    let mut ctx = Context::new();
    let roots = p.build(&mut ctx);
    let flat = Flat::from_ctx(&ctx, &roots);
    let (mut vals, mut amb) = (vec![], vec![]);
    flat.eval_all(pt, &mut vals, &mut amb);
    let map: std::collections::HashMap<_, _> =
        flat.vars.iter().cloned().zip(pt.iter().cloned()).collect();
    for (i, r) in roots.iter().enumerate() {
        if let Ok(Ok(v)) = guard(|| ctx.eval(*r, &map)) {
            cx.add("context_eval_crosschecks", 1);
            let (e, a) = (vals[flat.roots[i]], amb[flat.roots[i]]);
            if !a && !same32(v, e) {
                cx.add("context_eval_disagrees_with_ref32", 1);
                cx.violation(
                    "oracle cross-check: Context::eval != ref32",
                    json!({"program": p.describe(), "point": format!("{pt:?}")}),
                    format!("Context::eval = {v:?}, ref32 = {e:?}"),
                );
            }
        }
    }
}

fn generic_points(nvars: usize) -> Vec<Vec<f32>> {
    let base = [
        [0.75f32, -1.25, 2.0],
        [-3.5, 0.375, -0.5],
        [0.0, -0.0, f32::INFINITY],
    ];
    base.iter()
        .map(|b| {
            (0..nvars)
                .map(|i| if i < 3 { b[i] } else { b[i % 3] * (i as f32 + 0.5) })
                .collect()
        })
        .collect()
}

impl Check for C01 {
    fn id(&self) -> &'static str {
        "C01"
    }

    fn units(&self, tier: Tier) -> usize {
        units(tier).len()
    }

    fn meta(&self, tier: Tier) -> Meta {
        Meta {
            rule: "case = (program, register budget N); programs: (a) every opcode x operand form {reg, reg/reg, same-reg, reg/imm, imm/reg, imm/imm} x value alphabet V (+op-specific boundary values) squared; (b) every DAG with 1..=n operation nodes over leaves {X,Y,2.5} and ops {neg,sub,min,add} (commutative operands ordered, identical nodes merged, every node used), root variants {last; last+first; leaf+last; const+last; orphan+last}; (c) families fan/tree/stress for every width w; (d) output lists: every list of up to 5 (thorough 6) output bindings over 5 nodes {x*2, y+1, x-y, 3, x} (repeated nodes, constants and bare variables as outputs) and one node bound to the first and last of m+2 outputs for m = 1..16; (e) for every binary opcode 11 root-only programs in which the op's operands are used again afterwards (register-sharing patterns); (f) budgets 1 and 2 - below the allocator's minimum - on every DAG and pressure DAG with <= 3 nodes and every reuse program: compiling or evaluating may panic or be right, never wrong; (g) two huge programs with 300 and 1400 simultaneously live values (spill slot numbers beyond 255 and 1024) at budgets 3, 12, 255; each at every budget N in {3..12,16,255} under the point evaluator (3 points) and the many-point evaluator (3 lanes and 1 lane); distinct = distinct (context graph hash, N); non-trivial = tape contains at least one arithmetic op".into(),
            bounds: match tier {
                Tier::Quick => "DAG nodes <= 3 (root variants for all), family width <= 14 (+tree 30,40)".into(),
                Tier::Thorough => "DAG nodes <= 5 (root variants for n <= 4), family width <= 24 (+tree 30,40)".into(),
            },
            assumptions: vec![
                "reference semantics ref32 (f32 ops as documented, Rust std libm) evaluated on the graph the Context actually holds (read through Context::get_op)".into(),
                "outputs depending on a min/max tie between zeros of different sign are not compared (IEEE-754 leaves that sign open); counted as outputs_skipped_zero_sign_tie".into(),
                "budgets 13..=254 other than 16 are not instantiated (DESIGN.md §4)".into(),
            ],
            crash_policy: CrashPolicy::Violation,
            vacuity: vec![("tapes_with_spill_at_budget_3", 1), ("tapes_with_spill", 100), ("outputs_compared", 1000)],
            transitions_counter: "evals",
            nontrivial_counter: "nontrivial",
            exhaustive: true,
        }
    }

    fn run_unit(&self, tier: Tier, unit: usize, cx: &mut Cx) {
        let u = units(tier)[unit].clone();
        let mut sub = 0u64;
        match u {
            Unit::Unary(op) => {
                let vals = alpha::unary_values(op, true);
                // reg form: one program, all values as points
                let mut p = Prog::default();
                let x = p.push(POp::Var(0));
                let r = p.push(POp::Un(op, x));
                p.roots = vec![r];
                let pts: Vec<Vec<f32>> = vals.iter().map(|v| vec![*v]).collect();
                check_program(cx, &mut sub, &p, &pts, &[3, 4, 255]);
                for pt in &pts {
                    cross_check_ctx_eval(cx, &p, pt);
                }
                // imm form: folds to a constant output
                for v in &vals {
                    let mut p = Prog::default();
                    let c = p.push(POp::Const(*v));
                    let r = p.push(POp::Un(op, c));
                    let x = p.push(POp::Var(0));
                    p.roots = vec![r, x];
                    check_program(cx, &mut sub, &p, &[vec![1.0]], &[3, 255]);
                }
            }
            Unit::Binary(op) => {
                let vals = alpha::binary_values(op, true);
                let pairs: Vec<Vec<f32>> = vals
                    .iter()
                    .flat_map(|a| vals.iter().map(move |b| vec![*a, *b]))
                    .collect();
                // reg/reg
                let mut p = Prog::default();
                let x = p.push(POp::Var(0));
                let y = p.push(POp::Var(1));
                let r = p.push(POp::Bin(op, x, y));
                p.roots = vec![r];
                check_program(cx, &mut sub, &p, &pairs, &[3, 4, 255]);
                for pt in pairs.iter().step_by(7) {
                    cross_check_ctx_eval(cx, &p, pt);
                }
                // same operand twice
                let mut p = Prog::default();
                let x = p.push(POp::Var(0));
                let r = p.push(POp::Bin(op, x, x));
                p.roots = vec![r];
                let singles: Vec<Vec<f32>> = vals.iter().map(|v| vec![*v]).collect();
                check_program(cx, &mut sub, &p, &singles, &[3, 255]);
                // reg/imm, imm/reg, imm/imm: one tape per constant
                for c in &vals {
                    for form in 0..3 {
                        let mut p = Prog::default();
                        let x = p.push(POp::Var(0));
                        let k = p.push(POp::Const(*c));
                        let r = match form {
                            0 => p.push(POp::Bin(op, x, k)),
                            1 => p.push(POp::Bin(op, k, x)),
                            _ => {
                                let k2 = p.push(POp::Const(vals[(sub as usize) % vals.len()]));
                                p.push(POp::Bin(op, k, k2))
                            }
                        };
                        p.roots = if form == 2 { vec![r, x] } else { vec![r] };
                        check_program(cx, &mut sub, &p, &singles, &[3, 255]);
                    }
                }
            }
            Unit::TooSmall => {
                // Budgets below the allocator's minimum must fail loudly or
                // compute the right answer - never miscompile.  (The same probe
                // runs on every DAG, pressure DAG and reuse-pattern program.)
                let progs = [
                    prog::family_fan(3, None, Order::Reverse, B::Add),
                    prog::family_fan(5, Some(U::Sin), Order::Forward, B::Sub),
                    prog::family_tree(4, B::Add),
                    prog::family_tree(2, B::Min),
                ];
                for p in &progs {
                    probe_too_small(cx, &mut sub, p);
                }
            }
            Unit::Reuse(b) => {
                // operands used again after the op, in every pattern; root-only
                // (exporting every node would keep all values live)
                let pts = generic_points(2);
                for p in prog::reuse_patterns(b) {
                    check_program(cx, &mut sub, &p, &pts, &BUDGETS);
                    probe_too_small(cx, &mut sub, &p);
                }
            }
            Unit::Dag { n, prefix, variants } => {
                let spec = dag_spec();
                let pts = generic_points(2);
                // A program with S SSA slots is allocated identically for
                // every N >= S (spare registers are handed out lowest-first
                // and nothing is evicted); DAGs with <= 5 operation nodes over
                // 2 variables have <= 8 slots, so budgets above 8 only repeat
                // the N = 8 tape.  All budgets are still run for n <= 3.
                let budgets: &[usize] = if n <= 3 { &BUDGETS[..] } else { &[3, 4, 5, 6, 7, 8] };
                let l = spec.leaves.len();
                spec.for_each(n, &prefix, true, &mut |p, orphan| {
                    check_program(cx, &mut sub, p, &pts, budgets);
                    if n <= 3 {
                        probe_too_small(cx, &mut sub, p);
                    }
                    if variants && orphan.is_none() {
                        let last = p.nodes.len() - 1;
                        let mut q = p.clone();
                        if n >= 2 {
                            q.roots = vec![last, l];
                            check_program(cx, &mut sub, &q, &pts, &[3, 4, 255]);
                        }
                        q.roots = vec![0, last];
                        check_program(cx, &mut sub, &q, &pts, &[3, 4, 255]);
                        q.roots = vec![2, last, 2];
                        check_program(cx, &mut sub, &q, &pts, &[3, 4, 255]);
                    }
                });
            }
            Unit::Pressure { n, prefix } => {
                let spec = pressure_spec();
                let pts = generic_points(4);
                spec.for_each(n, &prefix, false, &mut |p, _| {
                    check_program(cx, &mut sub, p, &pts, &[3, 4, 5]);
                    if n <= 3 {
                        probe_too_small(cx, &mut sub, p);
                    }
                });
            }
            Unit::Fan { w } => {
                for mid in [None, Some(U::Sin), Some(U::Neg)] {
                    for order in [Order::Forward, Order::Reverse, Order::Interleaved] {
                        for comb in [B::Add, B::Sub, B::Min] {
                            let p = prog::family_fan(w, mid, order, comb);
                            let pts = generic_points(2);
                            check_program(cx, &mut sub, &p, &pts, &BUDGETS);
                            // all op nodes as outputs
                            let mut q = p.clone();
                            q.roots = (0..q.nodes.len())
                                .filter(|i| !matches!(q.nodes[*i], POp::Const(_)))
                                .collect();
                            check_program(cx, &mut sub, &q, &pts, &[3, 5, 12, 255]);
                        }
                    }
                }
            }
            Unit::Tree { w } => {
                for comb in [B::Add, B::Sub, B::Max, B::Mul] {
                    let p = prog::family_tree(w, comb);
                    let pts = generic_points(w);
                    check_program(cx, &mut sub, &p, &pts, &BUDGETS);
                    let mut q = p.clone();
                    q.roots = (0..q.nodes.len()).collect();
                    check_program(cx, &mut sub, &q, &pts, &[3, 5, 12, 255]);
                }
            }
            Unit::Outputs { len } => {
                // nodes: x*2, y+1, x-y, the constant 3, the bare variable x
                let mut base = Prog::default();
                let x = base.push(POp::Var(0));
                let y = base.push(POp::Var(1));
                let k2 = base.push(POp::Const(2.0));
                let k1 = base.push(POp::Const(1.0));
                let a = base.push(POp::Bin(B::Mul, x, k2));
                let b = base.push(POp::Bin(B::Add, y, k1));
                let c = base.push(POp::Bin(B::Sub, x, y));
                let d = base.push(POp::Const(3.0));
                let nodes = [a, b, c, d, x];
                let pts = generic_points(2);
                for code in 0..nodes.len().pow(len as u32) {
                    let mut q = base.clone();
                    q.roots = (0..len).map(|i| nodes[(code / nodes.len().pow(i as u32)) % nodes.len()]).collect();
                    check_program(cx, &mut sub, &q, &pts, &[3, 4, 5, 255]);
                }
            }
            Unit::Huge { half } => {
                let q = prog::huge_prog(half, false);
                let pts = generic_points(1);
                check_program(cx, &mut sub, &q, &pts, &[3, 12, 255]);
            }
            Unit::FarRepeat { m } => {
                // [h, a_1 .. a_m, h] and [a_1, h, a_2 .. a_m, h]: the repeated node
                // has to survive (possibly in a spill slot) across m other outputs
                let pts = generic_points(2);
                for variant in 0..2 {
                    let q = far_repeat_prog(m, variant);
                    check_program(cx, &mut sub, &q, &pts, &BUDGETS);
                }
            }
            Unit::Stress { w } => {
                // the repository's stress shape: sum over i of op(x*i + y), all
                // opcodes as the middle op
                for mid in refsem::UNARY {
                    let p = prog::family_fan(w, Some(mid), Order::Reverse, B::Add);
                    let pts = generic_points(2);
                    check_program(cx, &mut sub, &p, &pts, &[3, 4, 6, 12, 255]);
                }
            }
        }
    }
}

/// One node h = x - y bound to two outputs with m other outputs (x*k_i + y)
/// around / between them: variant 0 = [h, a_1 .. a_m, h], variant 1 =
/// [a_1, h, a_2 .. a_m, h]
pub fn far_repeat_prog(m: usize, variant: usize) -> Prog {
    let mut q = Prog::default();
    let x = q.push(POp::Var(0));
    let y = q.push(POp::Var(1));
    let h = q.push(POp::Bin(B::Sub, x, y));
    let others: Vec<usize> = (0..m)
        .map(|i| {
            let k = q.push(POp::Const(1.5 + i as f32));
            let t = q.push(POp::Bin(B::Mul, x, k));
            q.push(POp::Bin(B::Add, t, y))
        })
        .collect();
    let mut r = if variant == 0 { vec![h] } else { vec![others[0], h] };
    r.extend(&others[variant..]);
    r.push(h);
    q.roots = r;
    q
}

/// Budgets 1 and 2 (below the allocator's minimum): compiling or evaluating
/// may panic ("fail loudly") or give the right answer, never a wrong one
fn probe_too_small(cx: &mut Cx, sub: &mut u64, p: &Prog) {
    let nv = p.nodes.iter().filter(|n| matches!(n, POp::Var(_))).count();
    let pts = generic_points(nv.max(2));
    for n in [1usize, 2] {
        let s = *sub;
        *sub += 1;
        if !cx.case(s) {
            continue;
        }
        cx.add("cases", 1);
        cx.add("too_small_budget_cases", 1);
        let mut ctx = Context::new();
        let roots = p.build(&mut ctx);
        let flat = Flat::from_ctx(&ctx, &roots);
        let pts: Vec<Vec<f32>> = pts.iter().map(|p| p[..flat.vars.len()].to_vec()).collect();
        let (mut vals, mut amb) = (vec![], vec![]);
        let expected: Vec<Vec<(f32, bool)>> = pts
            .iter()
            .map(|pt| {
                flat.eval_all(pt, &mut vals, &mut amb);
                flat.roots.iter().map(|r| (vals[*r], amb[*r])).collect()
            })
            .collect();
        let desc = || json!({"program": p.describe(), "budget": n});
        let r = guard(|| {
            let mut inner = TooSmallProbe::default();
            with_budget!(n, too_small, (&ctx, &roots, &flat, &pts, &expected, &mut inner));
            inner
        });
        match r {
            Err(_) => cx.add("too_small_budget_failed_loudly", 1),
            Ok(probe) => {
                if probe.panicked {
                    cx.add("too_small_budget_failed_loudly", 1);
                } else if let Some(m) = probe.mismatch {
                    cx.violation("value mismatch budget=1-2 (miscompiled instead of failing loudly)", desc(), m);
                } else {
                    cx.add("too_small_budget_computed_correctly", 1);
                }
            }
        }
    }
}

fn cx_violation_count(_cx: &Cx) -> u64 {
    0
}

#[derive(Default)]
struct TooSmallProbe {
    panicked: bool,
    mismatch: Option<String>,
}

fn too_small<const N: usize>(
    ctx: &Context,
    roots: &[Node],
    flat: &Flat,
    points: &[Vec<f32>],
    expected: &[Vec<(f32, bool)>],
    probe: &mut TooSmallProbe,
) {
    let data = match guard(|| VmData::<N>::new(ctx, roots)) {
        Ok(Ok(d)) => d,
        _ => {
            probe.panicked = true;
            return;
        }
    };
    let f = GenericVmFunction::<N>::from(data);
    let tape = f.point_tape(Default::default());
    for (pi, pt) in points.iter().enumerate() {
        let args = refsem::args_for(f.vars(), flat, pt);
        let mut ev = GenericVmFunction::<N>::new_point_eval();
        match guard(|| ev.eval(&tape, &args).map(|(o, _)| o.to_vec())) {
            Ok(Ok(out)) => {
                for (i, (g, (e, amb))) in out.iter().zip(&expected[pi]).enumerate() {
                    if !*amb && !same32(*g, *e) {
                        probe.mismatch = Some(format!(
                            "N={N} at {pt:?}: output {i} = {g:?}, graph evaluates to {e:?}"
                        ));
                    }
                }
            }
            _ => {
                probe.panicked = true;
                return;
            }
        }
    }
}
