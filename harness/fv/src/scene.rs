//! Shapes used by the rendering / meshing / scheduling checks (C06–C09), as
//! programs, with an f64 reference evaluation of the same program.
use crate::prog::{POp, Prog};
use fidget_core::context::{BinaryOpcode as B, UnaryOpcode as U};

/// f64 mirror of the op semantics (for "true" values of a program)
pub fn un64(op: U, a: f64) -> f64 {
    match op {
        U::Neg => -a,
        U::Abs => a.abs(),
        U::Recip => 1.0 / a,
        U::Sqrt => a.sqrt(),
        U::Square => a * a,
        U::Floor => a.floor(),
        U::Ceil => a.ceil(),
        U::Round => a.round(),
        U::Sin => a.sin(),
        U::Cos => a.cos(),
        U::Tan => a.tan(),
        U::Asin => a.asin(),
        U::Acos => a.acos(),
        U::Atan => a.atan(),
        U::Exp => a.exp(),
        U::Ln => a.ln(),
        U::Not => f64::from(a == 0.0),
        U::Rand => f64::NAN,
    }
}

pub fn bin64(op: B, a: f64, b: f64) -> f64 {
    match op {
        B::Add => a + b,
        B::Sub => a - b,
        B::Mul => a * b,
        B::Div => a / b,
        B::Atan => a.atan2(b),
        B::Min => {
            if a.is_nan() || b.is_nan() { f64::NAN } else { a.min(b) }
        }
        B::Max => {
            if a.is_nan() || b.is_nan() { f64::NAN } else { a.max(b) }
        }
        B::Compare => {
            if a.is_nan() || b.is_nan() { f64::NAN } else if a < b { -1.0 } else if a > b { 1.0 } else { 0.0 }
        }
        B::Mod => a.rem_euclid(b),
        B::And => {
            if a == 0.0 { a } else { b }
        }
        B::Or => {
            if a != 0.0 { a } else { b }
        }
        B::Mix => f64::NAN,
    }
}

/// Evaluates the root of `p` in f64.  `vars[i]` is the value of `POp::Var(i)`.
/// Also returns the largest intermediate magnitude (for error bounds).
pub fn eval64(p: &Prog, vars: &[f64]) -> (f64, f64) {
    let mut v: Vec<f64> = Vec::with_capacity(p.nodes.len());
    let mut mag = 0.0f64;
    for op in &p.nodes {
        let x = match *op {
            POp::Var(i) => vars.get(i).copied().unwrap_or(0.0),
            POp::Const(c) => c as f64,
            POp::Un(u, a) => un64(u, v[a]),
            POp::Bin(b, a, c) => bin64(b, v[a], v[c]),
        };
        if x.is_finite() {
            mag = mag.max(x.abs());
        }
        v.push(x);
    }
    (v[p.roots[0]], mag)
}

fn f32_exact(x: f64) -> bool {
    x.is_finite() && (x as f32) as f64 == x && (x == 0.0 || x.abs() >= f32::MIN_POSITIVE as f64)
}

/// Like `eval64`, and also reports whether the value is EXACT: every
/// intermediate is an f32-representable number (or a NaN that exact operands
/// force) and only operations whose f32 result is the correctly rounded exact
/// result were used.  An f32 evaluator then computes exactly the same
/// intermediates, so the sign / zero-ness / NaN-ness of an exact value is
/// certain, not merely within a tolerance.
pub fn eval64x(p: &Prog, vars: &[f64]) -> (f64, f64, bool) {
    let mut v: Vec<f64> = Vec::with_capacity(p.nodes.len());
    let mut ex: Vec<bool> = Vec::with_capacity(p.nodes.len());
    let mut mag = 0.0f64;
    for op in &p.nodes {
        let (x, e) = match *op {
            POp::Var(i) => {
                let x = vars.get(i).copied().unwrap_or(0.0);
                (x, f32_exact(x))
            }
            POp::Const(c) => (c as f64, c.is_finite()),
            POp::Un(u, a) => {
                let x = un64(u, v[a]);
                let basic = matches!(u, U::Neg | U::Abs | U::Recip | U::Sqrt | U::Square | U::Floor | U::Ceil | U::Not);
                (x, basic && ex[a] && (f32_exact(x) || x.is_nan()))
            }
            POp::Bin(b, a, c) => {
                let x = bin64(b, v[a], v[c]);
                let basic = matches!(b, B::Add | B::Sub | B::Mul | B::Div | B::Min | B::Max | B::Compare | B::And | B::Or);
                (x, basic && ex[a] && ex[c] && (f32_exact(x) || x.is_nan()))
            }
        };
        if x.is_finite() {
            mag = mag.max(x.abs());
        }
        v.push(x);
        ex.push(e);
    }
    (v[p.roots[0]], mag, ex[p.roots[0]])
}

/// What can be said with certainty about "is the shape negative at this sample?"
#[derive(Copy, Clone, Debug, PartialEq, Eq)]
pub enum Side {
    Inside,
    /// value certainly >= 0, exactly zero (of either sign), or certainly NaN
    NotInside,
    Undecidable,
}

/// Decides the sample at `pos` (model coordinates, f64).  `pos_exact`: the
/// caller has established that an f32 computation of the position gives
/// exactly `pos`.  `dpos`: bound on the position rounding otherwise.
pub fn side_of(p: &Prog, pos: [f64; 3], free: f64, pos_exact: bool, dpos: f64) -> (Side, f64) {
    let at = |q: [f64; 3]| eval64x(p, &[q[0], q[1], q[2], 0.0, 0.0, free]);
    let (v, mag, exact) = at(pos);
    if exact && pos_exact {
        return (if v < 0.0 { Side::Inside } else { Side::NotInside }, v);
    }
    if v.is_nan() {
        // NaN is "not negative"; it is certain when the whole neighbourhood is NaN
        for ax in 0..3 {
            for sgn in [-1.0, 1.0] {
                let mut q = pos;
                q[ax] += sgn * dpos;
                if !at(q).0.is_nan() {
                    return (Side::Undecidable, v);
                }
            }
        }
        return (Side::NotInside, v);
    }
    let tol = 2e-5 * (1.0 + mag);
    if v.abs() <= tol {
        (Side::Undecidable, v)
    } else if v < 0.0 {
        (Side::Inside, v)
    } else {
        (Side::NotInside, v)
    }
}

/// True if an f32 evaluation of `m * (i, j, k, 1)` followed by the perspective
/// divide is exact whatever the order of the additions: every product and
/// every partial sum is f32-representable
pub fn position_exact(m: &nalgebra::Matrix4<f64>, ijk: [f64; 3]) -> bool {
    let v = [ijk[0], ijk[1], ijk[2], 1.0];
    let mut rows = [0.0f64; 4];
    for r in 0..4 {
        let terms: Vec<f64> = (0..4).map(|c| m[(r, c)] * v[c]).collect();
        for mask in 1u32..16 {
            let s: f64 = (0..4).filter(|c| (mask >> c) & 1 == 1).map(|c| terms[c]).sum();
            if !f32_exact(s) {
                return false;
            }
        }
        rows[r] = terms.iter().sum();
    }
    if rows[3] == 1.0 {
        return true;
    }
    (0..3).all(|r| f32_exact(rows[r] / rows[3]))
}

/// Tiny expression builder over `Prog`
#[derive(Default)]
pub struct PB {
    pub p: Prog,
}

impl PB {
    pub fn var(&mut self, i: usize) -> usize {
        if let Some(k) = self.p.nodes.iter().position(|n| *n == POp::Var(i)) {
            return k;
        }
        self.p.push(POp::Var(i))
    }
    pub fn x(&mut self) -> usize {
        self.var(0)
    }
    pub fn y(&mut self) -> usize {
        self.var(1)
    }
    pub fn z(&mut self) -> usize {
        self.var(2)
    }
    pub fn c(&mut self, v: f32) -> usize {
        self.p.push(POp::Const(v))
    }
    pub fn un(&mut self, u: U, a: usize) -> usize {
        self.p.push(POp::Un(u, a))
    }
    pub fn bin(&mut self, b: B, a: usize, c: usize) -> usize {
        self.p.push(POp::Bin(b, a, c))
    }
    pub fn add(&mut self, a: usize, b: usize) -> usize {
        self.bin(B::Add, a, b)
    }
    pub fn sub(&mut self, a: usize, b: usize) -> usize {
        self.bin(B::Sub, a, b)
    }
    pub fn mul(&mut self, a: usize, b: usize) -> usize {
        self.bin(B::Mul, a, b)
    }
    pub fn min(&mut self, a: usize, b: usize) -> usize {
        self.bin(B::Min, a, b)
    }
    pub fn max(&mut self, a: usize, b: usize) -> usize {
        self.bin(B::Max, a, b)
    }
    pub fn neg(&mut self, a: usize) -> usize {
        self.un(U::Neg, a)
    }
    pub fn subc(&mut self, a: usize, c: f32) -> usize {
        let k = self.c(c);
        self.sub(a, k)
    }
    /// sqrt((x-cx)^2 + (y-cy)^2) - r
    pub fn circle(&mut self, cx: f32, cy: f32, r: f32) -> usize {
        let (x, y) = (self.x(), self.y());
        let dx = self.subc(x, cx);
        let dy = self.subc(y, cy);
        let a = self.un(U::Square, dx);
        let b = self.un(U::Square, dy);
        let s = self.add(a, b);
        let q = self.un(U::Sqrt, s);
        self.subc(q, r)
    }
    /// sqrt((x-cx)^2 + (y-cy)^2 + (z-cz)^2) - r
    pub fn sphere(&mut self, c: [f32; 3], r: f32) -> usize {
        let (x, y, z) = (self.x(), self.y(), self.z());
        let dx = self.subc(x, c[0]);
        let dy = self.subc(y, c[1]);
        let dz = self.subc(z, c[2]);
        let a = self.un(U::Square, dx);
        let b = self.un(U::Square, dy);
        let cc = self.un(U::Square, dz);
        let s = self.add(a, b);
        let s = self.add(s, cc);
        let q = self.un(U::Sqrt, s);
        self.subc(q, r)
    }
    /// max over axes of (lo - p, p - hi) for the given axes
    pub fn slab(&mut self, axis: usize, lo: f32, hi: f32) -> usize {
        let v = self.var(axis);
        let l = self.c(lo);
        let a = self.sub(l, v);
        let b = self.subc(v, hi);
        self.max(a, b)
    }
    pub fn boxx(&mut self, lo: [f32; 3], hi: [f32; 3], dims: usize) -> usize {
        let mut acc = self.slab(0, lo[0], hi[0]);
        for d in 1..dims {
            let s = self.slab(d, lo[d], hi[d]);
            acc = self.max(acc, s);
        }
        acc
    }
    pub fn done(mut self, root: usize) -> Prog {
        self.p.roots = vec![root];
        self.p
    }
}

pub struct Scene {
    pub name: &'static str,
    pub prog: Prog,
    /// value of the free variable Var(5), if the program uses one
    pub free: Option<f32>,
}

pub fn scenes_2d() -> Vec<Scene> {
    let mut v = vec![];
    let mk = |name: &'static str, f: &dyn Fn(&mut PB) -> usize| {
        let mut b = PB::default();
        let r = f(&mut b);
        Scene { name, prog: b.done(r), free: None }
    };
    v.push(mk("circle", &|b| b.circle(0.1, -0.2, 0.7)));
    v.push(mk("rectangle", &|b| b.boxx([-0.6, -0.3, 0.0], [0.5, 0.8, 0.0], 2)));
    v.push(mk("half-plane", &|b| {
        let (x, y) = (b.x(), b.y());
        let k = b.c(0.3);
        let t = b.mul(y, k);
        let d = b.sub(x, t);
        b.subc(d, 0.1)
    }));
    v.push(mk("union", &|b| {
        let a = b.circle(-0.4, 0.0, 0.5);
        let c = b.circle(0.4, 0.1, 0.45);
        b.min(a, c)
    }));
    v.push(mk("intersection", &|b| {
        let a = b.circle(-0.2, 0.0, 0.6);
        let c = b.circle(0.3, 0.1, 0.55);
        b.max(a, c)
    }));
    v.push(mk("difference", &|b| {
        let a = b.circle(0.0, 0.0, 0.8);
        let c = b.circle(0.3, 0.2, 0.4);
        let n = b.neg(c);
        b.max(a, n)
    }));
    v.push(mk("ring", &|b| {
        let a = b.circle(0.0, 0.0, 0.6);
        let ab = b.un(U::Abs, a);
        b.subc(ab, 0.15)
    }));
    v.push(mk("min-chain of 4 circles", &|b| {
        let a = b.circle(-0.5, -0.5, 0.3);
        let c = b.circle(0.5, -0.5, 0.35);
        let d = b.circle(-0.5, 0.5, 0.25);
        let e = b.circle(0.5, 0.5, 0.4);
        let m = b.min(a, c);
        let m = b.min(m, d);
        b.min(m, e)
    }));
    v.push(mk("constant +1", &|b| b.c(1.0)));
    v.push(mk("constant -1", &|b| b.c(-1.0)));
    v.push(mk("x*y", &|b| {
        let (x, y) = (b.x(), b.y());
        b.mul(x, y)
    }));
    v.push(mk("sphere slice (depends on z)", &|b| b.sphere([0.0, 0.1, 0.0], 0.8)));
    // shapes whose INTERVAL evaluation over some tiles is NaN (division by an
    // interval containing zero, sqrt reaching below zero) although pixels in
    // those tiles have clearly negative values
    v.push(mk("metaballs 1 - sum r^2/|p-c|^2", &|b| {
        let ball = |b: &mut PB, cx: f32, cy: f32, r2: f32| {
            let (x, y) = (b.x(), b.y());
            let dx = b.subc(x, cx);
            let dy = b.subc(y, cy);
            let a = b.un(U::Square, dx);
            let c = b.un(U::Square, dy);
            let d = b.add(a, c);
            let k = b.c(r2);
            b.bin(B::Div, k, d)
        };
        let m1 = ball(b, -0.4, 0.03, 0.09);
        let m2 = ball(b, 0.31, 0.22, 0.0625);
        let sum = b.add(m1, m2);
        let one = b.c(1.0);
        b.sub(one, sum)
    }));
    v.push(mk("sqrt(x) - 0.5 (strip 0 <= x < 0.25)", &|b| {
        let x = b.x();
        let q = b.un(U::Sqrt, x);
        b.subc(q, 0.5)
    }));
    v.push(mk("complement of the half-plane x > 1/8: -(0.125 - x)", &|b| {
        let x = b.x();
        let k = b.c(0.125);
        let d = b.sub(k, x);
        b.neg(d)
    }));
    v.push(mk("rectangle minus a strip cut on sample lines", &|b| {
        let bx = b.boxx([-0.75, -0.75, 0.0], [0.75, 0.75, 0.0], 2);
        let cut = b.slab(1, -0.25, 0.25);
        let n = b.neg(cut);
        b.max(bx, n)
    }));
    let mut s = mk("circle with free radius", &|b| {
        let (x, y) = (b.x(), b.y());
        let a = b.un(U::Square, x);
        let c = b.un(U::Square, y);
        let s = b.add(a, c);
        let q = b.un(U::Sqrt, s);
        let v = b.var(5);
        b.sub(q, v)
    });
    s.free = Some(0.75);
    v.push(s);
    v
}

pub fn scenes_3d() -> Vec<Scene> {
    let mut v = vec![];
    let mk = |name: &'static str, f: &dyn Fn(&mut PB) -> usize| {
        let mut b = PB::default();
        let r = f(&mut b);
        Scene { name, prog: b.done(r), free: None }
    };
    v.push(mk("sphere", &|b| b.sphere([0.05, -0.1, 0.0], 0.7)));
    v.push(mk("box", &|b| b.boxx([-0.6, -0.3, -0.5], [0.5, 0.7, 0.4], 3)));
    v.push(mk("two slabs with a gap", &|b| {
        let a = b.slab(2, -0.8, -0.5);
        let c = b.slab(2, 0.1, 0.4);
        let m = b.min(a, c);
        let bx = b.boxx([-0.7, -0.7, -1.0], [0.7, 0.7, 1.0], 2);
        b.max(m, bx)
    }));
    v.push(mk("slab with a hole", &|b| {
        let a = b.slab(2, -0.2, 0.3);
        let h = b.circle(0.1, 0.0, 0.4);
        let n = b.neg(h);
        b.max(a, n)
    }));
    v.push(mk("tilted half-space", &|b| {
        let (x, y, z) = (b.x(), b.y(), b.z());
        let k = b.c(0.5);
        let t = b.mul(x, k);
        let k2 = b.c(0.25);
        let u = b.mul(y, k2);
        let s = b.add(z, t);
        let s = b.sub(s, u);
        b.subc(s, 0.1)
    }));
    v.push(mk("small sphere above a plate", &|b| {
        let s = b.sphere([0.0, 0.0, 0.5], 0.25);
        let p = b.slab(2, -0.6, -0.3);
        b.min(s, p)
    }));
    v.push(mk("empty", &|b| b.c(1.0)));
    v.push(mk("full", &|b| b.c(-1.0)));
    // interval evaluation over tiles containing a centre is NaN (division by
    // an interval containing zero) although voxels there are clearly inside
    v.push(mk("3D metaballs 1 - sum r^2/|p-c|^2", &|b| {
        let ball = |b: &mut PB, c: [f32; 3], r2: f32| {
            let (x, y, z) = (b.x(), b.y(), b.z());
            let dx = b.subc(x, c[0]);
            let dy = b.subc(y, c[1]);
            let dz = b.subc(z, c[2]);
            let a = b.un(U::Square, dx);
            let e = b.un(U::Square, dy);
            let f = b.un(U::Square, dz);
            let d = b.add(a, e);
            let d = b.add(d, f);
            let k = b.c(r2);
            b.bin(B::Div, k, d)
        };
        let m1 = ball(b, [-0.4, 0.03, 0.1], 0.09);
        let m2 = ball(b, [0.31, 0.22, -0.3], 0.0625);
        let sum = b.add(m1, m2);
        let one = b.c(1.0);
        b.sub(one, sum)
    }));
    // shapes whose value at voxel samples is EXACTLY zero of negative sign (the
    // negation of an exact zero) or a certain NaN: neither is "negative"
    v.push(mk("complement of the half-space z > 1/8: -(0.125 - z)", &|b| {
        let z = b.z();
        let k = b.c(0.125);
        let d = b.sub(k, z);
        b.neg(d)
    }));
    v.push(mk("box minus a slab cut on the sample planes", &|b| {
        let bx = b.boxx([-0.75, -0.75, -0.75], [0.75, 0.75, 0.75], 3);
        let cut = b.slab(2, -0.25, 0.25);
        let n = b.neg(cut);
        b.max(bx, n)
    }));
    v.push(mk("sqrt(x) + z - 0.5 (NaN for x < 0)", &|b| {
        let (x, z) = (b.x(), b.z());
        let q = b.un(U::Sqrt, x);
        let s = b.add(q, z);
        b.subc(s, 0.5)
    }));
    let mut s = mk("sphere with free radius", &|b| {
        let (x, y, z) = (b.x(), b.y(), b.z());
        let a = b.un(U::Square, x);
        let c = b.un(U::Square, y);
        let d = b.un(U::Square, z);
        let s = b.add(a, c);
        let s = b.add(s, d);
        let q = b.un(U::Sqrt, s);
        let v = b.var(5);
        b.sub(q, v)
    });
    s.free = Some(0.6);
    v.push(s);
    v
}
