//! Reference semantics (DESIGN.md §3.4), written from the documentation of
//! `Context` / `RegOp`, never by calling `UnaryOpcode::eval` /
//! `BinaryOpcode::eval` / `FloatExt`.
use fidget_core::context::{BinaryOpcode as B, Context, Node, Op, UnaryOpcode as U};
use fidget_core::var::Var;
use std::collections::HashMap;

pub const UNARY: [U; 18] = [
    U::Neg,
    U::Abs,
    U::Recip,
    U::Sqrt,
    U::Square,
    U::Floor,
    U::Ceil,
    U::Round,
    U::Sin,
    U::Cos,
    U::Tan,
    U::Asin,
    U::Acos,
    U::Atan,
    U::Exp,
    U::Ln,
    U::Not,
    U::Rand,
];

pub const BINARY: [B; 12] = [
    B::Add,
    B::Sub,
    B::Mul,
    B::Div,
    B::Atan,
    B::Min,
    B::Max,
    B::Compare,
    B::Mod,
    B::And,
    B::Or,
    B::Mix,
];

/// PCG hash (Jarzynski & Olano, "Hash Functions for GPU Rendering", 2020),
/// `pcg` variant, re-implemented from the paper.
fn pcg(v: u32) -> u32 {
    let state = v.wrapping_mul(747796405u32).wrapping_add(2891336453u32);
    let shift = (state >> 28).wrapping_add(4);
    let word = ((state >> shift) ^ state).wrapping_mul(277803737u32);
    (word >> 22) ^ word
}

/// `rand`: documented as "a pseudo-random value in the 0.0-1.0 range from a
/// given seed": 23 hash bits as the mantissa of a float in [1,2), minus 1.
fn rand32(a: f32) -> f32 {
    let h = pcg(a.to_bits());
    f32::from_bits((h >> 9) | 0x3f80_0000) - 1.0
}

/// `mix`: nested hash (section 4.2 of the paper): hash(a + hash(b))
fn mix32(a: f32, b: f32) -> f32 {
    f32::from_bits(pcg(a.to_bits().wrapping_add(pcg(b.to_bits()))))
}

pub fn un32(op: U, a: f32) -> f32 {
    match op {
        U::Neg => -a,
        U::Abs => f32::from_bits(a.to_bits() & 0x7fff_ffff),
        U::Recip => 1.0f32 / a,
        U::Sqrt => a.sqrt(),
        U::Square => a * a,
        U::Floor => a.floor(),
        U::Ceil => a.ceil(),
        U::Round => a.round(), // half away from zero, as documented
        U::Sin => a.sin(),
        U::Cos => a.cos(),
        U::Tan => a.tan(),
        U::Asin => a.asin(),
        U::Acos => a.acos(),
        U::Atan => a.atan(),
        U::Exp => a.exp(),
        U::Ln => a.ln(),
        U::Not => {
            if a == 0.0 {
                1.0
            } else {
                0.0
            }
        }
        U::Rand => rand32(a),
    }
}

pub fn bin32(op: B, a: f32, b: f32) -> f32 {
    match op {
        B::Add => a + b,
        B::Sub => a - b,
        B::Mul => a * b,
        B::Div => a / b,
        B::Atan => a.atan2(b),
        B::Min => {
            if a.is_nan() || b.is_nan() {
                f32::NAN
            } else if a < b {
                a
            } else {
                b
            }
        }
        B::Max => {
            if a.is_nan() || b.is_nan() {
                f32::NAN
            } else if a > b {
                a
            } else {
                b
            }
        }
        B::Compare => {
            if a.is_nan() || b.is_nan() {
                f32::NAN
            } else if a < b {
                -1.0
            } else if a > b {
                1.0
            } else {
                0.0
            }
        }
        B::Mod => {
            // least non-negative remainder
            let r = a % b;
            if r < 0.0 { r + b.abs() } else { r }
        }
        B::And => {
            if a == 0.0 {
                a
            } else {
                b
            }
        }
        B::Or => {
            if a != 0.0 {
                a
            } else {
                b
            }
        }
        B::Mix => mix32(a, b),
    }
}

/// Which side a choice clause must record (DESIGN.md `ref_choice`)
#[derive(Copy, Clone, Debug, PartialEq, Eq)]
pub enum RefChoice {
    Left,
    Right,
    Both,
}

pub fn is_choice(op: B) -> bool {
    matches!(op, B::Min | B::Max | B::And | B::Or)
}

/// Choice implied by point operand values
pub fn ref_choice32(op: B, a: f32, b: f32) -> RefChoice {
    match op {
        B::Min => {
            if a < b {
                RefChoice::Left
            } else if b < a {
                RefChoice::Right
            } else {
                RefChoice::Both
            }
        }
        B::Max => {
            if a > b {
                RefChoice::Left
            } else if b > a {
                RefChoice::Right
            } else {
                RefChoice::Both
            }
        }
        B::And => {
            if a == 0.0 {
                RefChoice::Left
            } else {
                RefChoice::Right
            }
        }
        B::Or => {
            if a != 0.0 {
                RefChoice::Left
            } else {
                RefChoice::Right
            }
        }
        _ => unreachable!(),
    }
}

/// true if `min`/`max` of these operands is a tie between zeros of different
/// sign: IEEE-754 leaves the sign of the result open, and so do we.
pub fn zero_sign_tie(op: B, a: f32, b: f32) -> bool {
    matches!(op, B::Min | B::Max) && a == 0.0 && b == 0.0 && a.to_bits() != b.to_bits()
}

pub fn same32(a: f32, b: f32) -> bool {
    a.to_bits() == b.to_bits() || (a.is_nan() && b.is_nan())
}

////////////////////////////////////////////////////////////////////////////////

#[derive(Copy, Clone, Debug, PartialEq)]
pub enum FOp {
    Input(usize),
    Const(f32),
    Un(U, usize),
    Bin(B, usize, usize),
}

/// A flattened copy of the graph that a `Context` actually holds below a set
/// of roots (read through the public `Context::get_op`), in topological
/// order.  The oracle evaluates *this*, so it speaks about the same graph as
/// the tape, whatever rewriting the constructors did.
#[derive(Clone, Debug)]
pub struct Flat {
    pub ops: Vec<FOp>,
    pub roots: Vec<usize>,
    /// Variables in order of first encounter by this walk (index = Input arg)
    pub vars: Vec<Var>,
    pub nodes: Vec<Node>,
}

impl Flat {
    pub fn from_ctx(ctx: &Context, roots: &[Node]) -> Flat {
        let mut index: HashMap<Node, usize> = HashMap::new();
        let mut out = Flat {
            ops: vec![],
            roots: vec![],
            vars: vec![],
            nodes: vec![],
        };
        // iterative post-order
        enum A {
            Down(Node),
            Up(Node),
        }
        for &r in roots {
            let mut todo = vec![A::Down(r)];
            while let Some(a) = todo.pop() {
                match a {
                    A::Down(n) => {
                        if index.contains_key(&n) {
                            continue;
                        }
                        let op = ctx.get_op(n).expect("node in context");
                        todo.push(A::Up(n));
                        match op {
                            Op::Binary(_, a, b) => {
                                todo.push(A::Down(*b));
                                todo.push(A::Down(*a));
                            }
                            Op::Unary(_, a) => todo.push(A::Down(*a)),
                            _ => (),
                        }
                    }
                    A::Up(n) => {
                        if index.contains_key(&n) {
                            continue;
                        }
                        let op = ctx.get_op(n).unwrap();
                        let f = match op {
                            Op::Input(v) => {
                                let i = match out.vars.iter().position(|u| u == v) {
                                    Some(i) => i,
                                    None => {
                                        out.vars.push(*v);
                                        out.vars.len() - 1
                                    }
                                };
                                FOp::Input(i)
                            }
                            Op::Const(c) => FOp::Const(c.0),
                            Op::Unary(o, a) => FOp::Un(*o, index[a]),
                            Op::Binary(o, a, b) => FOp::Bin(*o, index[a], index[b]),
                        };
                        index.insert(n, out.ops.len());
                        out.ops.push(f);
                        out.nodes.push(n);
                    }
                }
            }
            out.roots.push(index[&r]);
        }
        out
    }

    /// Evaluates every node; `vals[i]` is node i's value and `amb[i]` is true
    /// if it depends on a zero-sign tie of min/max.
    pub fn eval_all(&self, var_vals: &[f32], vals: &mut Vec<f32>, amb: &mut Vec<bool>) {
        vals.clear();
        amb.clear();
        for op in &self.ops {
            let (v, a) = match *op {
                FOp::Input(i) => (var_vals[i], false),
                FOp::Const(c) => (c, false),
                FOp::Un(o, a) => (un32(o, vals[a]), amb[a]),
                FOp::Bin(o, a, b) => (
                    bin32(o, vals[a], vals[b]),
                    amb[a] || amb[b] || zero_sign_tie(o, vals[a], vals[b]),
                ),
            };
            vals.push(v);
            amb.push(a);
        }
    }

    /// Canonical structural hash (for distinct-program counting)
    pub fn hash(&self) -> u64 {
        use std::hash::{Hash, Hasher};
        let mut h = std::collections::hash_map::DefaultHasher::new();
        for op in &self.ops {
            match *op {
                FOp::Input(i) => (0u8, i).hash(&mut h),
                FOp::Const(c) => (1u8, c.to_bits()).hash(&mut h),
                FOp::Un(o, a) => (2u8, o, a).hash(&mut h),
                FOp::Bin(o, a, b) => (3u8, o, a, b).hash(&mut h),
            }
        }
        self.roots.hash(&mut h);
        h.finish()
    }

    pub fn describe(&self) -> String {
        let mut s = String::new();
        for (i, op) in self.ops.iter().enumerate() {
            use std::fmt::Write;
            match *op {
                FOp::Input(v) => write!(s, "n{i}={} ", self.vars[v]).unwrap(),
                FOp::Const(c) => write!(s, "n{i}={c:?} ").unwrap(),
                FOp::Un(o, a) => write!(s, "n{i}={o:?}(n{a}) ").unwrap(),
                FOp::Bin(o, a, b) => write!(s, "n{i}={o:?}(n{a},n{b}) ").unwrap(),
            }
        }
        use std::fmt::Write;
        write!(s, "roots={:?}", self.roots).unwrap();
        s
    }
}

/// Maps values given per `Flat::vars` order into the order a tape's `VarMap`
/// wants them.
pub fn args_for(vars: &fidget_core::var::VarMap, flat: &Flat, var_vals: &[f32]) -> Vec<f32> {
    let mut out = vec![0.0f32; vars.len()];
    for (v, i) in vars.iter() {
        if let Some(p) = flat.vars.iter().position(|u| *u == v) {
            // variables beyond the supplied point default to 0.25
            out[i] = var_vals.get(p).copied().unwrap_or(0.25);
        }
    }
    out
}
