//! C14 — shape evaluation binds variables by identity and applies the
//! transform.  DESIGN.md §4 C14.
use crate::evalkit::Backend;
use crate::prog::var_by_index;
use crate::runner::{Check, CrashPolicy, Cx, Meta, Tier, guard, panic_site};
use fidget_core::context::{Context, Tree};
use fidget_core::eval::Function;
use fidget_core::shape::{EzShape, Shape, ShapeBulkEvalError, ShapeTracingEvalError, ShapeVars};
use fidget_core::types::{Grad, Interval};
use fidget_core::var::{Var, VarIndex};
use fidget_core::vm::VmFunction;
use fidget_jit::JitFunction;
use nalgebra::Matrix4;
use serde_json::json;

pub struct C14;

fn weight(i: usize) -> f32 {
    // distinct small dyadic weights; sums stay exact in f32
    [1.0, 2.0, 4.0, 0.5, 8.0, 0.25, 16.0, 3.0, 5.0, 0.75][i % 10] + (i / 10) as f32 * 32.0
}

fn value_of(v: &Var) -> f32 {
    match v {
        Var::X => 0.75,
        Var::Y => -1.5,
        Var::Z => 2.25,
        Var::V(_) => {
            // distinct per variable
            let k = (0..64).find(|k| var_by_index(*k + 3) == *v).unwrap_or(0);
            (k as f32) * 0.5 - 3.25
        }
    }
}

fn vindex(v: &Var) -> VarIndex {
    match v {
        Var::V(i) => *i,
        _ => unreachable!(),
    }
}

#[derive(Clone, Debug)]
struct Config {
    axes: Vec<Var>,
    free: usize,
}

fn configs() -> Vec<Config> {
    let mut v = vec![];
    for mask in 0..8u32 {
        let axes: Vec<Var> = [Var::X, Var::Y, Var::Z]
            .iter()
            .enumerate()
            .filter(|(i, _)| (mask >> i) & 1 == 1)
            .map(|(_, v)| *v)
            .collect();
        for free in [0usize, 1, 2, 3, 4, 30] {
            if axes.is_empty() && free == 0 {
                continue;
            }
            v.push(Config { axes: axes.clone(), free });
        }
    }
    v
}

fn permutations(n: usize, cap_full: usize) -> Vec<Vec<usize>> {
    if n <= cap_full {
        let mut out = vec![];
        let mut idx: Vec<usize> = (0..n).collect();
        fn rec(k: usize, idx: &mut Vec<usize>, out: &mut Vec<Vec<usize>>) {
            if k == idx.len() {
                out.push(idx.clone());
                return;
            }
            for i in k..idx.len() {
                idx.swap(k, i);
                rec(k + 1, idx, out);
                idx.swap(k, i);
            }
        }
        rec(0, &mut idx, &mut out);
        out
    } else {
        // rotations and their reversals
        let mut out = vec![];
        for r in 0..n.min(6) {
            let p: Vec<usize> = (0..n).map(|i| (i + r * (n / 6).max(1)) % n).collect();
            let mut q = p.clone();
            q.reverse();
            out.push(p);
            out.push(q);
        }
        out
    }
}

fn transforms() -> Vec<(&'static str, Option<Matrix4<f32>>)> {
    use nalgebra::Vector3;
    vec![
        ("none", None),
        ("identity", Some(Matrix4::identity())),
        (
            "affine",
            Some(Matrix4::new_translation(&Vector3::new(0.5, -2.0, 0.25)) * Matrix4::new_nonuniform_scaling(&Vector3::new(2.0, 0.5, -4.0))),
        ),
        // bottom row (0, 0, 0, w) with w != 1: an affine map kept with a scale in the
        // homogeneous coordinate (all four bottom-row patterns are in the list:
        // (0,0,0,1), (0,0,0,w), (a,b,c,w))
        ("homogeneous scale", {
            let mut m = Matrix4::new_translation(&Vector3::new(0.5, -2.0, 0.25)) * Matrix4::new_nonuniform_scaling(&Vector3::new(2.0, 0.5, -4.0));
            m *= 4.0;
            Some(m)
        }),
        ("projective", {
            // a genuinely projective matrix: w depends on the position
            let mut m = Matrix4::new_nonuniform_scaling(&Vector3::new(2.0, 4.0, -1.0));
            m[(3, 0)] = -0.125;
            m[(3, 2)] = 0.25;
            m[(3, 3)] = 2.0;
            Some(m)
        }),
    ]
}

/// Exact comparison (dyadic data), except under the projective matrix where
/// the homogeneous divide rounds
fn same(got: f64, want: f64, tname: &str) -> bool {
    if tname == "projective" {
        (got - want).abs() <= 1e-5 * want.abs().max(1.0)
    } else {
        got == want
    }
}

/// Expected gradient (d/dx, d/dy, d/dz) of sum(w_i v_i) at the transformed
/// position, by f64 dual numbers through the homogeneous transform
fn expected_grad(c: &Case, m: &Option<Matrix4<f32>>) -> [f64; 3] {
    use crate::c05::{D64, dual_bin};
    use fidget_core::context::BinaryOpcode as B;
    let p = [value_of(&Var::X), value_of(&Var::Y), value_of(&Var::Z)];
    let seed = |i: usize| {
        let mut d = D64::constant(p[i] as f64);
        d.d[i] = 1.0;
        d.m[i] = 1.0;
        d
    };
    let p3 = [seed(0), seed(1), seed(2)];
    let t: [D64; 3] = match m {
        None => p3,
        Some(m) => {
            let row = |r: usize| -> D64 {
                let mut acc = D64::constant(m[(r, 3)] as f64);
                for k in 0..3 {
                    let a = m[(r, k)] as f64;
                    acc.v += a * p3[k].v;
                    for i in 0..3 {
                        acc.d[i] += a * p3[k].d[i];
                        acc.m[i] += a.abs() * p3[k].m[i];
                    }
                }
                acc
            };
            let w = row(3);
            [0, 1, 2].map(|r| dual_bin(B::Div, row(r), w).unwrap())
        }
    };
    let mut g = [0.0f64; 3];
    for (v, wt) in c.vars.iter().zip(&c.weights) {
        let k = match v {
            Var::X => 0,
            Var::Y => 1,
            Var::Z => 2,
            _ => continue,
        };
        for i in 0..3 {
            g[i] += *wt as f64 * t[k].d[i];
        }
    }
    g
}

fn transformed(p: [f32; 3], m: &Option<Matrix4<f32>>) -> [f64; 3] {
    match m {
        None => [p[0] as f64, p[1] as f64, p[2] as f64],
        Some(m) => {
            let m = m.cast::<f64>();
            let q = m * nalgebra::Vector4::new(p[0] as f64, p[1] as f64, p[2] as f64, 1.0);
            [q[0] / q[3], q[1] / q[3], q[2] / q[3]]
        }
    }
}

struct Case {
    vars: Vec<Var>,      // in expression (operand) order
    weights: Vec<f32>,   // by position in `vars`
    supply_order_rev: bool,
    extra: bool,
}

fn expected(c: &Case, m: &Option<Matrix4<f32>>) -> f64 {
    let p = [value_of(&Var::X), value_of(&Var::Y), value_of(&Var::Z)];
    expected_at(c, m, p, 0.0)
}

/// Expected value at position `p` with every free variable's value raised by `dv`
fn expected_at(c: &Case, m: &Option<Matrix4<f32>>, p: [f32; 3], dv: f32) -> f64 {
    let t = transformed(p, m);
    c.vars
        .iter()
        .zip(&c.weights)
        .map(|(v, w)| {
            *w as f64
                * match v {
                    Var::X => t[0],
                    Var::Y => t[1],
                    Var::Z => t[2],
                    v => (value_of(v) + dv) as f64,
                }
        })
        .sum()
}

fn shape_vars(c: &Case, skip: Option<Var>) -> ShapeVars<f32> {
    let mut sv = ShapeVars::new();
    let mut list: Vec<Var> = c.vars.iter().filter(|v| matches!(v, Var::V(_))).cloned().collect();
    if c.supply_order_rev {
        list.reverse();
    }
    if c.extra {
        sv.insert(vindex(&var_by_index(60)), 123.0);
    }
    for v in list {
        if Some(v) == skip {
            continue;
        }
        sv.insert(vindex(&v), value_of(&v));
    }
    sv
}

fn build_tree(c: &Case) -> Tree {
    let mut t: Option<Tree> = None;
    for (v, w) in c.vars.iter().zip(&c.weights) {
        let term = Tree::from(*v) * *w;
        t = Some(match t {
            None => term,
            Some(t) => t + term,
        });
    }
    t.unwrap()
}

fn run_case<F: Backend>(cx: &mut Cx, c: &Case, label: &str) {
    let desc = || json!({"backend": F::NAME, "case": label, "operand_order": c.vars.iter().map(|v| format!("{v}")).collect::<Vec<_>>()});
    let tree = build_tree(c);
    let mut ctx = Context::new();
    let root = ctx.import(&tree);
    let Ok(f) = crate::evalkit::build::<F>(&ctx, &[root]) else { return };
    let shape = Shape::new_raw(f);
    let sv = shape_vars(c, None);
    let (x, y, z) = (value_of(&Var::X), value_of(&Var::Y), value_of(&Var::Z));
    for (tname, m) in transforms() {
        let want = expected(c, &m);
        let ident = Matrix4::identity();
        let check = |cx: &mut Cx, kind: &str, got: Result<f32, String>| match got {
            Ok(g) => {
                cx.add("value_checks", 1);
                if !same(g as f64, want, tname) {
                    cx.violation(
                        format!("{}-{kind} binds a variable to the wrong value (transform {})", F::NAME, if tname == "none" { "none" } else { "some" }),
                        desc(),
                        format!("transform {tname}: got {g}, expected {want}"),
                    );
                }
            }
            Err(e) => cx.violation(format!("{}-{kind} failed", F::NAME), desc(), format!("transform {tname}: {e}")),
        };
        cx.add("evals", 5);
        // point
        let r = guard(|| {
            let t = shape.ez_point_tape();
            let mut e = Shape::<F>::new_point_eval();
            match &m {
                None => e.eval_with_vars(&t, x, y, z, &sv).map(|(v, _)| v),
                Some(m) => e.eval_with_transform_and_vars(&t, x, y, z, m, &sv).map(|(v, _)| v),
            }
            .map_err(|e| format!("{e}"))
        })
        .and_then(|r| r);
        check(cx, "point", r);
        // interval (degenerate box)
        let r = guard(|| {
            let t = shape.ez_interval_tape();
            let mut e = Shape::<F>::new_interval_eval();
            let (ix, iy, iz) = (Interval::new(x, x), Interval::new(y, y), Interval::new(z, z));
            match &m {
                None => e.eval_with_vars(&t, ix, iy, iz, &sv).map(|(v, _)| v),
                Some(m) => e.eval_with_transform_and_vars(&t, ix, iy, iz, m, &sv).map(|(v, _)| v),
            }
            .map_err(|e| format!("{e}"))
        })
        .and_then(|r| r);
        match r {
            Ok(i) => {
                cx.add("value_checks", 1);
                if !(same(i.lower() as f64, want, tname) && same(i.upper() as f64, want, tname)) {
                    cx.violation(
                        format!("{}-interval binds a variable to the wrong value (transform {})", F::NAME, if tname == "none" { "none" } else { "some" }),
                        desc(),
                        format!("transform {tname}: got [{}, {}], expected {want}", i.lower(), i.upper()),
                    );
                }
            }
            Err(e) => cx.violation(format!("{}-interval failed", F::NAME), desc(), format!("transform {tname}: {e}")),
        }
        // float slice: scalar vars and var arrays
        let n = 5usize;
        let r = guard(|| {
            let t = shape.ez_float_slice_tape();
            let mut e = Shape::<F>::new_float_slice_eval();
            let (xs, ys, zs) = (vec![x; n], vec![y; n], vec![z; n]);
            match &m {
                None => e.eval_with_vars(&t, &xs, &ys, &zs, &sv).map(|o| o.to_vec()),
                Some(m) => e.eval_with_transform_and_vars(&t, &xs, &ys, &zs, m, &sv).map(|o| o.to_vec()),
            }
            .map_err(|e| format!("{e}"))
        })
        .and_then(|r| r);
        match r {
            Ok(o) if o.len() == n => {
                for g in o {
                    check(cx, "float-slice", Ok(g));
                }
            }
            Ok(o) => cx.violation(format!("{}-float-slice result length", F::NAME), desc(), format!("{} values for {n} samples", o.len())),
            Err(e) => check(cx, "float-slice", Err(e)),
        }
        // an extra (unused) variable's array may have any length: it is ignored
        let extra_key = vindex(&var_by_index(60));
        let extra_lens: Vec<usize> = if c.extra { vec![n, 0, n + 2] } else { vec![n] };
        for extra_len in extra_lens {
        let r = guard(|| {
            let t = shape.ez_float_slice_tape();
            let mut e = Shape::<F>::new_float_slice_eval();
            let (xs, ys, zs) = (vec![x; n], vec![y; n], vec![z; n]);
            let mut arrays: ShapeVars<Vec<f32>> = ShapeVars::new();
            for (k, v) in (&sv).into_iter() {
                arrays.insert(*k, vec![*v; if *k == extra_key { extra_len } else { n }]);
            }
            e.eval_with_transform_and_var_arrays(&t, &xs, &ys, &zs, m.as_ref().unwrap_or(&ident), &arrays)
                .map(|o| o.to_vec())
                .map_err(|e| format!("{e}"))
        })
        .and_then(|r| r);
        match r {
            Ok(o) => {
                // with no transform requested we passed the identity: same expectation
                let want_here = if m.is_none() { expected(c, &None) } else { want };
                for g in o {
                    cx.add("value_checks", 1);
                    if !same(g as f64, want_here, tname) {
                        cx.violation(
                            format!("{}-float-slice (var arrays) binds a variable to the wrong value", F::NAME),
                            desc(),
                            format!("transform {tname}: got {g}, expected {want_here}"),
                        );
                        break;
                    }
                }
            }
            Err(e) => cx.violation(
                format!("{}-float-slice (var arrays) failed{}", F::NAME, if extra_len != n { " although only the array of an UNUSED variable has another length" } else { "" }),
                desc(),
                e,
            ),
        }
        }
        // lane-distinct bulk evaluation: every sample has its own position and
        // its own value of every variable (11 samples: more than one SIMD
        // vector, not a multiple of the width)
        {
            let nl = 11usize;
            let pos = |l: usize| -> [f32; 3] { [x + l as f32 * 0.25, y - l as f32 * 0.5, z + l as f32 * 0.125] };
            let r = guard(|| {
                let t = shape.ez_float_slice_tape();
                let mut e = Shape::<F>::new_float_slice_eval();
                let xs: Vec<f32> = (0..nl).map(|l| pos(l)[0]).collect();
                let ys: Vec<f32> = (0..nl).map(|l| pos(l)[1]).collect();
                let zs: Vec<f32> = (0..nl).map(|l| pos(l)[2]).collect();
                let mut arrays: ShapeVars<Vec<f32>> = ShapeVars::new();
                for (k, v) in (&sv).into_iter() {
                    arrays.insert(*k, (0..nl).map(|l| *v + l as f32).collect());
                }
                match &m {
                    None => e.eval_with_var_arrays(&t, &xs, &ys, &zs, &arrays).map(|o| o.to_vec()),
                    Some(m) => e.eval_with_transform_and_var_arrays(&t, &xs, &ys, &zs, m, &arrays).map(|o| o.to_vec()),
                }
                .map_err(|e| format!("{e}"))
            })
            .and_then(|r| r);
            match r {
                Ok(o) if o.len() == nl => {
                    for (l, g) in o.iter().enumerate() {
                        let want_l = expected_at(c, &m, pos(l), l as f32);
                        cx.add("value_checks", 1);
                        cx.add("lane_distinct_checks", 1);
                        if !same(*g as f64, want_l, tname) {
                            cx.violation(
                                format!("{}-float-slice (per-sample positions and variable values) returns another sample's value", F::NAME),
                                desc(),
                                format!("transform {tname}: sample {l} of {nl}: got {g}, expected {want_l}"),
                            );
                            break;
                        }
                    }
                }
                Ok(o) => cx.violation(format!("{}-float-slice result length", F::NAME), desc(), format!("{} values for {nl} samples", o.len())),
                Err(e) => cx.violation(format!("{}-float-slice (var arrays) failed", F::NAME), desc(), e),
            }
        }
        // grad slice
        let r = guard(|| {
            let t = shape.ez_grad_slice_tape();
            let mut e = Shape::<F>::new_grad_slice_eval();
            let xs = vec![Grad::new(x, 1.0, 0.0, 0.0); 3];
            let ys = vec![Grad::new(y, 0.0, 1.0, 0.0); 3];
            let zs = vec![Grad::new(z, 0.0, 0.0, 1.0); 3];
            match &m {
                None => e.eval_with_vars(&t, &xs, &ys, &zs, &sv).map(|o| o.to_vec()),
                Some(m) => e.eval_with_transform_and_vars(&t, &xs, &ys, &zs, m, &sv).map(|o| o.to_vec()),
            }
            .map_err(|e| format!("{e}"))
        })
        .and_then(|r| r);
        match r {
            Ok(o) => {
                let eg = expected_grad(c, &m);
                for g in o {
                    check(cx, "grad-slice", Ok(g.v));
                    let got = [g.dx as f64, g.dy as f64, g.dz as f64];
                    cx.add("gradient_checks", 1);
                    if (0..3).any(|i| !same(got[i], eg[i], tname)) {
                        cx.violation(
                            format!("{}-grad-slice gradient ignores or misapplies the transform ({})", F::NAME, if tname == "projective" { "projective" } else { "affine or none" }),
                            desc(),
                            format!("transform {tname}: partials {got:?}, expected {eg:?}"),
                        );
                        break;
                    }
                }
            }
            Err(e) => check(cx, "grad-slice", Err(e)),
        }
    }
    // a missing variable is an error that names it
    let frees: Vec<Var> = c.vars.iter().filter(|v| matches!(v, Var::V(_))).cloned().collect();
    for miss in frees.iter().step_by((frees.len() / 3).max(1)) {
        let svm = shape_vars(c, Some(*miss));
        cx.add("evals", 3);
        cx.add("missing_variable_checks", 1);
        let r = guard(|| {
            let t = shape.ez_point_tape();
            let mut e = Shape::<F>::new_point_eval();
            match e.eval_with_vars(&t, x, y, z, &svm) {
                Err(ShapeTracingEvalError::MissingVar(mv)) => Ok(mv.var),
                Ok(v) => Err(format!("returned Ok({:?})", v.0)),
            }
        });
        match r {
            Ok(Ok(var)) if var == vindex(miss) => (),
            Ok(Ok(var)) => cx.violation(
                format!("{}-point missing variable error names the wrong variable", F::NAME),
                desc(),
                format!("missing {miss}, error names {:?}", var),
            ),
            Ok(Err(e)) => cx.violation(format!("{}-point accepted a missing variable", F::NAME), desc(), format!("missing {miss}: {e}")),
            Err(e) => cx.violation(format!("{}-point panicked on a missing variable {}", F::NAME, panic_site(&e)), desc(), e),
        }
        let r = guard(|| {
            let t = shape.ez_float_slice_tape();
            let mut e = Shape::<F>::new_float_slice_eval();
            match e.eval_with_vars(&t, &[x, x], &[y, y], &[z, z], &svm) {
                Err(ShapeBulkEvalError::MissingVar(mv)) => Ok(mv.var),
                Err(e) => Err(format!("wrong error {e}")),
                Ok(v) => Err(format!("returned Ok({v:?})")),
            }
        });
        match r {
            Ok(Ok(var)) if var == vindex(miss) => (),
            Ok(Ok(var)) => cx.violation(
                format!("{}-float-slice missing variable error names the wrong variable", F::NAME),
                desc(),
                format!("missing {miss}, error names {:?}", var),
            ),
            Ok(Err(e)) => cx.violation(format!("{}-float-slice accepted a missing variable", F::NAME), desc(), format!("missing {miss}: {e}")),
            Err(e) => cx.violation(format!("{}-float-slice panicked on a missing variable {}", F::NAME, panic_site(&e)), desc(), e),
        }
        if shape.bind(&svm).is_ok() {
            cx.violation(format!("{} bind accepted a missing variable", F::NAME), desc(), format!("missing {miss}"));
        }
    }
}

/// After a simplification that drops a variable, the variable map is
/// unchanged and evaluation still binds by identity
fn simplify_case<F: Backend>(cx: &mut Cx, c: &Case, label: &str) {
    let desc = || json!({"backend": F::NAME, "case": label, "after_simplification": true});
    let sum = build_tree(c);
    let dropped = var_by_index(50);
    // min(sum, dropped + 2^20): on the evaluated point the left side wins, so
    // the `dropped` variable disappears from the simplified tape
    let tree = sum.min(Tree::from(dropped) + 1048576.0);
    let mut ctx = Context::new();
    let root = ctx.import(&tree);
    let Ok(f) = crate::evalkit::build::<F>(&ctx, &[root]) else { return };
    let shape = Shape::new_raw(f);
    let mut sv = shape_vars(c, None);
    sv.insert(vindex(&dropped), 1.0);
    let (x, y, z) = (value_of(&Var::X), value_of(&Var::Y), value_of(&Var::Z));
    cx.add("evals", 3);
    let r = guard(|| {
        let t = shape.ez_point_tape();
        let mut e = Shape::<F>::new_point_eval();
        let (v, trace) = e.eval_with_vars(&t, x, y, z, &sv).map_err(|e| format!("{e}"))?;
        let trace = trace.ok_or("no trace".to_string())?.clone();
        let simp = shape.ez_simplify(&trace).map_err(|e| format!("{e}"))?;
        let before: Vec<(String, usize)> = {
            let mut l: Vec<_> = shape.inner().vars().iter().map(|(v, i)| (format!("{v}"), i)).collect();
            l.sort();
            l
        };
        let after: Vec<(String, usize)> = {
            let mut l: Vec<_> = simp.inner().vars().iter().map(|(v, i)| (format!("{v}"), i)).collect();
            l.sort();
            l
        };
        let t2 = simp.ez_point_tape();
        let (v2, _) = Shape::<F>::new_point_eval().eval_with_vars(&t2, x, y, z, &sv).map_err(|e| format!("{e}"))?;
        let shrank = simp.size() < shape.size();
        Ok::<_, String>((v, v2, before, after, shrank))
    });
    match r {
        Ok(Ok((v, v2, before, after, shrank))) => {
            cx.add("simplified_checks", 1);
            let want = expected(c, &None);
            if before != after {
                cx.violation(format!("{} simplification renumbered or changed the variable map", F::NAME), desc(), format!("before {before:?} after {after:?}"));
            }
            if v as f64 != want || v2 as f64 != want {
                cx.violation(
                    format!("{} value after simplification binds a variable to the wrong value", F::NAME),
                    desc(),
                    format!("before {v}, after {v2}, expected {want}"),
                );
            }
            if shrank {
                cx.add("simplifications_that_dropped_a_variable", 1);
            }
        }
        Ok(Err(e)) => cx.violation(format!("{} simplification case failed", F::NAME), desc(), e),
        Err(e) => cx.violation(format!("{} simplification case panicked {}", F::NAME, panic_site(&e)), desc(), e),
    }
}

/// Matrix entries far below f32::EPSILON are still coefficients: at a position
/// with a coordinate of 2^30 an entry of 2^-27 moves the transformed position by
/// 8.  One function per axis (so that every value is exact in f32), two sparse
/// matrices with such entries, a far position; point, box (degenerate and a
/// proper box reaching the far coordinate), float-slice and grad-slice
/// evaluation through the Shape API, VM and JIT, against the f64 transform.
fn tiny_coefficients<F: Backend>(cx: &mut Cx, sub: &mut u64) {
    let t = 2f32.powi(-27);
    let mats: Vec<(&str, Matrix4<f32>)> = vec![
        ("x' = x + 2^-27 y", {
            let mut m = Matrix4::identity();
            m[(0, 1)] = t;
            m
        }),
        ("x' = x - 2^-26 z, y' = y + 2^-28 x, z' = z + 2^-27 y", {
            let mut m = Matrix4::identity();
            m[(0, 2)] = -2.0 * t;
            m[(1, 0)] = t / 2.0;
            m[(2, 1)] = t;
            m
        }),
    ];
    let far = 2f32.powi(30);
    let positions: [[f32; 3]; 3] = [[1.0, far, -far / 2.0], [far, -2.0, far], [-far, far, 3.0]];
    for (axis, var) in [Var::X, Var::Y, Var::Z].into_iter().enumerate() {
        let tree = Tree::from(var);
        let mut ctx = Context::new();
        let root = ctx.import(&tree);
        let Ok(f) = crate::evalkit::build::<F>(&ctx, &[root]) else { continue };
        let shape = Shape::new_raw(f);
        let sv = ShapeVars::<f32>::new();
        for (mname, m) in &mats {
            for p in positions {
                let s = *sub;
                *sub += 1;
                if !cx.case(s) {
                    continue;
                }
                cx.add("cases", 1);
                cx.add("tiny_coefficient_cases", 1);
                let want = transformed(p, &Some(*m))[axis];
                let desc = || json!({"backend": F::NAME, "function": format!("{var}"), "matrix": mname, "position": format!("{p:?}")});
                let ok = |g: f64| (g - want).abs() <= 1e-6 * want.abs().max(1.0);
                cx.add("evals", 4);
                // point
                match guard(|| {
                    let tp = shape.ez_point_tape();
                    let mut e = Shape::<F>::new_point_eval();
                    e.eval_with_transform_and_vars(&tp, p[0], p[1], p[2], m, &sv).map(|(v, _)| v).map_err(|e| format!("{e}"))
                }) {
                    Ok(Ok(g)) if ok(g as f64) => cx.add("value_checks", 1),
                    other => cx.violation(format!("{}-point applies the transform wrongly (tiny matrix entries)", F::NAME), desc(), format!("got {other:?}, expected {want}")),
                }
                // degenerate box, and a box that reaches from 0 to the far position along every axis
                for (kind, lo) in [("degenerate box", p), ("box from the origin to the position", [0.0, 0.0, 0.0])] {
                    let iv = |a: f32, b: f32| Interval::new(a.min(b), a.max(b));
                    match guard(|| {
                        let ti = shape.ez_interval_tape();
                        let mut e = Shape::<F>::new_interval_eval();
                        e.eval_with_transform_and_vars(&ti, iv(lo[0], p[0]), iv(lo[1], p[1]), iv(lo[2], p[2]), m, &sv).map(|(v, _)| v).map_err(|e| format!("{e}"))
                    }) {
                        Ok(Ok(i)) => {
                            let tol = 1e-6 * want.abs().max(1.0);
                            let encloses = i.has_nan() || (i.lower() as f64 <= want + tol && i.upper() as f64 >= want - tol);
                            let exact = kind != "degenerate box" || i.has_nan() || (ok(i.lower() as f64) && ok(i.upper() as f64));
                            if encloses && exact {
                                cx.add("value_checks", 1);
                            } else {
                                cx.violation(format!("{}-interval applies the transform wrongly (tiny matrix entries)", F::NAME), desc(), format!("{kind}: got [{}, {}], the value at the position is {want}", i.lower(), i.upper()));
                            }
                        }
                        other => cx.violation(format!("{}-interval failed (tiny matrix entries)", F::NAME), desc(), format!("{other:?}")),
                    }
                }
            }
        }
    }
}

impl Check for C14 {
    fn id(&self) -> &'static str {
        "C14"
    }
    fn units(&self, _tier: Tier) -> usize {
        configs().len() + 1
    }
    fn unit_label(&self, _tier: Tier, unit: usize) -> String {
        if unit == configs().len() {
            return "tiny matrix entries at far positions".into();
        }
        format!("{:?}", configs()[unit])
    }
    fn meta(&self, tier: Tier) -> Meta {
        Meta {
            rule: "case = (set of variables, operand order, supply order, extra variable?); functions sum(w_i * v_i) with distinct dyadic weights over EVERY subset of {X,Y,Z} united with k free variables for k in {0,1,2,3,4,30}; written in EVERY operand order while the total is <= 6 (thorough; quick <= 5), 12 rotations/reversals above, so first-encounter numbering takes every permutation; ShapeVars filled in both orders, with and without an unrelated extra variable; evaluated through the Shape API by point, interval (degenerate box), float-slice (scalar variables and variable arrays; the array of an unused extra variable with the batch length, empty and longer) and grad-slice evaluators of VM and JIT with transform in {none, identity, affine, projective}; one free variable at a time removed => the error must name it (point, float-slice, bind); after a simplification that drops a variable the variable map must be unchanged and values still right; oracle: explicit map Var -> value at the f64-transformed position, exact (dyadic data; 1e-5 relative under the genuinely projective matrix, whose w depends on x and z); the grad-slice partials must equal the f64 dual-number derivative through the homogeneous transform; plus (round 10) matrices with entries 2^-26..2^-28 (far below f32::EPSILON) at positions with coordinates +-2^30: point, degenerate box and a box from the origin to the position, per axis, VM and JIT".into(),
            bounds: match tier {
                Tier::Quick => "all operand orders for <= 5 variables".into(),
                Tier::Thorough => "all operand orders for <= 6 variables".into(),
            },
            assumptions: vec!["the solver's use of the variable map (fidget-solver) is exercised by C19".into()],
            crash_policy: CrashPolicy::Violation,
            vacuity: vec![("value_checks", 10000), ("gradient_checks", 1000), ("missing_variable_checks", 50), ("simplifications_that_dropped_a_variable", 10)],
            transitions_counter: "evals",
            nontrivial_counter: "cases",
            exhaustive: true,
        }
    }
    fn run_unit(&self, tier: Tier, unit: usize, cx: &mut Cx) {
        if unit == configs().len() {
            let mut sub = 0u64;
            tiny_coefficients::<VmFunction>(cx, &mut sub);
            tiny_coefficients::<JitFunction>(cx, &mut sub);
            return;
        }
        let cfg = configs()[unit].clone();
        let mut all: Vec<Var> = cfg.axes.clone();
        for i in 0..cfg.free {
            all.push(var_by_index(3 + i));
        }
        let cap = if tier == Tier::Quick { 5 } else { 6 };
        let mut sub = 0u64;
        for perm in permutations(all.len(), cap) {
            for (rev, extra) in [(false, false), (true, true)] {
                let s = sub;
                sub += 1;
                if !cx.case(s) {
                    continue;
                }
                cx.add("cases", 1);
                let vars: Vec<Var> = perm.iter().map(|i| all[*i]).collect();
                // weights follow the variable's identity, not its position
                let weights: Vec<f32> = perm.iter().map(|i| weight(*i)).collect();
                let c = Case { vars, weights, supply_order_rev: rev, extra };
                let label = format!("{cfg:?} perm {perm:?} rev={rev} extra={extra}");
                run_case::<VmFunction>(cx, &c, &label);
                run_case::<JitFunction>(cx, &c, &label);
                if cfg.free > 0 || !cfg.axes.is_empty() {
                    simplify_case::<VmFunction>(cx, &c, &label);
                    simplify_case::<JitFunction>(cx, &c, &label);
                }
                cx.sample(|| json!({"config": format!("{cfg:?}"), "operand_order": perm}));
            }
        }
    }
}
