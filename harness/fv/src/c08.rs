//! C08 — meshes are closed, consistently oriented and enclose the shape's
//! volume.  DESIGN.md §4 C08.
use crate::evalkit::Backend;
use crate::prog::Prog;
use crate::runner::{Check, CrashPolicy, Cx, Meta, Tier, guard, panic_site};
use crate::scene::{self, PB};
use fidget_core::context::{Context, UnaryOpcode as U};
use fidget_core::render::{RenderHints, ThreadPool};
use fidget_core::shape::{Shape, ShapeVars};
use fidget_core::vm::VmFunction;
use fidget_jit::JitFunction;
use fidget_mesh::{Mesh, Octree, Settings};
use nalgebra::{Matrix4, Vector3};
use serde_json::json;
use std::collections::HashMap;

pub struct C08;

#[derive(Copy, Clone, Debug)]
enum Prim {
    Sphere(f32),
    BoxP,
    Cylinder,
    Torus,
    /// cone with its apex on the surface (gradient undefined at the apex and
    /// along the axis), cut by a base plane
    Cone,
    /// sphere built the way a revolve builds it: sqrt(sqrt(x^2+z^2)^2 + y^2) - r,
    /// whose gradient is 0/0 at the poles
    RevolvedSphere,
    /// 1 - sum r^2/|p-c|^2: interval evaluation of cells containing a centre is
    /// NaN (division by an interval containing zero)
    Metaballs,
}

const PRIMS: [Prim; 6] = [Prim::Sphere(0.3), Prim::Sphere(0.6), Prim::Sphere(0.85), Prim::BoxP, Prim::Cylinder, Prim::Torus];
/// primitives only used alone (centred off the lattice, on the lattice centre
/// and on another dyadic lattice line)
const EXTRA_PRIMS: [Prim; 3] = [Prim::Cone, Prim::RevolvedSphere, Prim::Metaballs];

fn prim(b: &mut PB, p: Prim, c: [f32; 3]) -> usize {
    match p {
        Prim::Sphere(r) => b.sphere(c, r),
        Prim::BoxP => b.boxx([c[0] - 0.45, c[1] - 0.3, c[2] - 0.35], [c[0] + 0.4, c[1] + 0.35, c[2] + 0.3], 3),
        Prim::Cylinder => {
            let r = b.circle(c[0], c[1], 0.4);
            let s = b.slab(2, c[2] - 0.35, c[2] + 0.3);
            b.max(r, s)
        }
        Prim::Torus => {
            let r = b.circle(c[0], c[1], 0.45);
            let z = b.z();
            let dz = b.subc(z, c[2]);
            let a = b.un(U::Square, r);
            let bb = b.un(U::Square, dz);
            let s = b.add(a, bb);
            let q = b.un(U::Sqrt, s);
            b.subc(q, 0.2)
        }
        Prim::Cone => {
            let q = b.circle(c[0], c[1], 0.0);
            let k = b.c(0.9);
            let qk = b.mul(q, k);
            let z = b.z();
            let dz = b.subc(z, c[2] + 0.45);
            let side = b.add(qk, dz);
            let zz = b.z();
            let nz = b.neg(zz);
            let base = b.subc(nz, -(c[2] - 0.3));
            b.max(side, base)
        }
        Prim::Metaballs => {
            let mut ball = |b: &mut PB, o: [f32; 3], r2: f32| {
                let (x, y, z) = (b.x(), b.y(), b.z());
                let dx = b.subc(x, c[0] + o[0]);
                let dy = b.subc(y, c[1] + o[1]);
                let dz = b.subc(z, c[2] + o[2]);
                let a = b.un(U::Square, dx);
                let e = b.un(U::Square, dy);
                let f = b.un(U::Square, dz);
                let d = b.add(a, e);
                let d = b.add(d, f);
                let k = b.c(r2);
                b.bin(fidget_core::context::BinaryOpcode::Div, k, d)
            };
            let m1 = ball(b, [-0.3, 0.0, 0.1], 0.09);
            let m2 = ball(b, [0.3, 0.2, -0.2], 0.0625);
            let sum = b.add(m1, m2);
            let one = b.c(1.0);
            b.sub(one, sum)
        }
        Prim::RevolvedSphere => {
            let (x, y, z) = (b.x(), b.y(), b.z());
            let dx = b.subc(x, c[0]);
            let dy = b.subc(y, c[1]);
            let dz = b.subc(z, c[2]);
            let a = b.un(U::Square, dx);
            let cc = b.un(U::Square, dz);
            let s = b.add(a, cc);
            let q = b.un(U::Sqrt, s);
            let q2 = b.un(U::Square, q);
            let y2 = b.un(U::Square, dy);
            let t = b.add(q2, y2);
            let r = b.un(U::Sqrt, t);
            b.subc(r, 0.55)
        }
    }
}

#[derive(Clone, Debug)]
struct ShapeDesc {
    name: String,
    prog: Prog,
}

fn single(p: Prim) -> ShapeDesc {
    single_at(p, [0.03, -0.02, 0.01])
}

fn single_at(p: Prim, c: [f32; 3]) -> ShapeDesc {
    let mut b = PB::default();
    let r = prim(&mut b, p, c);
    ShapeDesc { name: if c == [0.03, -0.02, 0.01] { format!("{p:?}") } else { format!("{p:?} centred at {c:?}") }, prog: b.done(r) }
}

fn pair(a: Prim, bp: Prim, op: usize, off: [f32; 3]) -> ShapeDesc {
    let mut b = PB::default();
    let x = prim(&mut b, a, [0.02, 0.01, -0.03]);
    let y = prim(&mut b, bp, off);
    let r = match op {
        0 => b.min(x, y),
        1 => b.max(x, y),
        _ => {
            let n = b.neg(y);
            b.max(x, n)
        }
    };
    ShapeDesc { name: format!("{a:?} {} {bp:?} at {off:?}", ["union", "intersection", "minus"][op]), prog: b.done(r) }
}

fn corner_spheres(mask: u8) -> Option<ShapeDesc> {
    let mut b = PB::default();
    let mut acc: Option<usize> = None;
    for j in 0..8 {
        if mask & (1 << j) != 0 {
            let c = [
                if j & 1 != 0 { 0.5 } else { 0.0 },
                if j & 2 != 0 { 0.5 } else { 0.0 },
                if j & 4 != 0 { 0.5 } else { 0.0 },
            ];
            let s = b.sphere(c, 0.1);
            acc = Some(match acc {
                None => s,
                Some(a) => b.min(a, s),
            });
        }
    }
    acc.map(|r| ShapeDesc { name: format!("corner spheres mask {mask:08b}"), prog: b.done(r) })
}

fn transforms() -> Vec<(&'static str, Matrix4<f32>)> {
    vec![
        ("identity", Matrix4::identity()),
        ("rotation", Matrix4::new_rotation(Vector3::new(0.3, -0.2, 0.5))),
        ("non-uniform scale", Matrix4::new_nonuniform_scaling(&Vector3::new(1.25, 0.8, 1.0))),
        ("small translation", Matrix4::new_translation(&Vector3::new(0.05, -0.04, 0.03))),
        // camera perspective as the CLI demo builds it: bottom row (0, 0, p, 1)
        ("perspective", {
            let mut m = Matrix4::identity();
            m[(3, 2)] = 0.3;
            m
        }),
    ]
}

/// f64 value of the shape at a model-space point
fn value(p: &Prog, q: [f64; 3]) -> f64 {
    scene::eval64(p, &[q[0], q[1], q[2]]).0
}

/// What the generator knows about a shape at a depth (all in f64)
struct RefInfo {
    volume: f64,
    /// surface area estimate (sign changes between neighbouring samples x h^2;
    /// over-estimates by at most sqrt(3))
    area: f64,
    /// false if some finest-level lattice edge is crossed more than once by the
    /// surface (two sheets closer than one cell): the sign lattice the mesher
    /// samples cannot represent the shape at this depth
    resolved: bool,
    /// Some(level) if the sign lattice of octree level `level` (cells of edge
    /// 2 / 2^level) has a face whose corner signs alternate around it
    ambiguous_face: Option<u8>,
    /// the shape's value is (within 1e-6) zero at a lattice point of the
    /// finest octree level: the surface passes through a cell corner
    zero_on_lattice: bool,
}

/// Looks for a lattice face with alternating corner signs at any octree level
/// up to `depth` (values within 1e-6 of zero count as either sign)
fn ambiguous_face(f: &dyn Fn([f64; 3]) -> f64, depth: u8) -> (Option<u8>, bool) {
    let n = 1usize << depth;
    let g = n + 1;
    let mut v = vec![0.0f64; g * g * g];
    let idx = |i: usize, j: usize, k: usize| (i * g + j) * g + k;
    let h = 2.0 / n as f64;
    for i in 0..g {
        for j in 0..g {
            for k in 0..g {
                v[idx(i, j, k)] = f([-1.0 + i as f64 * h, -1.0 + j as f64 * h, -1.0 + k as f64 * h]);
            }
        }
    }
    const TOL: f64 = 1e-6;
    let zero = v.iter().any(|x| x.abs() < TOL);
    let filled = |x: f64| x < TOL;
    let empty = |x: f64| x > -TOL;
    for level in 1..=depth {
        let step = n >> level;
        let m = 1usize << level;
        for axis in 0..3 {
            for a in 0..=m {
                for b in 0..m {
                    for c in 0..m {
                        let at = |db: usize, dc: usize| -> f64 {
                            let (pa, pb, pc) = (a * step, (b + db) * step, (c + dc) * step);
                            match axis {
                                0 => v[idx(pa, pb, pc)],
                                1 => v[idx(pc, pa, pb)],
                                _ => v[idx(pb, pc, pa)],
                            }
                        };
                        let (p00, p10, p11, p01) = (at(0, 0), at(1, 0), at(1, 1), at(0, 1));
                        if (filled(p00) && filled(p11) && empty(p10) && empty(p01)) || (empty(p00) && empty(p11) && filled(p10) && filled(p01)) {
                            return (Some(level), zero);
                        }
                    }
                }
            }
        }
    }
    (None, zero)
}

/// Checks that the surface lies strictly inside the meshing region and
/// measures the shape (model space).  Returns None if the shape is not
/// admissible (touches the boundary region).
fn reference(p: &Prog, m: &Matrix4<f32>, depth: u8) -> Option<RefInfo> {
    let m64 = m.cast::<f64>();
    let to_model = |w: [f64; 3]| -> [f64; 3] {
        let q = m64 * nalgebra::Vector4::new(w[0], w[1], w[2], 1.0);
        [q[0] / q[3], q[1] / q[3], q[2] / q[3]]
    };
    // boundary faces must be clearly outside
    let n = 24;
    for a in 0..=n {
        for b in 0..=n {
            let (u, v) = (-1.0 + 2.0 * a as f64 / n as f64, -1.0 + 2.0 * b as f64 / n as f64);
            for face in [[-1.0, u, v], [1.0, u, v], [u, -1.0, v], [u, 1.0, v], [u, v, -1.0], [u, v, 1.0]] {
                // also a shell slightly inside, so that the surface keeps a margin
                for s in [1.0, 0.93] {
                    let w = [face[0] * s, face[1] * s, face[2] * s];
                    if !(value(p, to_model(w)) > 0.02) {
                        return None;
                    }
                }
            }
        }
    }
    let g = 1usize << (depth as usize + 2).min(6);
    let h = 2.0 / g as f64;
    let mut inside = 0u64;
    let mut crossings = 0u64;
    let det4 = m64.determinant().abs();
    let mut vol_sum = 0.0f64;
    let idx = |i: usize, j: usize, k: usize| (i * g + j) * g + k;
    let mut neg = vec![false; g * g * g];
    for i in 0..g {
        for j in 0..g {
            for k in 0..g {
                let w = [-1.0 + (i as f64 + 0.5) * h, -1.0 + (j as f64 + 0.5) * h, -1.0 + (k as f64 + 0.5) * h];
                if value(p, to_model(w)) < 0.0 {
                    inside += 1;
                    neg[idx(i, j, k)] = true;
                    // volume element of the (possibly projective) map at this cell:
                    // |det M| / w^4
                    let wq = m64[(3, 0)] * w[0] + m64[(3, 1)] * w[1] + m64[(3, 2)] * w[2] + m64[(3, 3)];
                    vol_sum += det4 / wq.powi(4);
                }
            }
        }
    }
    for i in 0..g {
        for j in 0..g {
            for k in 0..g {
                let a = neg[idx(i, j, k)];
                if i + 1 < g && neg[idx(i + 1, j, k)] != a {
                    crossings += 1;
                }
                if j + 1 < g && neg[idx(i, j + 1, k)] != a {
                    crossings += 1;
                }
                if k + 1 < g && neg[idx(i, j, k + 1)] != a {
                    crossings += 1;
                }
            }
        }
    }
    // resolution: every finest-level lattice edge must be crossed at most once
    let cells = 1usize << depth;
    let ch = 2.0 / cells as f64;
    let mut resolved = true;
    'outer: for axis in 0..3 {
        for a in 0..=cells {
            for b in 0..=cells {
                for c in 0..cells {
                    let mut changes = 0;
                    let mut prev: Option<bool> = None;
                    for sidx in 0..=8 {
                        let t = c as f64 * ch + ch * sidx as f64 / 8.0;
                        let (pa, pb) = (-1.0 + a as f64 * ch, -1.0 + b as f64 * ch);
                        let w = match axis {
                            0 => [-1.0 + t, pa, pb],
                            1 => [pa, -1.0 + t, pb],
                            _ => [pa, pb, -1.0 + t],
                        };
                        let sgn = value(p, to_model(w)) < 0.0;
                        if let Some(q) = prev {
                            if q != sgn {
                                changes += 1;
                            }
                        }
                        prev = Some(sgn);
                    }
                    if changes > 1 {
                        resolved = false;
                        break 'outer;
                    }
                }
            }
        }
    }
    let _ = inside;
    // linear scale factor for areas (geometric mean of the scaling; for a
    // projective map the mean volume element over the shape)
    let det = if inside > 0 { vol_sum / inside as f64 } else { det4 };
    let lin = det.powf(2.0 / 3.0);
    let (amb, zero_on_lattice) = ambiguous_face(&|w| value(p, to_model(w)), depth);
    Some(RefInfo { volume: vol_sum * h * h * h, area: crossings as f64 * h * h * lin, resolved, ambiguous_face: amb, zero_on_lattice })
}

/// Computed only when a degenerate triangle is found (it is expensive): does
/// part of the surface lie exactly on the octree lattice - the value is zero
/// (1e-6) at a lattice point or along a stretch of a finest-level lattice edge -
/// and is the shape non-differentiable (f64 dual numbers undefined: sqrt at 0,
/// min/max tie...) where its surface crosses a lattice edge?
fn lattice_degeneracy(p: &Prog, m: &Matrix4<f32>, depth: u8) -> (bool, bool) {
    use crate::c05::D64;
    let m64 = m.cast::<f64>();
    let to_model = |w: [f64; 3]| -> [f64; 3] {
        let q = m64 * nalgebra::Vector4::new(w[0], w[1], w[2], 1.0);
        [q[0] / q[3], q[1] / q[3], q[2] / q[3]]
    };
    let n = 1usize << depth;
    let h = 2.0 / n as f64;
    const K: usize = 16;
    let (mut on_lattice, mut nondiff) = (false, false);
    for axis in 0..3 {
        for a in 0..=n {
            for b in 0..=n {
                for c in 0..n {
                    let at = |t: f64| -> [f64; 3] {
                        let (pa, pb, pc) = (-1.0 + a as f64 * h, -1.0 + b as f64 * h, -1.0 + (c as f64 + t) * h);
                        match axis {
                            0 => [pc, pa, pb],
                            1 => [pb, pc, pa],
                            _ => [pa, pb, pc],
                        }
                    };
                    let vals: Vec<f64> = (0..=K).map(|k| value(p, to_model(at(k as f64 / K as f64)))).collect();
                    if vals[0].abs() < 1e-6 || vals[K].abs() < 1e-6 {
                        on_lattice = true;
                    }
                    for k in 0..K {
                        if vals[k].abs() < 1e-6 && vals[k + 1].abs() < 1e-6 {
                            on_lattice = true;
                        }
                        if (vals[k] < 0.0) != (vals[k + 1] < 0.0) && !nondiff {
                            // bisect to the crossing and ask for the gradient there
                            let (mut lo, mut hi) = (k as f64 / K as f64, (k + 1) as f64 / K as f64);
                            let neg_lo = vals[k] < 0.0;
                            for _ in 0..40 {
                                let mid = 0.5 * (lo + hi);
                                if (value(p, to_model(at(mid))) < 0.0) == neg_lo {
                                    lo = mid;
                                } else {
                                    hi = mid;
                                }
                            }
                            for t in [lo, hi] {
                                let q = to_model(at(t));
                                let vars: Vec<D64> = (0..3)
                                    .map(|i| {
                                        let mut d = D64::constant(q[i]);
                                        d.d[i] = 1.0;
                                        d.m[i] = 1.0;
                                        d
                                    })
                                    .collect();
                                match crate::c07::eval_dual(p, &vars) {
                                    Some(g) if g.d.iter().all(|x| x.is_finite()) => (),
                                    _ => nondiff = true,
                                }
                            }
                        }
                    }
                }
            }
        }
    }
    (on_lattice, nondiff)
}

struct MeshStats {
    volume: f64,
    area: f64,
}

fn check_mesh(mesh: &Mesh) -> Result<MeshStats, (String, String)> {
    for (i, v) in mesh.vertices.iter().enumerate() {
        if !(v.x.is_finite() && v.y.is_finite() && v.z.is_finite()) {
            return Err(("non-finite vertex coordinate".into(), format!("vertex {i} = {v:?}")));
        }
    }
    let mut edges: HashMap<(usize, usize), u32> = HashMap::new();
    let (mut vol, mut area) = (0.0f64, 0.0f64);
    for (ti, t) in mesh.triangles.iter().enumerate() {
        if t.x >= mesh.vertices.len() || t.y >= mesh.vertices.len() || t.z >= mesh.vertices.len() {
            return Err(("triangle index out of range".into(), format!("triangle {ti} = {t:?}")));
        }
        if t.x == t.y || t.y == t.z || t.x == t.z {
            return Err(("degenerate triangle (repeated index)".into(), format!("triangle {ti} = {t:?}")));
        }
        let (a, b, c) = (mesh.vertices[t.x].cast::<f64>(), mesh.vertices[t.y].cast::<f64>(), mesh.vertices[t.z].cast::<f64>());
        if a == b || b == c || a == c {
            return Err(("degenerate triangle (two corners at the same position)".into(), format!("triangle {ti}: {a:?} {b:?} {c:?}")));
        }
        vol += a.dot(&b.cross(&c)) / 6.0;
        area += (b - a).cross(&(c - a)).norm() / 2.0;
        for e in [(t.x, t.y), (t.y, t.z), (t.z, t.x)] {
            *edges.entry(e).or_default() += 1;
        }
    }
    for (&(a, b), &n) in &edges {
        if n != 1 {
            return Err(("directed edge occurs more than once".into(), format!("edge ({a},{b}) occurs {n} times: {:?} -> {:?}", mesh.vertices[a], mesh.vertices[b])));
        }
        if !edges.contains_key(&(b, a)) {
            return Err(("directed edge without its reverse (open or misoriented surface)".into(), format!("edge ({a},{b}): {:?} -> {:?}", mesh.vertices[a], mesh.vertices[b])));
        }
    }
    Ok(MeshStats { volume: vol, area })
}

fn mesh_case<F: Backend + RenderHints>(
    cx: &mut Cx,
    s: &ShapeDesc,
    depth: u8,
    tname: &str,
    m: &Matrix4<f32>,
    pool: Option<&ThreadPool>,
    check_volume: bool,
) {
    let desc = || json!({"backend": F::NAME, "shape": s.name, "depth": depth, "world_to_model": tname, "threads": if pool.is_some() { "pool (shim, default schedule)" } else { "none" }});
    let info = if check_volume {
        match reference(&s.prog, m, depth) {
            Some(v) => Some(v),
            None => {
                cx.add("shapes_skipped_surface_not_strictly_inside", 1);
                return;
            }
        }
    } else {
        None
    };
    // input classes used in violation signatures (computed from the input
    // alone, never from the mesher's state)
    const AMB: &str = " [the sign lattice of some octree level has a face with alternating corner signs]";
    const UNRES: &str = " [under-resolved: two surface sheets within one cell edge]";
    const ZERO: &str = " [part of the surface lies exactly on the octree lattice: zero at a lattice point or along a lattice edge]";
    const NONDIFF: &str = " [the shape is not differentiable where its surface crosses a lattice edge]";
    if let Some(i) = &info {
        if i.ambiguous_face.is_some() {
            cx.add("shapes_with_an_ambiguous_lattice_face", 1);
        }
        if !i.resolved {
            cx.add("shapes_under_resolved_at_this_depth", 1);
        }
        if i.zero_on_lattice {
            cx.add("shapes_with_the_surface_through_a_lattice_point", 1);
        }
    }
    let class_for = |kind: &str| -> &'static str {
        let Some(i) = &info else { return "" };
        if kind.starts_with("degenerate triangle (two corners") || kind.starts_with("non-finite vertex") {
            let (on_lattice, nondiff) = if i.zero_on_lattice { (true, false) } else { lattice_degeneracy(&s.prog, m, depth) };
            if on_lattice {
                return ZERO;
            }
            if nondiff {
                return NONDIFF;
            }
        }
        if i.ambiguous_face.is_some() {
            AMB
        } else if !i.resolved {
            UNRES
        } else {
            ""
        }
    };
    let vref = info.as_ref().map(|i| i.volume);
    let mut ctx = Context::new();
    let roots = s.prog.build(&mut ctx);
    let Ok(f) = crate::evalkit::build::<F>(&ctx, &roots) else { return };
    let shape = Shape::new_raw(f);
    let vars = ShapeVars::<f32>::new();
    let settings = Settings { depth, world_to_model: *m, threads: pool, cancel: Default::default() };
    cx.add("evals", 1);
    let r = guard(|| {
        let b = shape.bind(&vars).unwrap();
        Octree::build(&b, &settings).map(|o| o.walk_dual())
    });
    let mesh = match r {
        Ok(Some(m)) => m,
        Ok(None) => {
            cx.violation(format!("{} mesher returned None without cancellation", F::NAME), desc(), "None");
            return;
        }
        Err(e) => {
            cx.violation(format!("{} mesher panicked {}", F::NAME, panic_site(&e)), desc(), e);
            return;
        }
    };
    cx.add("meshes", 1);
    cx.add("triangles", mesh.triangles.len() as u64);
    if let Ok(path) = std::env::var("FV_DUMP_MESH") {
        if cx.replaying() {
            let mut o = String::new();
            for v in &mesh.vertices {
                o += &format!("v {} {} {}\n", v.x, v.y, v.z);
            }
            for t in &mesh.triangles {
                o += &format!("f {} {} {}\n", t.x + 1, t.y + 1, t.z + 1);
            }
            let _ = std::fs::write(path, o);
        }
    }
    match check_mesh(&mesh) {
        Err((kind, detail)) => {
            // inside a known input class the signature names the exact input
            // (shape, depth, transform), so that known_findings.json lists the
            // inputs that fail on the unchanged tree one by one and any OTHER
            // input of the class that starts to fail is still reported
            let class = class_for(&kind);
            let sig = if class.is_empty() {
                format!("{} mesh: {kind}", F::NAME)
            } else {
                format!("{} mesh: {kind}{class} :: {}, depth {depth}, {tname}", F::NAME, s.name)
            };
            cx.violation(sig, desc(), format!("{} triangles, {} vertices: {detail}", mesh.triangles.len(), mesh.vertices.len()));
        }
        Ok(st) => {
            if let Some(vref) = vref {
                cx.add("volume_checks", 1);
                let cell = 2.0f64.powi(1 - depth as i32) * 1.25;
                let area = st.area.max(info.as_ref().map(|i| i.area).unwrap_or(0.0));
                // calibrated: the largest error over the 119 000 meshes of the thorough tier on the
                // unchanged tree is 0.21 x area x cell
                let tol = 0.3 * area * cell + 1e-3;
                if !mesh.triangles.is_empty() && area > 0.0 {
                    cx.max("max_volume_error_in_thousandths_of_area_x_cell", (1000.0 * (st.volume - vref).abs() / (area * cell)) as u64);
                }
                if mesh.triangles.is_empty() && vref > tol.max(8.0 * cell.powi(3)) {
                    cx.violation(
                        format!("{} mesh: empty although the shape has volume{}", F::NAME, class_for("volume")),
                        desc(),
                        format!("reference volume {vref:.4}"),
                    );
                } else if !mesh.triangles.is_empty() && st.volume <= 0.0 && vref > tol {
                    cx.violation(
                        format!("{} mesh: triangles wound inward (negative signed volume){}", F::NAME, class_for("volume")),
                        desc(),
                        format!("signed volume {:.5}, reference volume {vref:.5}", st.volume),
                    );
                } else if !mesh.triangles.is_empty() && (st.volume - vref).abs() > tol {
                    cx.violation(
                        format!("{} mesh: enclosed volume differs from the shape's volume{}", F::NAME, class_for("volume")),
                        desc(),
                        format!("mesh volume {:.5}, reference {vref:.5}, tolerance {tol:.5} (area {:.4}, cell {cell})", st.volume, st.area),
                    );
                }
            }
        }
    }
}

#[derive(Clone, Debug)]
enum Unit {
    Corners { jit: bool, depth: u8 },
    Singles { jit: bool, prim: usize },
    Pairs { a: usize, b: usize, jit: bool },
}

fn units(tier: Tier) -> Vec<Unit> {
    let mut v = vec![];
    for jit in [false, true] {
        for depth in [2u8, 3, 4] {
            if tier == Tier::Quick && depth == 4 && jit {
                continue;
            }
            v.push(Unit::Corners { jit, depth });
        }
        for prim in 0..PRIMS.len() + EXTRA_PRIMS.len() {
            v.push(Unit::Singles { jit, prim });
        }
    }
    for a in 0..PRIMS.len() {
        for b in 0..PRIMS.len() {
            v.push(Unit::Pairs { a, b, jit: false });
            if tier == Tier::Thorough {
                v.push(Unit::Pairs { a, b, jit: true });
            }
        }
    }
    v
}

fn run<F: Backend + RenderHints>(cx: &mut Cx, tier: Tier, u: &Unit) {
    let pool = ThreadPool::Custom(rayon::ThreadPoolBuilder::new().num_threads(3).build().unwrap());
    let mut sub = 0u64;
    let mut case = |cx: &mut Cx, s: &ShapeDesc, depth: u8, tname: &str, m: &Matrix4<f32>, threads: bool, vol: bool| {
        let sid = sub;
        sub += 1;
        if !cx.case(sid) {
            return;
        }
        cx.add("cases", 1);
        cx.add("nontrivial", 1);
        mesh_case::<F>(cx, s, depth, tname, m, if threads { Some(&pool) } else { None }, vol);
        if sid % 101 == 0 {
            cx.sample(|| json!({"backend": F::NAME, "shape": s.name, "depth": depth, "world_to_model": tname, "threads": threads}));
        }
    };
    let id = Matrix4::identity();
    match u {
        Unit::Corners { depth, .. } => {
            for mask in 1..=255u8 {
                let Some(s) = corner_spheres(mask) else { continue };
                for threads in [false, true] {
                    // the corner spheres touch the cell corners by design; manifoldness only
                    case(cx, &s, *depth, "identity", &id, threads, false);
                }
            }
        }
        Unit::Singles { prim, .. } => {
            let dmax = if tier == Tier::Quick { 5 } else { 6 };
            // every primitive off the lattice, centred on the lattice centre
            // (axes and poles on lattice lines) and on another dyadic line
            let mut shapes = vec![];
            for p in PRIMS.iter().chain(EXTRA_PRIMS.iter()).skip(*prim).take(1) {
                shapes.push(single(*p));
                shapes.push(single_at(*p, [0.0, 0.0, 0.0]));
                shapes.push(single_at(*p, [0.25, -0.125, 0.0]));
                // off-centre along z: under the perspective transform w is not ~1 there
                shapes.push(single_at(*p, [0.1, -0.05, 0.35]));
            }
            for s in &shapes {
                for depth in 1..=dmax {
                    for (tname, m) in transforms() {
                        for threads in [false, true] {
                            case(cx, s, depth, tname, &m, threads, true);
                        }
                    }
                }
            }
        }
        Unit::Pairs { a, b, .. } => {
            let offs: Vec<[f32; 3]> = if tier == Tier::Quick {
                vec![[0.0, 0.0, 0.0], [0.4, 0.0, 0.0], [-0.4, 0.0, 0.0], [0.0, 0.4, 0.0], [0.0, 0.0, -0.4], [0.4, -0.4, 0.4]]
            } else {
                let g = [-0.4f32, 0.0, 0.4];
                let mut v = vec![];
                for x in g {
                    for y in g {
                        for z in g {
                            v.push([x, y, z]);
                        }
                    }
                }
                v
            };
            let depths: Vec<u8> = if tier == Tier::Quick { vec![1, 2, 3] } else { vec![1, 2, 3, 4, 5] };
            for op in 0..3 {
                for off in &offs {
                    let s = pair(PRIMS[*a], PRIMS[*b], op, *off);
                    for &depth in &depths {
                        for (ti, (tname, m)) in transforms().into_iter().enumerate() {
                            if tier == Tier::Quick && ti >= 2 {
                                continue;
                            }
                            case(cx, &s, depth, tname, &m, depth % 2 == 0, true);
                        }
                    }
                }
            }
        }
    }
}

impl Check for C08 {
    fn id(&self) -> &'static str {
        "C08"
    }
    fn units(&self, tier: Tier) -> usize {
        units(tier).len()
    }
    fn unit_label(&self, tier: Tier, unit: usize) -> String {
        format!("{:?}", units(tier)[unit])
    }
    fn meta(&self, tier: Tier) -> Meta {
        Meta {
            rule: "case = one mesh; (a) the 255 corner-sphere patterns of the repository's own test, at depths 2, 3 and 4 (not only 2), with and without a thread pool, VM and JIT (manifoldness only: those spheres touch cell corners by design); (b) 9 primitives {sphere r=0.3/0.6/0.85, box, cylinder, torus, cone with its apex on the surface, revolve-style sphere, metaballs whose cell intervals are NaN} at 4 placements (off the lattice, on the lattice centre, on another dyadic lattice line, off-centre along z) at every depth 1..=5 (thorough 6) x 5 world-to-model transforms (identity, rotation, non-uniform scale, small translation, camera perspective with bottom row (0,0,0.3,1)) x pool / none; (c) every ordered pair of 6 primitives under union / intersection / difference with the second one offset (quick: 6 offsets, 2 transforms, depths 1-3; thorough: all 27 offsets of {-0.4,0,0.4}^3, all transforms, depths 1-5); the generator itself verifies (f64, 25x25 samples per cube face plus an inner shell) that the surface lies strictly inside the meshing region and skips shapes that do not (counted); oracle: all coordinates finite; every directed edge exactly once and its reverse exactly once; no repeated index and no two corners at the same position in a triangle; signed volume by the divergence theorem > 0 and within 0.3*area*cell (+1e-3) of the f64 volume estimated on a (2^(depth+2))^3 midpoint grid with the volume element |det M|/w^4 of the (possibly projective) transform - the factor 0.3 is calibrated: the largest error over the 119 000 meshes of the thorough tier on the unchanged tree is 0.21*area*cell; violations inside one of three input classes computed from the input alone carry the exact input in their signature (known findings are listed input by input); the octree's own debug_assert!s are live".into(),
            bounds: match tier {
                Tier::Quick => "depth <= 4 for primitives, <= 3 for pairs; 6 offsets; 2 transforms for pairs; pairs on VM only".into(),
                Tier::Thorough => "depth <= 6 for primitives, <= 5 for pairs; 27 offsets; 4 transforms; VM and JIT".into(),
            },
            assumptions: vec![
                "exactly collinear distinct corners are not reported (the algorithm does not promise to avoid them)".into(),
                "the pool dimension uses the rayon stand-in's default schedule (schedules are C09's)".into(),
            ],
            crash_policy: CrashPolicy::Violation,
            vacuity: vec![("meshes", 500), ("volume_checks", 100), ("triangles", 10000)],
            transitions_counter: "evals",
            nontrivial_counter: "nontrivial",
            exhaustive: true,
        }
    }
    fn run_unit(&self, tier: Tier, unit: usize, cx: &mut Cx) {
        let u = units(tier)[unit].clone();
        let jit = match &u {
            Unit::Corners { jit, .. } | Unit::Singles { jit, .. } | Unit::Pairs { jit, .. } => *jit,
        };
        if jit {
            run::<JitFunction>(cx, tier, &u);
        } else {
            run::<VmFunction>(cx, tier, &u);
        }
    }
}
