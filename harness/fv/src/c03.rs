//! C03 — interval evaluation encloses every point result in the region.
//! DESIGN.md §4 C03.
use crate::alpha::{self, next_down, next_up};
use crate::evalkit::{self, Backend};
use crate::prog::{DagSpec, OpSel, POp, Prog};
use crate::refsem::{self, FOp, Flat, bin32, un32};
use crate::runner::{Check, CrashPolicy, Cx, Meta, Tier, guard, panic_site};
use fidget_core::context::{BinaryOpcode as B, Context, UnaryOpcode as U};
use fidget_core::eval::{Function, TracingEvaluator};
use fidget_core::shape::{EzShape, Shape};
use fidget_core::types::Interval;
use fidget_core::vm::VmFunction;
use fidget_jit::JitFunction;
use serde_json::json;

pub struct C03;

const ULPS: u32 = 4;

/// `v` lies in `i` up to `k` ulps.  NaN interval or NaN value: undecided (ok).
/// A NaN bound makes that side undecided.
pub fn contains(i: &Interval, v: f32, k: u32) -> bool {
    if v.is_nan() {
        return true;
    }
    let (mut lo, mut hi) = (i.lower(), i.upper());
    if lo.is_nan() && hi.is_nan() {
        return true;
    }
    for _ in 0..k {
        lo = next_down(lo);
        hi = next_up(hi);
    }
    let lo_ok = lo.is_nan() || v >= lo;
    let hi_ok = hi.is_nan() || v <= hi;
    lo_ok && hi_ok
}

#[derive(Clone)]
enum Unit {
    Unary(U, bool),
    Binary(B, bool),
    Dag { n: usize, prefix: Vec<POp> },
    /// w values live across out-of-line calls (register pressure around
    /// atan2 / mod / libm call-outs; w > 12 spills to the stack in the JIT)
    Fan { w: usize },
    /// 300 simultaneously live intervals (stack frames of several KiB in the JIT)
    Huge,
    /// root-only programs in which the op's operands are used again afterwards
    Reuse(B),
    /// root-only programs in which a unary op's argument is used again afterwards (out != arg register)
    ReuseUnary(U),
    Transform(bool),
}

fn dag_spec() -> DagSpec {
    DagSpec {
        leaves: vec![POp::Var(0), POp::Var(1), POp::Const(0.5)],
        ops: vec![
            OpSel::Bin(B::Add),
            OpSel::Bin(B::Sub),
            OpSel::Bin(B::Mul),
            OpSel::Bin(B::Div),
            OpSel::Un(U::Recip),
            OpSel::Un(U::Sqrt),
            OpSel::Un(U::Square),
            OpSel::Un(U::Abs),
            OpSel::Un(U::Sin),
            OpSel::Bin(B::Atan),
            OpSel::Un(U::Floor),
            OpSel::Bin(B::Mod),
            OpSel::Bin(B::Min),
            OpSel::Bin(B::And),
            OpSel::Bin(B::Compare),
            OpSel::Un(U::Not),
        ],
    }
}

fn units(tier: Tier) -> Vec<Unit> {
    let mut v = vec![];
    for jit in [false, true] {
        for u in refsem::UNARY {
            v.push(Unit::Unary(u, jit));
        }
        for b in refsem::BINARY {
            v.push(Unit::Binary(b, jit));
        }
        v.push(Unit::Transform(jit));
    }
    let nmax = match tier {
        Tier::Quick => 2,
        Tier::Thorough => 3,
    };
    let spec = dag_spec();
    for n in 1..=nmax {
        for p in spec.prefixes(n) {
            v.push(Unit::Dag { n, prefix: p });
        }
    }
    for w in 1..=(if tier == Tier::Quick { 16 } else { 24 }) {
        v.push(Unit::Fan { w });
    }
    v.push(Unit::Huge);
    for b in refsem::BINARY {
        v.push(Unit::Reuse(b));
    }
    for u in refsem::UNARY {
        v.push(Unit::ReuseUnary(u));
    }
    v
}

/// Sample points of an interval: endpoints, midpoint, neighbours of the
/// endpoints, and every alphabet value inside
fn sample_points(lo: f32, hi: f32, alphabet: &[f32]) -> Vec<f32> {
    let mut v = vec![lo, hi];
    if lo != hi {
        v.push(lo / 2.0 + hi / 2.0);
        let a = next_up(lo);
        if a <= hi {
            v.push(a);
        }
        let b = next_down(hi);
        if b >= lo {
            v.push(b);
        }
        for x in alphabet {
            if *x > lo && *x < hi {
                v.push(*x);
            }
        }
    }
    let mut seen = std::collections::HashSet::new();
    v.retain(|x| seen.insert(x.to_bits()));
    v
}

fn endpoint_sets(tier: Tier, op_extra: Vec<f32>) -> (Vec<f32>, Vec<f32>) {
    // (endpoints for unary / one-variable forms, endpoints for two-variable forms)
    let mut full = alpha::e_fin();
    full.extend(op_extra.iter().filter(|x| x.is_finite()));
    full.sort_by(|a, b| a.partial_cmp(b).unwrap());
    full.dedup_by(|a, b| a.to_bits() == b.to_bits());
    let small: Vec<f32> = match tier {
        Tier::Quick => vec![
            -f32::MAX,
            -1e20,
            -std::f32::consts::PI,
            -2.0,
            next_down(-1.0),
            -1.0,
            -0.5,
            -1e-40,
            0.0,
            1e-30,
            0.5,
            1.0,
            next_up(1.0),
            std::f32::consts::FRAC_PI_2,
            2.0,
            3.0,
            7.0,
            1e20,
            f32::MAX,
        ],
        Tier::Thorough => full.clone(),
    };
    (full, small)
}

struct OpHarness<F: Backend> {
    f: F,
    flat: Flat,
}

fn op_level<F: Backend>(
    cx: &mut Cx,
    sub: &mut u64,
    p: &Prog,
    opname: &str,
    ivs: &[(f32, f32)],
    alphabet: &[f32],
    point_fn: &dyn Fn(&[f32]) -> Option<f32>,
) {
    let mut ctx = Context::new();
    let roots = p.build(&mut ctx);
    let flat = Flat::from_ctx(&ctx, &roots);
    let Ok(f) = evalkit::build::<F>(&ctx, &roots) else { return };
    let h = OpHarness { f, flat };
    let nv = h.flat.vars.len();
    let desc = || json!({"program": p.describe(), "backend": F::NAME});
    let Ok(tape) = guard(|| h.f.interval_tape(Default::default())) else { return };
    let mut ev = F::new_interval_eval();
    let boxes: Vec<Vec<(f32, f32)>> = match nv {
        0 => vec![vec![]],
        1 => ivs.iter().map(|i| vec![*i]).collect(),
        _ => ivs.iter().flat_map(|a| ivs.iter().map(move |b| vec![*a, *b])).collect(),
    };
    let pts_of: Vec<Vec<f32>> = ivs.iter().map(|(lo, hi)| sample_points(*lo, *hi, alphabet)).collect();
    for (bi, bx) in boxes.iter().enumerate() {
        let s = *sub;
        *sub += 1;
        if !cx.case(s) {
            continue;
        }
        cx.add("cases", 1);
        let mut args = vec![Interval::new(0.0, 0.0); h.f.vars().len()];
        for (v, i) in h.f.vars().iter() {
            if let Some(pp) = h.flat.vars.iter().position(|u| *u == v) {
                args[i] = Interval::new(bx[pp].0, bx[pp].1);
            }
        }
        cx.add("evals", 1);
        let out = match guard(|| ev.eval(&tape, &args).map(|(o, _)| o[0])) {
            Ok(Ok(o)) => o,
            Ok(Err(_)) => continue,
            Err(e) => {
                cx.crash(format!("{}-interval crash {}", F::NAME, panic_site(&e)), desc(), format!("box {bx:?}: {e}"));
                ev = F::new_interval_eval();
                continue;
            }
        };
        if out.has_nan() {
            cx.add("nan_interval_results", 1);
            continue;
        }
        cx.add("nontrivial", 1);
        let (pa, pb): (&[f32], &[f32]) = match nv {
            0 => (&[0.0], &[0.0]),
            1 => (&pts_of[bi], &[0.0]),
            _ => (&pts_of[bi / ivs.len()], &pts_of[bi % ivs.len()]),
        };
        'outer: for a in pa {
            for b in pb {
                let Some(v) = point_fn(&[*a, *b]) else { continue };
                cx.add("point_checks", 1);
                if !contains(&out, v, ULPS) {
                    cx.violation(
                        format!("{}-interval op={opname} result does not enclose point value", F::NAME),
                        desc(),
                        format!(
                            "box {bx:?} -> [{:?}, {:?}], but at ({a:?}, {b:?}) the value is {v:?}",
                            out.lower(),
                            out.upper()
                        ),
                    );
                    break 'outer;
                }
            }
        }
    }
    cx.sample(|| json!({"program": p.describe(), "backend": F::NAME, "boxes": boxes.len()}));
}

fn unary_unit<F: Backend>(cx: &mut Cx, tier: Tier, op: U) {
    let mut sub = 0u64;
    let (full, _) = endpoint_sets(tier, alpha::unary_extra(op));
    let ivs = alpha::intervals(&full);
    let alphabet = alpha::unary_values(op, false);
    let mut p = Prog::default();
    let x = p.push(POp::Var(0));
    let r = p.push(POp::Un(op, x));
    p.roots = vec![r];
    op_level::<F>(cx, &mut sub, &p, &format!("{op:?}"), &ivs, &alphabet, &|a| Some(un32(op, a[0])));
}

fn binary_unit<F: Backend>(cx: &mut Cx, tier: Tier, op: B) {
    let mut sub = 0u64;
    let (full, small) = endpoint_sets(tier, alpha::binary_extra(op));
    let ivs2 = alpha::intervals(&small);
    let ivs1 = alpha::intervals(&full);
    let alphabet = alpha::binary_values(op, false);
    let skip = move |a: f32, b: f32| op == B::Atan && a == 0.0 && b == 0.0;
    // reg/reg
    let mut p = Prog::default();
    let x = p.push(POp::Var(0));
    let y = p.push(POp::Var(1));
    let r = p.push(POp::Bin(op, x, y));
    p.roots = vec![r];
    op_level::<F>(cx, &mut sub, &p, &format!("{op:?}"), &ivs2, &alphabet, &|a| {
        if skip(a[0], a[1]) { None } else { Some(bin32(op, a[0], a[1])) }
    });
    // same register
    let mut p = Prog::default();
    let x = p.push(POp::Var(0));
    let r = p.push(POp::Bin(op, x, x));
    p.roots = vec![r];
    op_level::<F>(cx, &mut sub, &p, &format!("{op:?}(x,x)"), &ivs1, &alphabet, &|a| {
        if skip(a[0], a[0]) { None } else { Some(bin32(op, a[0], a[0])) }
    });
    // immediates on either side
    for c in [0.0f32, -0.0, 1.0, -1.0, 0.5, -2.25, 3.0, std::f32::consts::PI, 1e20, -1e20, 1e-40, f32::MAX] {
        for form in 0..2 {
            let mut p = Prog::default();
            let x = p.push(POp::Var(0));
            let k = p.push(POp::Const(c));
            let r = if form == 0 { p.push(POp::Bin(op, x, k)) } else { p.push(POp::Bin(op, k, x)) };
            p.roots = vec![r];
            op_level::<F>(cx, &mut sub, &p, &format!("{op:?} imm"), &ivs1, &alphabet, &|a| {
                let (l, r) = if form == 0 { (a[0], c) } else { (c, a[0]) };
                if skip(l, r) { None } else { Some(bin32(op, l, r)) }
            });
        }
    }
}

/// Root-only programs (the register allocation a user gets: exporting every
/// node keeps all values live and changes which registers are shared): the
/// interval of the single output must enclose the point evaluator's value at
/// corners, edge midpoints and the centre of the box
fn root_prog<F: Backend>(cx: &mut Cx, p: &Prog, boxes: &[Vec<(f32, f32)>]) {
    let mut ctx = Context::new();
    let roots = p.build(&mut ctx);
    let flat = Flat::from_ctx(&ctx, &roots);
    let Ok(f) = evalkit::build::<F>(&ctx, &roots) else { return };
    let desc = || json!({"program": p.describe(), "context_graph": flat.describe(), "backend": F::NAME, "all_nodes_exported": false});
    let Ok(tape) = guard(|| f.interval_tape(Default::default())) else { return };
    let Ok(ptape) = guard(|| f.point_tape(Default::default())) else { return };
    let mut ev = F::new_interval_eval();
    let mut pe = F::new_point_eval();
    let (mut vals, mut amb) = (vec![], vec![]);
    for bx in boxes {
        let mut args = vec![Interval::new(0.0, 0.0); f.vars().len()];
        let mut slots = vec![usize::MAX; f.vars().len()];
        for (v, i) in f.vars().iter() {
            if let Some(pp) = flat.vars.iter().position(|u| *u == v) {
                let b = bx.get(pp).copied().unwrap_or((0.25, 0.75));
                args[i] = Interval::new(b.0, b.1);
                slots[i] = pp;
            }
        }
        cx.add("evals", 1);
        let out = match guard(|| ev.eval(&tape, &args).map(|(o, _)| o[0])) {
            Ok(Ok(o)) => o,
            Ok(Err(_)) => continue,
            Err(e) => {
                cx.crash(format!("{}-interval crash {}", F::NAME, panic_site(&e)), desc(), e);
                ev = F::new_interval_eval();
                continue;
            }
        };
        if out.has_nan() {
            continue;
        }
        cx.add("nontrivial", 1);
        // sample points: every combination of {lower, mid, upper} per variable
        let nv = args.len();
        for code in 0..3usize.pow(nv as u32) {
            let pt: Vec<f32> = (0..nv)
                .map(|i| {
                    let a = args[i];
                    match (code / 3usize.pow(i as u32)) % 3 {
                        0 => a.lower(),
                        1 => a.lower() / 2.0 + a.upper() / 2.0,
                        _ => a.upper(),
                    }
                })
                .collect();
            let Ok(Ok(v)) = guard(|| pe.eval(&ptape, &pt).map(|(o, _)| o[0])) else { continue };
            // the property's exclusions, found with the reference evaluation of
            // the graph at this point: NaN values, atan2(0, 0) anywhere in the
            // program, and results downstream of a min/max of two zeros of
            // different sign
            let by_flat: Vec<f32> = (0..flat.vars.len()).map(|k| slots.iter().position(|s| *s == k).map(|i| pt[i]).unwrap_or(0.0)).collect();
            flat.eval_all(&by_flat, &mut vals, &mut amb);
            let excluded = v.is_nan()
                || amb[flat.roots[0]]
                || vals.iter().any(|x| x.is_nan())
                || flat.ops.iter().any(|o| matches!(*o, FOp::Bin(B::Atan, a, b) if vals[a] == 0.0 && vals[b] == 0.0));
            if excluded {
                continue;
            }
            cx.add("point_checks", 1);
            if !contains(&out, v, ULPS) {
                cx.violation(
                    format!("{}-interval result of a root-only program does not enclose the point value (root op {})", F::NAME, match flat.ops[flat.roots[0]] { FOp::Bin(o, ..) => format!("{o:?}"), FOp::Un(o, _) => format!("{o:?}"), _ => "leaf".into() }),
                    desc(),
                    format!("box {bx:?} -> [{:?}, {:?}], but at {pt:?} the point evaluator gives {v:?}", out.lower(), out.upper()),
                );
                return;
            }
        }
    }
}

/// Composition: local obligation at every node of every DAG
fn dag_prog<F: Backend>(cx: &mut Cx, p: &Prog, boxes: &[Vec<(f32, f32)>]) {
    let mut ctx = Context::new();
    let all = p.build_all(&mut ctx);
    let mut roots = vec![];
    for n in all {
        if !roots.contains(&n) && ctx.get_const(n).is_err() {
            roots.push(n);
        }
    }
    if roots.is_empty() {
        return;
    }
    let flat = Flat::from_ctx(&ctx, &roots);
    let Ok(f) = evalkit::build::<F>(&ctx, &roots) else { return };
    let desc = || json!({"program": p.describe(), "context_graph": flat.describe(), "backend": F::NAME, "all_nodes_exported": true});
    let Ok(tape) = guard(|| f.interval_tape(Default::default())) else { return };
    let mut ev = F::new_interval_eval();
    let mut out_of = vec![usize::MAX; flat.ops.len()];
    for (i, r) in flat.roots.iter().enumerate() {
        out_of[*r] = i;
    }
    let nv = flat.vars.len();
    let (mut vals, mut amb) = (vec![], vec![]);
    for bx in boxes {
        let mut args = vec![Interval::new(0.0, 0.0); f.vars().len()];
        for (v, i) in f.vars().iter() {
            if let Some(pp) = flat.vars.iter().position(|u| *u == v) {
                let b = bx.get(pp).copied().unwrap_or((0.25, 0.75));
                args[i] = Interval::new(b.0, b.1);
            }
        }
        cx.add("evals", 1);
        let out = match guard(|| ev.eval(&tape, &args).map(|(o, _)| o.to_vec())) {
            Ok(Ok(o)) => o,
            Ok(Err(_)) => continue,
            Err(e) => {
                cx.crash(format!("{}-interval crash {}", F::NAME, panic_site(&e)), desc(), format!("box {bx:?}: {e}"));
                ev = F::new_interval_eval();
                continue;
            }
        };
        let iv_of = |n: usize| -> Interval {
            match flat.ops[n] {
                FOp::Const(c) => Interval::new(c, c),
                _ => out[out_of[n]],
            }
        };
        // the local obligation below takes an op's operand intervals from the
        // evaluator's own outputs; for INPUT nodes that premise is known
        // independently: an exported input must carry exactly the box it was given
        // (an op that clobbers its argument register would otherwise excuse itself
        // by turning the operand into a NaN interval)
        let mut clobbered = false;
        for (j, op) in flat.ops.iter().enumerate() {
            if let FOp::Input(vi) = op {
                if out_of[j] == usize::MAX {
                    continue;
                }
                let (lo, hi) = bx.get(*vi).copied().unwrap_or((0.25, 0.75));
                let got = out[out_of[j]];
                if !(got.lower().to_bits() == lo.to_bits() && got.upper().to_bits() == hi.to_bits()) && !(got.lower() == lo && got.upper() == hi) {
                    cx.violation(
                        format!("{}-interval: an exported input does not carry the interval it was given", F::NAME),
                        desc(),
                        format!("box {bx:?}: input {vi} was [{lo:?}, {hi:?}], its exported value is [{:?}, {:?}] (an operation overwrote its argument)", got.lower(), got.upper()),
                    );
                    clobbered = true;
                    break;
                }
            }
        }
        if clobbered {
            continue;
        }
        // corners, edge midpoints, centre
        let mut pts: Vec<Vec<f32>> = vec![vec![]];
        for d in 0..nv {
            let (lo, hi) = bx.get(d).copied().unwrap_or((0.25, 0.75));
            let c: Vec<f32> = if lo == hi { vec![lo] } else { vec![lo, lo / 2.0 + hi / 2.0, hi] };
            pts = pts
                .into_iter()
                .flat_map(|p| {
                    c.iter().map(move |x| {
                        let mut q = p.clone();
                        q.push(*x);
                        q
                    })
                })
                .collect();
        }
        'pts: for pt in &pts {
            flat.eval_all(pt, &mut vals, &mut amb);
            for (j, op) in flat.ops.iter().enumerate() {
                let ij = iv_of(j);
                if ij.has_nan() {
                    continue;
                }
                let clampv = |n: usize| -> Option<f32> {
                    let i = iv_of(n);
                    let v = vals[n];
                    if v.is_nan() || i.has_nan() {
                        None
                    } else {
                        Some(v.max(i.lower()).min(i.upper()))
                    }
                };
                let (expected, name) = match *op {
                    FOp::Input(_) => (Some(vals[j]), "Input".to_string()),
                    FOp::Const(_) => continue,
                    FOp::Un(u, a) => (clampv(a).map(|x| un32(u, x)), format!("{u:?}")),
                    FOp::Bin(b, a, c) => (
                        match (clampv(a), clampv(c)) {
                            (Some(x), Some(y)) if !(b == B::Atan && x == 0.0 && y == 0.0) => Some(bin32(b, x, y)),
                            _ => None,
                        },
                        format!("{b:?}"),
                    ),
                };
                let Some(v) = expected else { continue };
                cx.add("point_checks", 1);
                if !contains(&ij, v, ULPS) {
                    // input class: does an operand interval have an infinite endpoint
                    // (i.e. an upstream overflow)?
                    let inf_operand = match *op {
                        FOp::Un(_, a) => iv_of(a).lower().is_infinite() || iv_of(a).upper().is_infinite(),
                        FOp::Bin(_, a, c) => [a, c].iter().any(|n| iv_of(*n).lower().is_infinite() || iv_of(*n).upper().is_infinite()),
                        _ => false,
                    };
                    let class = if inf_operand { " [operand interval with an infinite endpoint]" } else { "" };
                    cx.violation(
                        format!("{}-interval op={name} result does not enclose point value (composition){class}", F::NAME),
                        desc(),
                        format!(
                            "box {bx:?}, point {pt:?}: node n{j} interval [{:?}, {:?}] but the op applied to operand values inside the operand intervals gives {v:?}",
                            ij.lower(),
                            ij.upper()
                        ),
                    );
                    break 'pts;
                }
            }
        }
    }
}

fn transform_unit<F: Backend>(cx: &mut Cx, tier: Tier) {
    use nalgebra::{Matrix4, Vector3};
    let mats: Vec<(&str, Matrix4<f32>, bool)> = vec![
        ("identity", Matrix4::identity(), true),
        ("scale 2 / 0.5 / -1", Matrix4::new_nonuniform_scaling(&Vector3::new(2.0, 0.5, -1.0)), true),
        ("rot90 z", Matrix4::new(0.0, -1.0, 0.0, 0.0, 1.0, 0.0, 0.0, 0.0, 0.0, 0.0, 1.0, 0.0, 0.0, 0.0, 0.0, 1.0), true),
        ("translate", Matrix4::new_translation(&Vector3::new(0.5, -2.0, 0.25)), true),
        ("shear", Matrix4::new(1.0, 0.5, 0.0, 0.0, 0.0, 1.0, 0.25, 0.0, 0.0, 0.0, 1.0, 0.0, 0.0, 0.0, 0.0, 1.0), true),
        ("projective", {
            let mut m = Matrix4::identity();
            m[(3, 2)] = 0.25;
            m[(3, 3)] = 2.0;
            m
        }, false),
        ("rot30 + translate", Matrix4::new_rotation(Vector3::new(0.0, 0.0, std::f32::consts::FRAC_PI_6)) * Matrix4::new_translation(&Vector3::new(0.3, 0.1, -0.7)), false),
        // bottom row (0, 0, 0, w), w != 1: uniform scale kept in the homogeneous coordinate
        ("homogeneous scale diag(1,1,1,2)", {
            let mut m = Matrix4::identity();
            m[(3, 3)] = 2.0;
            m
        }, true),
        ("shear + translate, times 4", Matrix4::new(1.0, 0.5, 0.0, 0.25, 0.0, 1.0, 0.25, -1.0, 0.0, 0.0, 1.0, 0.5, 0.0, 0.0, 0.0, 1.0) * 4.0, true),
        ("homogeneous scale diag(1,1,1,0.5)", {
            let mut m = Matrix4::identity();
            m[(3, 3)] = 0.5;
            m
        }, true),
        // bottom rows with m33 == 1 exactly (the camera perspective of the CLI
        // demo), alone, with a full bottom row, and under rotation + scale
        ("perspective z, m33 = 1", {
            let mut m = Matrix4::identity();
            m[(3, 2)] = 0.25;
            m
        }, false),
        ("perspective x y z, m33 = 1", {
            let mut m = Matrix4::identity();
            m[(3, 0)] = 0.125;
            m[(3, 1)] = -0.0625;
            m[(3, 2)] = 0.25;
            m
        }, false),
        ("perspective z, m33 = 1, rotated and scaled", {
            let mut m = Matrix4::identity();
            m[(3, 2)] = 0.3;
            m * Matrix4::new_rotation(Vector3::new(0.3, -0.2, 0.5)) * Matrix4::new_scaling(0.75)
        }, false),
        // coefficients far below f32::EPSILON are still coefficients: on a box
        // that is huge along the sheared axis they move the result by whole units
        // (these two matrices are paired with the huge-box alphabet below)
        ("tiny shear x' = x + 2^-27 y", {
            let mut m = Matrix4::identity();
            m[(0, 1)] = 2f32.powi(-27);
            m
        }, false),
        ("tiny entries 2^-27 / -2^-26 / 2^-30 off the diagonal and in the translation", {
            let mut m = Matrix4::identity();
            let t = 2f32.powi(-27);
            m[(0, 1)] = t;
            m[(0, 2)] = -2.0 * t;
            m[(1, 0)] = t / 8.0;
            m[(1, 2)] = t;
            m[(2, 0)] = -t;
            m[(2, 1)] = 2.0 * t;
            m[(0, 3)] = t;
            m
        }, false),
    ];
    let progs: Vec<Prog> = {
        let mut v = vec![];
        let mk = |f: &dyn Fn(&mut Prog, usize, usize, usize) -> usize| {
            let mut p = Prog::default();
            let x = p.push(POp::Var(0));
            let y = p.push(POp::Var(1));
            let z = p.push(POp::Var(2));
            let r = f(&mut p, x, y, z);
            p.roots = vec![r];
            p
        };
        v.push(mk(&|_p, x, _y, _z| x));
        v.push(mk(&|p, x, y, _z| p.push(POp::Bin(B::Add, x, y))));
        v.push(mk(&|p, x, y, z| {
            let a = p.push(POp::Bin(B::Mul, x, y));
            p.push(POp::Bin(B::Sub, a, z))
        }));
        v.push(mk(&|p, x, y, z| {
            let a = p.push(POp::Bin(B::Min, x, y));
            p.push(POp::Bin(B::Max, a, z))
        }));
        v.push(mk(&|p, x, y, z| {
            let a = p.push(POp::Un(U::Square, x));
            let b = p.push(POp::Un(U::Square, y));
            let c = p.push(POp::Un(U::Square, z));
            let d = p.push(POp::Bin(B::Add, a, b));
            let e = p.push(POp::Bin(B::Add, d, c));
            let s = p.push(POp::Un(U::Sqrt, e));
            let k = p.push(POp::Const(1.0));
            p.push(POp::Bin(B::Sub, s, k))
        }));
        v
    };
    let e: Vec<f32> = if tier == Tier::Quick { vec![-2.0, -0.5, 0.0, 0.25, 1.0, 3.0] } else { vec![-4.0, -2.0, -0.5, 0.0, 0.25, 1.0, 3.0, 100.0] };
    let ivs_normal = alpha::intervals(&e);
    let huge = 2f32.powi(30);
    let ivs_huge = alpha::intervals(&[-huge, -1.0, 0.0, 1.0, huge]);
    let mut sub = 0u64;
    for p in &progs {
        let mut ctx = Context::new();
        let roots = p.build(&mut ctx);
        let Ok(f) = evalkit::build::<F>(&ctx, &roots) else { continue };
        let shape = Shape::new_raw(f);
        let it = shape.ez_interval_tape();
        let pt = shape.ez_point_tape();
        let mut ie = Shape::<F>::new_interval_eval();
        let mut pe = Shape::<F>::new_point_eval();
        for (mname, m, exact) in &mats {
            let desc = || json!({"program": p.describe(), "backend": F::NAME, "matrix": mname});
            let ivs = if mname.starts_with("tiny") { &ivs_huge } else { &ivs_normal };
            for ix in ivs {
                for iy in ivs {
                    for iz in ivs.iter().step_by(3) {
                        let s = sub;
                        sub += 1;
                        if !cx.case(s) {
                            continue;
                        }
                        cx.add("cases", 1);
                        cx.add("evals", 1);
                        let out = match guard(|| {
                            ie.eval_with_transform(&it, Interval::new(ix.0, ix.1), Interval::new(iy.0, iy.1), Interval::new(iz.0, iz.1), m)
                                .map(|(o, _)| o)
                        }) {
                            Ok(Ok(o)) => o,
                            Ok(Err(_)) => continue,
                            Err(e) => {
                                cx.crash(format!("{}-interval+transform crash {}", F::NAME, panic_site(&e)), desc(), e);
                                ie = Shape::<F>::new_interval_eval();
                                continue;
                            }
                        };
                        if out.has_nan() {
                            continue;
                        }
                        cx.add("nontrivial", 1);
                        'pts: for x in [ix.0, (ix.0 + ix.1) / 2.0, ix.1] {
                            for y in [iy.0, (iy.0 + iy.1) / 2.0, iy.1] {
                                for z in [iz.0, iz.1] {
                                    cx.add("evals", 1);
                                    let Ok(Ok(v)) = guard(|| pe.eval_with_transform(&pt, x, y, z, m).map(|(v, _)| v)) else { continue };
                                    cx.add("point_checks", 1);
                                    let ok = if *exact {
                                        contains(&out, v, ULPS)
                                    } else {
                                        let tol = 1e-5 * 1f32.max(v.abs()).max(out.lower().abs()).max(out.upper().abs());
                                        v.is_nan() || (v >= out.lower() - tol && v <= out.upper() + tol)
                                    };
                                    if !ok {
                                        cx.violation(
                                            format!("{}-interval+transform result does not enclose point value", F::NAME),
                                            desc(),
                                            format!(
                                                "box [{ix:?},{iy:?},{iz:?}] -> [{:?}, {:?}], but at ({x},{y},{z}) the transformed point evaluates to {v:?}",
                                                out.lower(),
                                                out.upper()
                                            ),
                                        );
                                        break 'pts;
                                    }
                                }
                            }
                        }
                    }
                }
            }
        }
    }
}

impl Check for C03 {
    fn id(&self) -> &'static str {
        "C03"
    }
    fn units(&self, tier: Tier) -> usize {
        units(tier).len()
    }
    fn unit_label(&self, tier: Tier, unit: usize) -> String {
        match &units(tier)[unit] {
            Unit::Unary(u, j) => format!("{} op {u:?}", if *j { "jit" } else { "vm" }),
            Unit::Binary(b, j) => format!("{} op {b:?}", if *j { "jit" } else { "vm" }),
            Unit::Dag { n, .. } => format!("dag n={n}"),
            Unit::Fan { w } => format!("fan w={w}"),
            Unit::Huge => "huge".into(),
            Unit::Reuse(b) => format!("reuse {b:?}"),
            Unit::ReuseUnary(u) => format!("reuse {u:?}"),
            Unit::Transform(j) => format!("{} transform", if *j { "jit" } else { "vm" }),
        }
    }
    fn meta(&self, tier: Tier) -> Meta {
        Meta {
            rule: "case = (program, box); (a) every opcode x operand form {reg, reg/reg, same-reg, reg/imm and imm/reg with 12 immediates} x every interval (pair) over the finite endpoint alphabet E (+op-specific boundary endpoints: quadrant boundaries, +-1+-ulp, exp/ln limits), sample points per interval = endpoints, midpoint, neighbours of the endpoints and every alphabet value inside, all combinations for binary ops; (b) fan families of width w = 1..16 (thorough 24): w values live across atan2 / mod / sin / exp call-outs, consumed in three orders, all nodes exported, 225 boxes; one huge program with 300 simultaneously live intervals; for every binary opcode 11 ROOT-ONLY programs in which the op's operands are used again afterwards (register-sharing patterns; exporting all nodes would keep every value live), root interval vs the point evaluator at 3^n points of 784 boxes; the same for every UNARY opcode (4 programs each: the argument is used again after the op, so the output register differs from the argument register); every DAG up to the node bound over one representative op per interval-behaviour class {add,sub,mul,div,recip,sqrt,square,abs,sin,atan2,floor,mod,min,and,compare,not} with all nodes exported, boxes from a per-axis endpoint grid, points = corners/edge midpoints/centre, local obligation at every node on the intermediate intervals that actually arise (operand values clamped into the evaluator's operand intervals); (c) Shape API with 12 matrices (two with entries of magnitude 2^-27 ... 2^-30, far below f32::EPSILON, on boxes with endpoints up to +-2^30; exact dyadic ones checked to 4 ulp; 30-degree rotation and four projective ones - bottom row (0,0,.25,2), (0,0,.25,1), (.125,-.0625,.25,1), perspective x rotation x scale - to 1e-5 relative); VM and JIT; tolerance 4 ulp; excluded: NaN interval, NaN value, atan2(0,0); non-trivial = the returned interval is not the NaN interval".into(),
            bounds: match tier {
                Tier::Quick => "two-variable forms over 19 endpoints (190 intervals, 36100 pairs); DAG nodes <= 2".into(),
                Tier::Thorough => "two-variable forms over the full endpoint alphabet; DAG nodes <= 3 (thinned box grid at n = 3)".into(),
            },
            assumptions: vec![
                "point values by ref32 (Rust std f32 / libm)".into(),
                "subject crashes on these inputs are recorded under subject_crashes_deferred and reported by C11".into(),
                "x86_64 JIT only; the WGSL interval library is not executed".into(),
            ],
            crash_policy: CrashPolicy::Deferred,
            vacuity: vec![("point_checks", 100000), ("nontrivial", 10000)],
            transitions_counter: "evals",
            nontrivial_counter: "nontrivial",
            exhaustive: true,
        }
    }
    fn run_unit(&self, tier: Tier, unit: usize, cx: &mut Cx) {
        match units(tier)[unit].clone() {
            Unit::Unary(u, false) => unary_unit::<VmFunction>(cx, tier, u),
            Unit::Unary(u, true) => unary_unit::<JitFunction>(cx, tier, u),
            Unit::Binary(b, false) => binary_unit::<VmFunction>(cx, tier, b),
            Unit::Binary(b, true) => binary_unit::<JitFunction>(cx, tier, b),
            Unit::Transform(false) => transform_unit::<VmFunction>(cx, tier),
            Unit::Transform(true) => transform_unit::<JitFunction>(cx, tier),
            Unit::Reuse(b) => {
                let e = [-2.0f32, -0.5, -0.0, 0.0, 0.25, 1.0, 3.0];
                let iv = alpha::intervals(&e);
                let boxes: Vec<Vec<(f32, f32)>> = iv.iter().flat_map(|a| iv.iter().map(move |c| vec![*a, *c])).collect();
                for (k, p) in crate::prog::reuse_patterns(b).iter().enumerate() {
                    if cx.case(k as u64) {
                        cx.add("cases", 1);
                        root_prog::<VmFunction>(cx, p, &boxes);
                        root_prog::<JitFunction>(cx, p, &boxes);
                    }
                }
            }
            Unit::ReuseUnary(u) => {
                let e = [-2.0f32, -0.5, -0.0, 0.0, 0.25, 0.49999997, 1.0, 3.0];
                let iv = alpha::intervals(&e);
                let boxes: Vec<Vec<(f32, f32)>> = iv.iter().map(|a| vec![*a]).collect();
                for (k, p) in crate::prog::reuse_patterns_unary(u).iter().enumerate() {
                    if cx.case(k as u64) {
                        cx.add("cases", 1);
                        root_prog::<VmFunction>(cx, p, &boxes);
                        root_prog::<JitFunction>(cx, p, &boxes);
                    }
                }
            }
            Unit::Huge => {
                let p = crate::prog::huge_prog(300, false);
                let boxes: Vec<Vec<(f32, f32)>> = vec![vec![(-1.0, -0.5)], vec![(0.25, 0.25)], vec![(-2.0, 3.0)], vec![(0.0, 1e-3)]];
                if cx.case(0) {
                    cx.add("cases", 1);
                    cx.add("nontrivial", 1);
                    dag_prog::<VmFunction>(cx, &p, &boxes);
                    dag_prog::<JitFunction>(cx, &p, &boxes);
                }
            }
            Unit::Fan { w } => {
                use crate::prog::{Order, family_fan};
                let e = [-2.0f32, -0.5, 0.25, 1.0, 3.0];
                let iv = alpha::intervals(&e);
                let boxes: Vec<Vec<(f32, f32)>> =
                    iv.iter().flat_map(|a| iv.iter().map(move |b| vec![*a, *b])).collect();
                let mut sub = 0u64;
                for mid in [None, Some(U::Sin), Some(U::Exp), Some(U::Abs)] {
                    for order in [Order::Forward, Order::Reverse, Order::Interleaved] {
                        for comb in [B::Atan, B::Mod, B::Add, B::Min, B::Mul] {
                            let s = sub;
                            sub += 1;
                            if !cx.case(s) {
                                continue;
                            }
                            cx.add("cases", 1);
                            cx.add("nontrivial", 1);
                            let p = family_fan(w, mid, order, comb);
                            dag_prog::<VmFunction>(cx, &p, &boxes);
                            dag_prog::<JitFunction>(cx, &p, &boxes);
                        }
                    }
                }
            }
            Unit::Dag { n, prefix } => {
                let spec = dag_spec();
                let e: Vec<f32> = if n <= 2 {
                    vec![-1e20, -2.0, -0.5, 0.0, 0.25, 1.0, std::f32::consts::FRAC_PI_2, 7.0, 1e20]
                } else {
                    vec![-2.0, -0.5, 0.0, 1.0, 7.0]
                };
                let iv = alpha::intervals(&e);
                let boxes: Vec<Vec<(f32, f32)>> =
                    iv.iter().flat_map(|a| iv.iter().map(move |b| vec![*a, *b])).collect();
                let mut sub = 0u64;
                spec.for_each(n, &prefix, true, &mut |p, _| {
                    let s = sub;
                    sub += 1;
                    if !cx.case(s) {
                        return;
                    }
                    cx.add("cases", 1);
                    cx.add("nontrivial", 1);
                    dag_prog::<VmFunction>(cx, p, &boxes);
                    dag_prog::<JitFunction>(cx, p, &boxes);
                    cx.sample(|| json!({"program": p.describe(), "boxes": boxes.len()}));
                });
            }
        }
    }
}
