//! C09 — parallel execution and cancellation are unobservable in results.
//! DESIGN.md §4 C09 and Appendix A.
//!
//! Stateless exploration with preemption bounding over the controlled
//! scheduler in the rayon stand-in (/verif/harness/rayon-shim): every run
//! re-executes the real workload from scratch under a recorded choice prefix;
//! the explorer enumerates (a) how the task list is cut into jobs, (b) which
//! job runs next at every scheduling point (job start / end and the
//! `verif-hooks` points in fidget), up to a preemption bound, and (c) the
//! point at which the environment sets the cancel flag (any scheduling point
//! or cancellation poll, or never).
use crate::evalkit::{self, Backend};
use crate::prog::Prog;
use crate::runner::{Check, CrashPolicy, Cx, Meta, Tier, guard, panic_site};
use crate::scene;
use fidget_core::context::Context;
use fidget_core::eval::{BulkEvaluator, TracingEvaluator};
use fidget_core::render::{CancelToken, ImageSize, RenderHints, ThreadPool, TileSizes, VoxelSize};
use fidget_core::shape::{Shape, ShapeVars};
use fidget_core::types::{Grad, Interval};
use fidget_core::verif::Point;
use fidget_core::vm::VmFunction;
use fidget_jit::JitFunction;
use fidget_mesh::{Octree, Settings};
use rayon::prelude::*;
use rayon::verif::{self as sched, Mode, PointKind, Trace};
use serde_json::json;
use std::collections::BinaryHeap;
use std::sync::Arc;
use std::sync::atomic::{AtomicBool, Ordering};

pub struct C09;

/// If true, cancellation polls are full scheduling points (job switches are
/// offered there too); otherwise only the environment's cancel step is
static POLLS_SWITCH: AtomicBool = AtomicBool::new(false);

fn hook(p: Point) {
    match p {
        Point::CancelPoll if !POLLS_SWITCH.load(Ordering::Relaxed) => sched::env_point(p as u32),
        _ => sched::yield_point(p as u32),
    }
}

/// What a workload run is observed to produce (None = the API returned None)
type Obs = Option<Vec<u64>>;

struct Workload {
    name: String,
    /// runs the workload with the given pool / cancel token
    run: Box<dyn Fn(Option<&ThreadPool>, &CancelToken) -> Obs + Send + Sync>,
    pool_threads: usize,
    max_jobs: usize,
    polls_switch: bool,
    /// use ThreadPool::Global (rayon's global pool, here with `pool_threads` threads)
    global: bool,
}

fn img_obs(bytes: &[u8]) -> Vec<u64> {
    bytes.chunks(8).map(|c| {
        let mut b = [0u8; 8];
        b[..c.len()].copy_from_slice(c);
        u64::from_le_bytes(b)
    }).collect()
}

fn build_shape<F: Backend>(p: &Prog) -> Shape<F> {
    let mut ctx = Context::new();
    let roots = p.build(&mut ctx);
    Shape::new_raw(evalkit::build::<F>(&ctx, &roots).expect("shape"))
}

fn render2d<F: Backend + RenderHints>(w: u32, h: u32, tile: usize) -> Workload {
    let scene = &scene::scenes_2d()[7]; // min-chain of 4 circles: tiles simplify differently
    render2d_scene::<F>("", &scene.prog, w, h, tile, nalgebra::Matrix3::identity(), 4, true)
}

/// Many root tiles of a single tile level over a scene whose tiles produce
/// many different traces (some of which do not shorten the tape): every root
/// tile is one simplify call on the render handle of the job that executes it,
/// so per-handle state carried from tile to tile shows up as a dependence on
/// how the tile list is cut into jobs.
fn render2d_many_tiles<F: Backend + RenderHints>() -> Workload {
    let mut m = nalgebra::Matrix3::identity();
    m.prepend_translation_mut(&nalgebra::Vector2::new(0.25, 0.125));
    render2d_scene::<F>("two clipped disks, ", &crate::c10::clipped_disks(), 64, 32, 8, m, 3, false)
}

#[allow(clippy::too_many_arguments)]
fn render2d_scene<F: Backend + RenderHints>(label: &str, prog: &Prog, w: u32, h: u32, tile: usize, mat: nalgebra::Matrix3<f32>, max_jobs: usize, polls_switch: bool) -> Workload {
    let shape = build_shape::<F>(prog);
    Workload {
        name: format!("{} 2D render {label}{w}x{h} tiles [{tile}]", F::NAME),
        run: Box::new(move |pool, cancel| {
            let vars = ShapeVars::<f32>::new();
            let cfg = fidget_raster::pixel::RenderConfig { image_size: ImageSize::new(w, h), world_to_model: mat, pixel_perfect: false, z: 0.0 };
            let ecfg = fidget_raster::pixel::EvalConfig { tile_sizes: Some(TileSizes::new(&[tile]).unwrap()), threads: pool, cancel: cancel.clone() };
            fidget_raster::pixel::render(shape.bind(&vars).unwrap(), &cfg, &ecfg).map(|img| {
                img.iter()
                    .map(|p| match p.unpack() {
                        fidget_raster::pixel::DistancePixel::Value(v) => v.to_bits() as u64,
                        fidget_raster::pixel::DistancePixel::Fill { depth, inside } => 1 << 40 | (depth as u64) << 1 | inside as u64,
                    })
                    .collect()
            })
        }),
        pool_threads: 4,
        max_jobs,
        polls_switch,
        global: false,
    }
}

fn render3d<F: Backend + RenderHints>(w: u32, h: u32, d: u32, tile: usize) -> Workload {
    let scene = &scene::scenes_3d()[5]; // small sphere above a plate
    let shape = build_shape::<F>(&scene.prog);
    Workload {
        name: format!("{} 3D render {w}x{h}x{d} tiles [{tile}]", F::NAME),
        run: Box::new(move |pool, cancel| {
            let vars = ShapeVars::<f32>::new();
            let cfg = fidget_raster::voxel::RenderConfig { image_size: VoxelSize::new(w, h, d), world_to_model: nalgebra::Matrix4::identity() };
            let ecfg = fidget_raster::voxel::EvalConfig { tile_sizes: Some(TileSizes::new(&[tile]).unwrap()), threads: pool, cancel: cancel.clone() };
            fidget_raster::voxel::render(shape.bind(&vars).unwrap(), &cfg, &ecfg).map(|img| img_obs(img.as_bytes()))
        }),
        pool_threads: 4,
        max_jobs: 4,
        polls_switch: true,
        global: false,
    }
}

/// Post-processing effects on a 3D render (row-parallel `apply_effect`):
/// denoise_normals followed by apply_shading without SSAO (SSAO draws its
/// kernel from an unseeded RNG and is not comparable between runs)
fn effects() -> Workload {
    let scene = &scene::scenes_3d()[5];
    let shape = build_shape::<VmFunction>(&scene.prog);
    let vars = ShapeVars::<f32>::new();
    let cfg = fidget_raster::voxel::RenderConfig { image_size: VoxelSize::new(12, 6, 8), world_to_model: nalgebra::Matrix4::identity() };
    let ecfg = fidget_raster::voxel::EvalConfig { tile_sizes: Some(TileSizes::new(&[4]).unwrap()), threads: None, cancel: CancelToken::new() };
    let img = fidget_raster::voxel::render(shape.bind(&vars).unwrap(), &cfg, &ecfg).expect("render");
    Workload {
        name: "effects: denoise_normals + apply_shading (no SSAO) on a 12x6 geometry image".into(),
        run: Box::new(move |pool, _| {
            let d = fidget_raster::effects::denoise_normals(&img, pool);
            let c = fidget_raster::effects::apply_shading(&d, false, pool);
            let mut out = img_obs(d.as_bytes());
            out.extend(c.iter().map(|p| (p[0] as u64) << 16 | (p[1] as u64) << 8 | p[2] as u64));
            Some(out)
        }),
        pool_threads: 4,
        max_jobs: 3,
        polls_switch: true,
        global: false,
    }
}

/// Mesh as a multiset of triangles over vertex-position bit patterns,
/// rotation-normalised and sorted
fn mesh_obs(m: &fidget_mesh::Mesh) -> Vec<u64> {
    let key = |i: usize| -> [u32; 3] {
        let v = m.vertices[i];
        [v.x.to_bits(), v.y.to_bits(), v.z.to_bits()]
    };
    let mut tris: Vec<[[u32; 3]; 3]> = m
        .triangles
        .iter()
        .map(|t| {
            let k = [key(t.x), key(t.y), key(t.z)];
            // rotate so that the smallest vertex comes first (keeps winding)
            let s = (0..3).min_by_key(|i| k[*i]).unwrap();
            [k[s], k[(s + 1) % 3], k[(s + 2) % 3]]
        })
        .collect();
    tris.sort();
    tris.iter().flat_map(|t| t.iter().flat_map(|v| v.iter().map(|b| *b as u64))).collect()
}

/// Two clipped balls: min(max(max(x-a, y-b), ball), max(max(x-c, z-d), ball')) -
/// octree cells produce many different traces, some of which do not shorten
/// the tape (3D analogue of `c10::clipped_disks`)
fn clipped_balls() -> Prog {
    use crate::prog::POp;
    use fidget_core::context::{BinaryOpcode as B, UnaryOpcode as U};
    let mut p = Prog::default();
    let x = p.push(POp::Var(0));
    let y = p.push(POp::Var(1));
    let z = p.push(POp::Var(2));
    let mut part = |p: &mut Prog, u: usize, v: usize, a: f32, b: f32, c: [f32; 3], r2: f32| {
        let ka = p.push(POp::Const(a));
        let ua = p.push(POp::Bin(B::Sub, u, ka));
        let kb = p.push(POp::Const(b));
        let vb = p.push(POp::Bin(B::Sub, v, kb));
        let half = p.push(POp::Bin(B::Max, ua, vb));
        let mut s = None;
        for (axis, cc) in [(x, c[0]), (y, c[1]), (z, c[2])] {
            let k = p.push(POp::Const(cc));
            let d = p.push(POp::Bin(B::Sub, axis, k));
            let q = p.push(POp::Un(U::Square, d));
            s = Some(match s {
                None => q,
                Some(t) => p.push(POp::Bin(B::Add, t, q)),
            });
        }
        let kr = p.push(POp::Const(r2));
        let ball = p.push(POp::Bin(B::Sub, s.unwrap(), kr));
        p.push(POp::Bin(B::Max, half, ball))
    };
    let a = part(&mut p, x, y, -0.5625, 0.5, [-0.6875, 0.1875, 0.125], 0.3125);
    let b = part(&mut p, x, z, 0.0, -0.0, [-0.5, -0.4375, -0.25], 0.28125);
    let r = p.push(POp::Bin(B::Min, a, b));
    p.roots = vec![r];
    p
}

/// A ball of radius 0.9 centred on the (+1,+1,+1) corner of the region united
/// with a gently tilted half-space: octree tasks whose root collapse is
/// attempted and rejected sit next to bare leaf tasks whose siblings collapse
/// at the merge (per-worker state carried from task to task shows up here)
fn corner_ball_floor() -> Prog {
    use crate::prog::POp;
    use fidget_core::context::{BinaryOpcode as B, UnaryOpcode as U};
    let mut p = Prog::default();
    let x = p.push(POp::Var(0));
    let y = p.push(POp::Var(1));
    let z = p.push(POp::Var(2));
    let one = p.push(POp::Const(1.0));
    let mut s = None;
    for a in [x, y, z] {
        let d = p.push(POp::Bin(B::Sub, a, one));
        let q = p.push(POp::Un(U::Square, d));
        s = Some(match s {
            None => q,
            Some(t) => p.push(POp::Bin(B::Add, t, q)),
        });
    }
    let r = p.push(POp::Un(U::Sqrt, s.unwrap()));
    let k = p.push(POp::Const(0.9));
    let ball = p.push(POp::Bin(B::Sub, r, k));
    let k7 = p.push(POp::Const(0.7));
    let f0 = p.push(POp::Bin(B::Add, z, k7));
    let k1 = p.push(POp::Const(0.1));
    let fx = p.push(POp::Bin(B::Mul, x, k1));
    let k05 = p.push(POp::Const(0.05));
    let fy = p.push(POp::Bin(B::Mul, y, k05));
    let f1 = p.push(POp::Bin(B::Add, f0, fx));
    let floor = p.push(POp::Bin(B::Add, f1, fy));
    let root = p.push(POp::Bin(B::Min, ball, floor));
    p.roots = vec![root];
    p
}

fn mesh<F: Backend + RenderHints>(depth: u8, pool_threads: usize, max_jobs: usize) -> Workload {
    mesh_scene::<F>("", &scene::scenes_3d()[5].prog, depth, pool_threads, max_jobs)
}

fn mesh_scene<F: Backend + RenderHints>(label: &str, prog: &Prog, depth: u8, pool_threads: usize, max_jobs: usize) -> Workload {
    mesh_scene_mat::<F>(label, prog, depth, pool_threads, max_jobs, nalgebra::Matrix4::identity())
}

fn mesh_scene_mat<F: Backend + RenderHints>(label: &str, prog: &Prog, depth: u8, pool_threads: usize, max_jobs: usize, mat: nalgebra::Matrix4<f32>) -> Workload {
    let shape = build_shape::<F>(prog);
    Workload {
        name: format!("{} mesh {label}depth {depth} pool size {pool_threads}", F::NAME),
        run: Box::new(move |pool, cancel| {
            let vars = ShapeVars::<f32>::new();
            let settings = Settings { depth, world_to_model: mat, threads: pool, cancel: cancel.clone() };
            let b = shape.bind(&vars).unwrap();
            Octree::build(&b, &settings).map(|o| mesh_obs(&o.walk_dual()))
        }),
        pool_threads,
        max_jobs,
        polls_switch: false,
        global: false,
    }
}

struct Exec {
    trace: Trace,
    obs: Result<Obs, String>,
}

fn run_once(w: &Workload, prefix: &[usize], with_pool: bool, arm_cancel: bool) -> Exec {
    POLLS_SWITCH.store(w.polls_switch, Ordering::Relaxed);
    let cancel = CancelToken::new();
    let c2 = cancel.clone();
    let env: Option<Arc<dyn Fn() + Send + Sync>> = if arm_cancel { Some(Arc::new(move || c2.cancel())) } else { None };
    let pool = if w.global {
        sched::set_global_threads(w.pool_threads);
        ThreadPool::Global
    } else {
        ThreadPool::Custom(rayon::ThreadPoolBuilder::new().num_threads(w.pool_threads).build().unwrap())
    };
    sched::begin(prefix.to_vec(), env, w.max_jobs);
    let obs = guard(|| (w.run)(if with_pool { Some(&pool) } else { None }, &cancel));
    let trace = sched::end();
    Exec { trace, obs }
}

#[derive(PartialEq, Eq)]
struct Item {
    cost: usize,
    seq: u64,
    prefix: Vec<usize>,
}
impl Ord for Item {
    fn cmp(&self, o: &Self) -> std::cmp::Ordering {
        // min-heap on (cost, seq)
        (o.cost, o.seq).cmp(&(self.cost, self.seq))
    }
}
impl PartialOrd for Item {
    fn partial_cmp(&self, o: &Self) -> Option<std::cmp::Ordering> {
        Some(self.cmp(o))
    }
}

fn preemptions_before(t: &Trace, i: usize) -> usize {
    t.points[..i]
        .iter()
        .filter(|p| p.kind == PointKind::Sched && p.cur_enabled && p.chosen != 0 && Some(p.chosen) != p.cancel_idx)
        .count()
}

fn describe(t: &Trace) -> Vec<String> {
    t.points
        .iter()
        .map(|p| match p.kind {
            PointKind::Partition => format!("{}", if p.chosen == 1 { format!("cut before item {}", p.tag) } else { format!("no cut before item {}", p.tag) }),
            PointKind::Sched => {
                let tag = match p.tag {
                    1 => "tile-task",
                    2 => "sub-tile",
                    3 => "octree-task",
                    4 => "cancel-poll",
                    1000 => "par-start",
                    1001 => "job-end",
                    _ => "?",
                };
                if Some(p.chosen) == p.cancel_idx {
                    format!("{tag}: CANCEL")
                } else if p.cur_enabled && p.chosen == 0 {
                    format!("{tag}: continue")
                } else {
                    format!("{tag}: run option {} of {}", p.chosen, p.n)
                }
            }
        })
        .collect()
}

fn push_children(heap: &mut BinaryHeap<Item>, seq: &mut u64, prefix: &[usize], t: &Trace, bound: usize) {
    // alternatives at every point after the prefix
    for i in prefix.len()..t.points.len() {
        let p = &t.points[i];
        let before = preemptions_before(t, i);
        for alt in 1..p.n {
            let extra = usize::from(p.kind == PointKind::Sched && p.cur_enabled && Some(alt) != p.cancel_idx);
            if before + extra > bound {
                continue;
            }
            let mut np: Vec<usize> = t.points[..i].iter().map(|q| q.chosen).collect();
            np.push(alt);
            *seq += 1;
            heap.push(Item { cost: before + extra, seq: *seq, prefix: np });
        }
    }
}

/// Explores all schedules of the workload within the preemption bound.
#[allow(clippy::too_many_arguments)]
fn explore(cx: &mut Cx, sub: &mut u64, w: &Workload, with_pool: bool, arm_cancel: bool, bound: usize, cap: u64) {
    sched::set_mode(Mode::Controlled);
    fidget_core::verif::set_hook(Some(hook));
    // the reference: sequential, no pool, no cancellation, scheduler off
    sched::set_mode(Mode::Sequential);
    let reference = guard(|| (w.run)(None, &CancelToken::new()));
    sched::set_mode(Mode::Controlled);
    let reference: Obs = match reference {
        Ok(r) => r,
        Err(e) => {
            cx.violation(format!("reference run panicked {}", panic_site(&e)), json!({"workload": w.name}), e);
            return;
        }
    };
    if reference.is_none() {
        cx.violation("no-pool run without cancellation returned no result".to_string(), json!({"workload": w.name}), "None");
        return;
    }
    let base = json!({"workload": w.name, "pool": with_pool, "cancel_armed": arm_cancel, "preemption_bound": bound});
    let mut heap = BinaryHeap::new();
    let mut seq = 0u64;
    heap.push(Item { cost: 0, seq, prefix: vec![] });
    let mut outcomes: std::collections::HashSet<u64> = std::collections::HashSet::new();
    let mut replay_checked = false;
    let mut runs = 0u64;
    let mut completed: i64 = bound as i64;
    while let Some(Item { prefix, cost, .. }) = heap.pop() {
        let s = *sub;
        *sub += 1;
        let live = cx.case(s);
        if !live && !cx.replaying() {
            // a known crasher being skipped after a restart
            continue;
        }
        if !live {
            // replay of a later case: run silently, only to enumerate children
            let x = run_once(w, &prefix, with_pool, arm_cancel);
            push_children(&mut heap, &mut seq, &prefix, &x.trace, bound);
            continue;
        }
        runs += 1;
        if runs > cap {
            cx.add("schedule_cap_hit", 1);
            completed = cost as i64 - 1;
            break;
        }
        let x = run_once(w, &prefix, with_pool, arm_cancel);
        cx.add("cases", 1);
        cx.add("evals", 1);
        cx.add("nontrivial", 1);
        let pre = preemptions_before(&x.trace, x.trace.points.len());
        cx.add(&format!("schedules_with_{pre}_preemptions"), 1);
        cx.max("max_jobs_in_a_parallel_op", x.trace.jobs.iter().copied().max().unwrap_or(0) as u64);
        cx.max("max_scheduling_points", x.trace.sched_points as u64);
        let desc = || {
            let mut d = base.clone();
            d["choices"] = json!(x.trace.points.iter().map(|p| p.chosen).collect::<Vec<_>>());
            d["schedule"] = json!(describe(&x.trace));
            d
        };
        if x.trace.diverged {
            cx.violation("MACHINERY: replayed prefix diverged (uncontrolled nondeterminism)".to_string(), desc(), "a prefix choice was out of range");
            return;
        }
        // determinism: replay the first multi-point schedule twice
        if !replay_checked && x.trace.points.len() >= 2 {
            replay_checked = true;
            let choices: Vec<usize> = x.trace.points.iter().map(|p| p.chosen).collect();
            let y = run_once(w, &choices, with_pool, arm_cancel);
            let same_trace = y.trace.points.len() == x.trace.points.len() && y.trace.points.iter().zip(&x.trace.points).all(|(a, b)| a.chosen == b.chosen && a.n == b.n && a.tag == b.tag);
            if !same_trace || format!("{:?}", y.obs) != format!("{:?}", x.obs) {
                cx.violation("MACHINERY: the same schedule replayed twice differs".to_string(), desc(), "replay mismatch");
                return;
            }
            cx.add("schedules_replayed_twice_identically", 1);
        }
        // oracle
        match &x.obs {
            Err(e) => {
                cx.violation(format!("panic under a schedule {}", panic_site(e)), desc(), e.clone());
            }
            Ok(obs) => {
                let mut h = std::collections::hash_map::DefaultHasher::new();
                use std::hash::{Hash, Hasher};
                obs.hash(&mut h);
                outcomes.insert(h.finish());
                if !x.trace.cancel_fired {
                    match obs {
                        None => cx.violation("run returned no result although the cancel token was never set".to_string(), desc(), "None"),
                        Some(o) if Some(o) != reference.as_ref() => {
                            let k = o.iter().zip(reference.as_ref().unwrap()).position(|(a, b)| a != b);
                            cx.violation(
                                "result depends on the schedule (differs from the sequential no-pool result)".to_string(),
                                desc(),
                                format!("{} words vs {}; first difference at word {:?}", o.len(), reference.as_ref().unwrap().len(), k),
                            );
                        }
                        _ => (),
                    }
                } else {
                    cx.add("schedules_with_cancel", 1);
                    // cancelled before the first poll => None
                    let first_poll = x.trace.points.iter().position(|p| p.kind == PointKind::Sched && p.cancel_idx.is_some());
                    let fired_at = x.trace.points.iter().position(|p| Some(p.chosen) == p.cancel_idx);
                    match obs {
                        None => cx.add("cancelled_runs_returning_none", 1),
                        Some(o) if Some(o) == reference.as_ref() => {
                            cx.add("cancelled_runs_returning_full_result", 1);
                            if fired_at == first_poll && first_poll.is_some() && x.trace.points[first_poll.unwrap()].tag != 1001 {
                                // cancel took the very first opportunity, before any work
                                cx.violation(
                                    "cancelled before any work, yet a result was returned".to_string(),
                                    desc(),
                                    "the token was set at the first scheduling point".to_string(),
                                );
                            }
                        }
                        Some(o) => {
                            cx.violation(
                                "cancelled run returned a partial / different result".to_string(),
                                desc(),
                                format!("{} words, reference {} words", o.len(), reference.as_ref().unwrap().len()),
                            );
                        }
                    }
                }
            }
        }
        if s % 4999 == 0 {
            cx.sample(desc);
        }
        push_children(&mut heap, &mut seq, &prefix, &x.trace, bound);
        if cx.replaying() {
            return;
        }
    }
    if completed >= 0 {
        cx.add(&format!("workloads_fully_explored_to_preemption_bound_{completed}"), 1);
    } else {
        cx.add("workloads_not_fully_explored_even_without_preemptions", 1);
    }
    // per-workload record in the evidence (maxima): schedules explored and the
    // preemption bound that was explored completely, plus one (0 = not even
    // the non-preemptive schedules were completed)
    let tag = format!("{}{}{}", w.name, if with_pool { "" } else { " [no pool]" }, if arm_cancel { " [cancel armed]" } else { "" });
    cx.max(&format!("workload: {tag} :: schedules"), runs.min(cap));
    cx.max(&format!("workload: {tag} :: complete_bound_plus_1"), (completed + 1) as u64);
    cx.max("distinct_outcomes_in_a_workload", outcomes.len() as u64);
    if arm_cancel && outcomes.len() < 2 && runs > 3 {
        cx.add("vacuous_cancel_workloads", 1);
    }
}

/// One tape evaluated from three controlled threads, two rounds of point /
/// interval / float-slice / grad-slice evaluation each
fn shared_tape<F: Backend>() -> Workload {
    let scene = &scene::scenes_3d()[5];
    let mut ctx = Context::new();
    let roots = scene.prog.build(&mut ctx);
    let f = evalkit::build::<F>(&ctx, &roots).expect("function");
    let nv = f.vars().len();
    let pt = f.point_tape(Default::default());
    let it = f.interval_tape(Default::default());
    let ft = f.float_slice_tape(Default::default());
    let gt = f.grad_slice_tape(Default::default());
    let inputs: Vec<Vec<f32>> = (0..3).map(|t| (0..nv).map(|v| 0.3 * t as f32 - 0.4 + 0.2 * v as f32).collect()).collect();
    let work = move |t: usize| -> Vec<u64> {
        let mut out = vec![];
        let a = &inputs[t];
        let mut pe = F::new_point_eval();
        let mut ie = F::new_interval_eval();
        let mut fe = F::new_float_slice_eval();
        let mut ge = F::new_grad_slice_eval();
        // handles onto the shared tapes
        let (pt, it, ft, gt) = (pt.clone(), it.clone(), ft.clone(), gt.clone());
        for round in 0..2u32 {
            sched::yield_point(10 + round);
            let (o, _) = pe.eval(&pt, a).unwrap();
            out.extend(o.iter().map(|v| v.to_bits() as u64));
            let iv: Vec<Interval> = a.iter().map(|x| Interval::new(*x - 0.1, *x + 0.1 * (round + 1) as f32)).collect();
            let (o, _) = ie.eval(&it, &iv).unwrap();
            out.extend(o.iter().flat_map(|v| [v.lower().to_bits() as u64, v.upper().to_bits() as u64]));
            sched::yield_point(20 + round);
            let cols: Vec<Vec<f32>> = a.iter().map(|x| vec![*x, *x + 0.5, *x - 0.25]).collect();
            let o = fe.eval(&ft, &cols).unwrap();
            out.extend(o[0].iter().map(|v| v.to_bits() as u64));
            let gcols: Vec<Vec<Grad>> = a
                .iter()
                .enumerate()
                .map(|(i, x)| vec![Grad::new(*x, (i == 0) as u8 as f32, (i == 1) as u8 as f32, (i == 2) as u8 as f32); 2])
                .collect();
            let o = ge.eval(&gt, &gcols).unwrap();
            out.extend(o[0].iter().flat_map(|g| [g.v.to_bits() as u64, g.dx.to_bits() as u64, g.dy.to_bits() as u64, g.dz.to_bits() as u64]));
        }
        out
    };
    Workload {
        name: format!("{} one tape, three threads, two rounds of point/interval/float-slice/grad-slice evaluation each", F::NAME),
        run: Box::new(move |_, _| {
            let res: Vec<Vec<u64>> = (0..3usize).into_par_iter().map(&work).collect();
            Some(res.into_iter().enumerate().flat_map(|(t, v)| std::iter::once(0xffff_0000 + t as u64).chain(v)).collect())
        }),
        pool_threads: 3,
        max_jobs: 3,
        polls_switch: true,
        global: false,
    }
}

fn shared_tape_unit<F: Backend>(cx: &mut Cx, sub: &mut u64, bound: usize, cap: u64) {
    let w = shared_tape::<F>();
    explore(cx, sub, &w, true, false, bound, cap);
    // labelled supplement (sampling, not deciding): free-running OS threads
    sched::set_mode(Mode::Sequential);
    let solo = (w.run)(None, &CancelToken::new());
    sched::set_mode(Mode::Free(3));
    for _ in 0..200 {
        let r = guard(|| (w.run)(None, &CancelToken::new()));
        cx.add("supplement_free_running_rounds_SAMPLING", 1);
        if r.as_ref().ok() != Some(&solo) {
            cx.violation(
                format!("{} shared tape (free-running supplement): results differ from solo results", F::NAME),
                json!({"workload": w.name, "mode": "free-running threads (sampling)"}),
                "mismatch".to_string(),
            );
            break;
        }
    }
    sched::set_mode(Mode::Sequential);
}

/// Bodies for the free-running thread-sanitizer pass (tools/tsan_pass.sh builds
/// the harness with `-Zsanitizer=thread` and runs `fv tsan-bodies <rounds>`).
/// The controlled scheduler's hand-offs are happens-before edges and would
/// blind a race detector, so here NO hook is installed and the rayon stand-in
/// runs every parallel operation on real, free-running threads.  Each round
/// also races a canceller thread against the run.  Result oracle as in the
/// deciding exploration: complete result, or None only when cancelled.
pub fn tsan_bodies(rounds: usize) -> i32 {
    fidget_core::verif::set_hook(None);
    let mut ws: Vec<Workload> = vec![
        render2d::<VmFunction>(24, 8, 8),
        render2d::<JitFunction>(24, 8, 8),
        render2d_many_tiles::<VmFunction>(),
        render3d::<VmFunction>(12, 4, 8, 4),
        render3d::<JitFunction>(8, 4, 8, 4),
        effects(),
        mesh::<VmFunction>(2, 6, 3),
        mesh::<VmFunction>(3, 2, 3),
        mesh::<JitFunction>(2, 3, 3),
        mesh_scene::<VmFunction>("corner ball + floor", &corner_ball_floor(), 3, 7, 3),
        shared_tape::<VmFunction>(),
        shared_tape::<JitFunction>(),
    ];
    let mut bad = 0;
    for w in ws.iter_mut() {
        sched::set_mode(Mode::Sequential);
        let pool = ThreadPool::Custom(rayon::ThreadPoolBuilder::new().num_threads(w.pool_threads.max(2)).build().unwrap());
        let solo = (w.run)(Some(&pool), &CancelToken::new());
        sched::set_mode(Mode::Free(4));
        let (mut full, mut none, mut wrong) = (0, 0, 0);
        for r in 0..rounds {
            // (a) never cancelled
            let got = (w.run)(Some(&pool), &CancelToken::new());
            if got != solo {
                wrong += 1;
            }
            // (b) a canceller racing the run
            let tok = CancelToken::new();
            let t2 = tok.clone();
            let delay: u64 = [0u64, 10_000, 100_000, 300_000, 1_000_000, 3_000_000, 10_000_000, 20_000_000][r % 8];
            let got = std::thread::scope(|sc| {
                sc.spawn(move || {
                    for _ in 0..delay {
                        std::hint::spin_loop();
                    }
                    t2.cancel();
                });
                (w.run)(Some(&pool), &tok)
            });
            match got {
                None => none += 1,
                g if g == solo => full += 1,
                _ => wrong += 1,
            }
        }
        println!("TSAN-BODIES workload=\"{}\" rounds={rounds} cancelled_none={none} cancelled_full={full} wrong_results={wrong}", w.name);
        bad += wrong;
    }
    sched::set_mode(Mode::Sequential);
    if bad > 0 { 3 } else { 0 }
}

fn bound_for_mesh(tier: Tier) -> usize {
    if tier == Tier::Quick { 1 } else { 2 }
}

#[derive(Clone, Debug)]
enum Unit {
    Render2 { jit: bool, tiles: u32, cancel: bool },
    Render3 { jit: bool, tiles: u32, cancel: bool },
    Mesh { jit: bool, depth: u8, pool: usize, cancel: bool },
    NoPool { kind: u8 },
    SharedTape { jit: bool },
    Effects,
    /// 32 root tiles of one level over a scene with many distinct traces
    ManyTiles { jit: bool },
    /// meshing a scene whose octree cells produce many distinct traces
    MeshManyTraces { depth: u8, pool: usize },
    /// meshing under a non-identity world-to-model transform (vertices are
    /// mapped back to model space; pre-split cells may collapse at the merge)
    MeshTransformed { depth: u8, pool: usize, scene: usize },
    /// mixed-depth pre-split (depth 2 with 1-5 threads, depth 3 with 7) of a
    /// scene with rejected collapses next to collapsing leaf tasks
    MeshCornerBall { depth: u8, pool: usize },
    /// the same workloads through ThreadPool::Global
    Global { kind: u8, cancel: bool },
    /// product enumeration (default schedule): a grid of shapes x depths x every
    /// pool size 1..=16 vs the no-pool mesh (which cells are pre-split depends on
    /// the pool size, whether a pre-split cell collapses depends on the geometry)
    PoolSweep { depth: u8, chunk: usize },
}

const SWEEP_CHUNKS: usize = 6;

/// off-lattice spheres (centres on a 5^3 grid with irrational-looking offsets, 4
/// radii) and tilted slabs: small, gently curved surfaces whose octree cells
/// collapse, in every position relative to the pre-split cells
fn sweep_shapes() -> Vec<(String, Prog)> {
    let mut v = vec![];
    let cs = [-0.668918f32, -0.33093978, 0.00068330765, 0.32769263, 0.59729064];
    for (ri, r) in [0.17915599f32, 0.2876f32, 0.4381f32, 0.7106095f32].into_iter().enumerate() {
        for (i, cx) in cs.iter().enumerate() {
            for (j, cy) in cs.iter().enumerate() {
                for (k, cz) in cs.iter().enumerate() {
                    // thin the two larger radii: every other centre
                    if ri >= 2 && (i + j + k) % 2 == 1 {
                        continue;
                    }
                    let mut b = scene::PB::default();
                    let root = b.sphere([*cx, *cz, *cy], r);
                    v.push((format!("sphere c=({cx},{cz},{cy}) r={r}"), b.done(root)));
                }
            }
        }
    }
    v
}

fn pool_sweep(cx: &mut Cx, depth: u8, chunk: usize) {
    sched::set_mode(Mode::Sequential);
    fidget_core::verif::set_hook(None);
    let shapes = sweep_shapes();
    let pools: Vec<ThreadPool> = (1..=16).map(|n| ThreadPool::Custom(rayon::ThreadPoolBuilder::new().num_threads(n).build().unwrap())).collect();
    for (si, (name, prog)) in shapes.iter().enumerate() {
        if si % SWEEP_CHUNKS != chunk {
            continue;
        }
        if !cx.case(si as u64) {
            continue;
        }
        let shape = build_shape::<VmFunction>(prog);
        let vars = ShapeVars::<f32>::new();
        let run = |pool: Option<&ThreadPool>| {
            let settings = Settings { depth, world_to_model: nalgebra::Matrix4::identity(), threads: pool, cancel: CancelToken::new() };
            let b = shape.bind(&vars).unwrap();
            guard(|| Octree::build(&b, &settings).map(|o| mesh_obs(&o.walk_dual())))
        };
        let reference = run(None);
        cx.add("evals", 1);
        for (n, pool) in pools.iter().enumerate() {
            cx.add("cases", 1);
            cx.add("nontrivial", 1);
            cx.add("evals", 1);
            cx.add("pool_sweep_meshes", 1);
            let got = run(Some(pool));
            if got != reference {
                let d = |r: &Result<Obs, String>| match r {
                    Ok(Some(v)) => format!("{} triangles", v.len() / 9),
                    Ok(None) => "None".to_owned(),
                    Err(e) => format!("panic {e}"),
                };
                cx.violation(
                    "mesh depends on the pool size (differs from the no-pool mesh)",
                    json!({"shape": name, "depth": depth, "pool_threads": n + 1, "schedule": "default (one job)"}),
                    format!("no pool: {}; pool of {} threads: {}", d(&reference), n + 1, d(&got)),
                );
            }
        }
    }
}

fn units(tier: Tier) -> Vec<Unit> {
    let mut v = vec![];
    for cancel in [false, true] {
        for tiles in [2u32, 3, 4] {
            v.push(Unit::Render2 { jit: false, tiles, cancel });
            v.push(Unit::Render3 { jit: false, tiles, cancel });
        }
        v.push(Unit::Render2 { jit: true, tiles: 3, cancel });
        v.push(Unit::Render3 { jit: true, tiles: 2, cancel });
    }
    // The pool size reaches the mesher only through
    // target_count = min(8^depth, 10 * thread_count) (octree.rs), i.e. through
    // the pre-split: depth 1 always gives 8 tasks; depth 2 gives 15, 22, 36,
    // 43, 50 tasks for n = 1..5 and 64 for every n >= 6; depth 3 gives a
    // different split for most n.  One representative per class is explored.
    let mesh_cfgs: Vec<(u8, usize)> = match tier {
        Tier::Quick => vec![(0, 1), (0, 16), (1, 1), (1, 16), (2, 1), (2, 2)],
        Tier::Thorough => vec![(0, 1), (0, 16), (1, 1), (1, 16), (2, 1), (2, 2), (2, 3), (2, 4), (2, 5), (2, 6), (2, 16), (3, 1), (3, 7)],
    };
    for (depth, pool) in mesh_cfgs {
        for cancel in [false, true] {
            if depth == 3 && cancel {
                continue;
            }
            v.push(Unit::Mesh { jit: false, depth, pool, cancel });
        }
    }
    v.push(Unit::Mesh { jit: true, depth: 2, pool: 1, cancel: true });
    for kind in 0..3 {
        v.push(Unit::NoPool { kind });
    }
    v.push(Unit::SharedTape { jit: false });
    v.push(Unit::SharedTape { jit: true });
    v.push(Unit::Effects);
    v.push(Unit::ManyTiles { jit: false });
    v.push(Unit::ManyTiles { jit: true });
    for (depth, pool) in [(2u8, 1usize), (2, 6), (3, 2)] {
        v.push(Unit::MeshManyTraces { depth, pool });
    }
    for (depth, pool) in [(2u8, 1usize), (2, 3), (2, 5), (3, 7)] {
        v.push(Unit::MeshCornerBall { depth, pool });
    }
    for (depth, pool, scene) in [(2u8, 1usize, 0usize), (2, 6, 0), (3, 16, 0), (2, 2, 1), (1, 1, 0), (3, 13, 1)] {
        v.push(Unit::MeshTransformed { depth, pool, scene });
    }
    for kind in 0..3 {
        for cancel in [false, true] {
            v.push(Unit::Global { kind, cancel });
        }
    }
    for depth in [2u8, 3, 4] {
        for chunk in 0..SWEEP_CHUNKS {
            v.push(Unit::PoolSweep { depth, chunk });
        }
    }
    v
}

impl Check for C09 {
    fn id(&self) -> &'static str {
        "C09"
    }
    fn units(&self, tier: Tier) -> usize {
        units(tier).len()
    }
    fn unit_label(&self, tier: Tier, unit: usize) -> String {
        format!("{:?}", units(tier)[unit])
    }
    fn meta(&self, tier: Tier) -> Meta {
        Meta {
            rule: "case = one complete execution of a real workload under a recorded schedule; the rayon stand-in resolves every decision from the schedule: (1) how the task list is cut into contiguous jobs (every composition up to max_jobs; map_init's init runs once per job), (2) which runnable job holds the baton at each scheduling point - parallel-op start, job end, and the verif-hooks points at the start of each raster root-tile task, each tile-recursion entry and each octree task (raster: also each cancellation poll) - explored by stateless re-execution in order of increasing preemption count up to the bound, (3) the environment's single step CancelToken::cancel(), offered at every scheduling point and at EVERY cancellation poll (per octree cell, per tile) until it has fired; workloads: 2D render with 2, 3, 4 root tiles and with 32 root tiles of one level over a scene with many distinct tile traces (each root tile = one simplify on the job's render handle; <= 3 jobs), 3D render with 2, 3, 4 root tiles, octree meshing of a scene with many distinct cell traces (depth 2 pool sizes 1 and 6, depth 3 pool size 2; task list cut into <= 3 / 2 jobs) of a corner ball united with a tilted floor in the mixed-depth pre-split regime (depth 2 pools 1, 3, 5; depth 3 pool 7), of a sphere and a box under a non-identity world-to-model transform (scale 2 + translation; 6 depth / pool-size combinations), and of a simple scene for one pool size per pre-split class (the pool size reaches the mesher only through target_count = min(8^depth, 10*threads): depth 0 -> the root cell alone; depth 1 -> 8 tasks for every n; depth 2 -> 15, 22, 36, 43, 50 tasks for n = 1..5 and 64 for n >= 6; quick: depths 0 and 1 n in {1,16}, depth 2 n in {1,2}; thorough: depth 2 n in {1..6,16} and depth 3 n in {1,7}), VM (+ JIT on one workload per kind), plus the no-pool paths (cancel at every poll), ThreadPool::Global (one workload per kind), and the row-parallel post-processing effects denoise_normals + apply_shading (6 rows cut into <= 3 jobs; SSAO excluded: unseeded RNG); oracles: never cancelled => Some(r) with r equal to the sequential no-pool result (images bitwise, meshes as sorted multisets of rotation-normalised triangles over vertex bit patterns); cancelled => None or exactly the full result, and None when the token is set at the first opportunity; one schedule per workload is replayed twice and must reproduce trace and observation; a prefix that diverges is a machinery error; shared tapes: 3 controlled threads x 2 rounds of point / interval / float-slice / grad-slice evaluation through handles onto one set of tapes, with a scheduling point before each round's tracing evaluations and before its bulk evaluations (4 per thread), explored like the other workloads, each thread's results equal to its solo results; pool-size sweep (round 10, a product enumeration in the default schedule): 375 off-lattice spheres (5^3 centres x 4 radii, the larger two thinned) x depths 2, 3, 4 x EVERY pool size 1..=16 - the mesh must equal the no-pool mesh (which cells are pre-split depends on the pool size; whether a pre-split cell collapses at the merge fix-up depends on the geometry); labelled sampling supplement: the same bodies on free-running OS threads (200 rounds) - reported under its own counter, not deciding".into(),
            bounds: match tier {
                Tier::Quick => "preemption bound 2 (raster, shared tape), 1 (mesh); schedules are explored in order of increasing preemption count and capped at 8000 per workload: a workload that hits the cap is fully explored only up to the bound recorded in the counters workloads_fully_explored_to_preemption_bound_<k>".into(),
                Tier::Thorough => "preemption bound 2 (raster, mesh), 3 (shared tape); schedules are explored in order of increasing preemption count and capped at 100000 per workload: a workload that hits the cap is fully explored only up to the bound recorded in the counters workloads_fully_explored_to_preemption_bound_<k>".into(),
            },
            assumptions: vec![
                "the cooperative scheduler interleaves at instrumented points only (sequentially consistent hand-offs); data races inside an evaluator call and weak-memory effects on the Relaxed cancel flag are outside it (DESIGN.md §6)".into(),
                "real rayon only produces halving-tree partitions, a subset of the contiguous compositions enumerated here".into(),
            ],
            crash_policy: CrashPolicy::Violation,
            vacuity: vec![("schedules_with_1_preemptions", 50), ("schedules_with_cancel", 100), ("cancelled_runs_returning_none", 10), ("workloads_fully_explored_to_preemption_bound_1", 1)],
            transitions_counter: "evals",
            nontrivial_counter: "nontrivial",
            exhaustive: true,
        }
    }
    fn run_unit(&self, tier: Tier, unit: usize, cx: &mut Cx) {
        let mut sub = 0u64;
        let cap = if tier == Tier::Quick { 8000 } else { 100000 };
        match units(tier)[unit].clone() {
            Unit::Render2 { jit, tiles, cancel } => {
                let (w, h) = (8 * tiles.min(2), if tiles > 2 { 8 * (tiles - 1).min(2) } else { 8 });
                // 2 tiles: 16x8; 3 tiles: 16x16 minus... use widths: 2 -> 16x8, 3 -> 24x8, 4 -> 16x16
                let (w, h) = match tiles { 2 => (16, 8), 3 => (24, 8), _ => (w, h.max(16)) };
                let wl = if jit { render2d::<JitFunction>(w, h, 8) } else { render2d::<VmFunction>(w, h, 8) };
                explore(cx, &mut sub, &wl, true, cancel, 2, cap);
            }
            Unit::Render3 { jit, tiles, cancel } => {
                let (w, h) = match tiles { 2 => (8, 4), 3 => (12, 4), _ => (8, 8) };
                let wl = if jit { render3d::<JitFunction>(w, h, 8, 4) } else { render3d::<VmFunction>(w, h, 8, 4) };
                explore(cx, &mut sub, &wl, true, cancel, 2, cap);
            }
            Unit::Mesh { jit, depth, pool, cancel } => {
                let max_jobs = if depth == 1 && !cancel { 3 } else { 2 };
                let bound = if depth == 3 { 1 } else { bound_for_mesh(tier) };
                let wl = if jit { mesh::<JitFunction>(depth, pool, max_jobs) } else { mesh::<VmFunction>(depth, pool, max_jobs) };
                explore(cx, &mut sub, &wl, true, cancel, bound, cap);
            }
            Unit::NoPool { kind } => {
                let wl = match kind {
                    0 => render2d::<VmFunction>(16, 16, 8),
                    1 => render3d::<VmFunction>(8, 8, 8, 4),
                    _ => mesh::<VmFunction>(2, 1, 1),
                };
                explore(cx, &mut sub, &wl, false, true, 0, cap);
            }
            Unit::Global { kind, cancel } => {
                let mut wl = match kind {
                    0 => render2d::<VmFunction>(24, 8, 8),
                    1 => render3d::<VmFunction>(12, 4, 8, 4),
                    _ => mesh::<VmFunction>(2, 5, 2),
                };
                wl.global = true;
                wl.name = format!("{} (ThreadPool::Global)", wl.name);
                explore(cx, &mut sub, &wl, true, cancel, if kind == 2 && tier == Tier::Quick { 1 } else { 2 }, cap);
            }
            Unit::MeshCornerBall { depth, pool } => {
                let wl = mesh_scene::<VmFunction>("corner ball + tilted floor, ", &corner_ball_floor(), depth, pool, 2);
                explore(cx, &mut sub, &wl, true, false, 1, cap.min(4000));
            }
            Unit::MeshTransformed { depth, pool, scene } => {
                // a camera of half-width 2 with an offset, as a GUI would build it
                let mat = nalgebra::Matrix4::new_translation(&nalgebra::Vector3::new(0.1, -0.05, 0.2)) * nalgebra::Matrix4::new_scaling(2.0);
                let sc = &scene::scenes_3d()[scene];
                let wl = mesh_scene_mat::<VmFunction>(&format!("{} under scale 2 + translation, ", sc.name), &sc.prog, depth, pool, 2, mat);
                explore(cx, &mut sub, &wl, true, false, 1, cap.min(4000));
            }
            Unit::MeshManyTraces { depth, pool } => {
                let wl = mesh_scene::<VmFunction>("two clipped balls, ", &clipped_balls(), depth, pool, if pool == 1 && depth == 2 { 3 } else { 2 });
                explore(cx, &mut sub, &wl, true, false, 1, cap.min(6000));
            }
            Unit::ManyTiles { jit } => {
                let wl = if jit { render2d_many_tiles::<JitFunction>() } else { render2d_many_tiles::<VmFunction>() };
                explore(cx, &mut sub, &wl, true, false, 1, cap);
            }
            Unit::Effects => {
                explore(cx, &mut sub, &effects(), true, false, 2, cap);
            }
            Unit::PoolSweep { depth, chunk } => pool_sweep(cx, depth, chunk),
            Unit::SharedTape { jit } => {
                let bound = if tier == Tier::Quick { 2 } else { 3 };
                if jit {
                    shared_tape_unit::<JitFunction>(cx, &mut sub, bound, cap);
                } else {
                    shared_tape_unit::<VmFunction>(cx, &mut sub, bound, cap);
                }
            }
        }
        sched::set_mode(Mode::Sequential);
        fidget_core::verif::set_hook(None);
    }
}
