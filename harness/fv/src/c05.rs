//! C05 — gradient evaluation returns the partial derivatives of the
//! expression.  DESIGN.md §4 C05.
use crate::evalkit::{self, Backend};
use crate::prog::{DagSpec, OpSel, POp, Prog};
use crate::refsem::{self, FOp, Flat};
use crate::runner::{Check, CrashPolicy, Cx, Meta, Tier, guard, panic_site};
use fidget_core::context::{BinaryOpcode as B, Context, UnaryOpcode as U};
use fidget_core::eval::Function;
use fidget_core::shape::{EzShape, Shape};
use fidget_core::types::Grad;
use fidget_core::var::Var;
use fidget_core::vm::{GenericVmFunction, VmFunction};
use fidget_jit::JitFunction;
use serde_json::json;

pub struct C05;

/// Forward-mode dual number over f64 with three partials, plus a magnitude
/// bound per partial (sum of absolute values of the terms, for a
/// cancellation-aware tolerance)
#[derive(Copy, Clone, Debug)]
pub struct D64 {
    pub v: f64,
    pub d: [f64; 3],
    pub m: [f64; 3],
}

impl D64 {
    pub fn from_grad(g: &Grad) -> D64 {
        D64 {
            v: g.v as f64,
            d: [g.dx as f64, g.dy as f64, g.dz as f64],
            m: [g.dx.abs() as f64, g.dy.abs() as f64, g.dz.abs() as f64],
        }
    }
    pub fn constant(c: f64) -> D64 {
        D64 { v: c, d: [0.0; 3], m: [0.0; 3] }
    }
    fn scale(&self, v: f64, k: f64) -> D64 {
        D64 { v, d: self.d.map(|x| x * k), m: self.m.map(|x| x * k.abs()) }
    }
    fn zero_d(v: f64) -> D64 {
        D64 { v, d: [0.0; 3], m: [0.0; 3] }
    }
}

const NEAR: f64 = 1e-3;

fn near_int(x: f64) -> bool {
    (x - x.round()).abs() <= NEAR
}

/// Applies a unary op to a dual; `None` if the point is on (or within 1e-3
/// of) the op's non-differentiable locus, or outside its domain
pub fn dual_un(op: U, a: D64) -> Option<D64> {
    let v = a.v;
    if !v.is_finite() {
        return None;
    }
    Some(match op {
        U::Neg => a.scale(-v, -1.0),
        U::Abs => {
            if v.abs() <= NEAR {
                return None;
            }
            a.scale(v.abs(), v.signum())
        }
        U::Recip => {
            if v.abs() <= NEAR {
                return None;
            }
            a.scale(1.0 / v, -1.0 / (v * v))
        }
        U::Sqrt => {
            if v <= NEAR {
                return None;
            }
            a.scale(v.sqrt(), 0.5 / v.sqrt())
        }
        U::Square => a.scale(v * v, 2.0 * v),
        U::Floor | U::Ceil => {
            if near_int(v) {
                return None;
            }
            D64::zero_d(if op == U::Floor { v.floor() } else { v.ceil() })
        }
        U::Round => {
            if ((v - v.floor()) - 0.5).abs() <= NEAR {
                return None;
            }
            D64::zero_d(v.round())
        }
        U::Sin => a.scale(v.sin(), v.cos()),
        U::Cos => a.scale(v.cos(), -v.sin()),
        U::Tan => {
            if v.cos().abs() <= 0.05 {
                return None;
            }
            a.scale(v.tan(), 1.0 / (v.cos() * v.cos()))
        }
        U::Asin => {
            if v.abs() >= 1.0 - 0.01 {
                return None;
            }
            a.scale(v.asin(), 1.0 / (1.0 - v * v).sqrt())
        }
        U::Acos => {
            if v.abs() >= 1.0 - 0.01 {
                return None;
            }
            a.scale(v.acos(), -1.0 / (1.0 - v * v).sqrt())
        }
        U::Atan => a.scale(v.atan(), 1.0 / (1.0 + v * v)),
        U::Exp => {
            if v > 80.0 {
                return None;
            }
            a.scale(v.exp(), v.exp())
        }
        U::Ln => {
            if v <= NEAR {
                return None;
            }
            a.scale(v.ln(), 1.0 / v)
        }
        U::Not => {
            if v.abs() <= NEAR {
                return None;
            }
            D64::zero_d(0.0)
        }
        // piecewise constant on the float grid; value is checked separately
        U::Rand => D64::zero_d(f64::NAN),
    })
}

pub fn dual_bin(op: B, a: D64, b: D64) -> Option<D64> {
    let (x, y) = (a.v, b.v);
    if !x.is_finite() || !y.is_finite() {
        return None;
    }
    let lin = |v: f64, ka: f64, kb: f64| -> D64 {
        let mut d = [0.0; 3];
        let mut m = [0.0; 3];
        for i in 0..3 {
            d[i] = ka * a.d[i] + kb * b.d[i];
            m[i] = ka.abs() * a.m[i] + kb.abs() * b.m[i];
        }
        D64 { v, d, m }
    };
    Some(match op {
        B::Add => lin(x + y, 1.0, 1.0),
        B::Sub => lin(x - y, 1.0, -1.0),
        B::Mul => lin(x * y, y, x),
        B::Div => {
            if y.abs() <= NEAR {
                return None;
            }
            lin(x / y, 1.0 / y, -x / (y * y))
        }
        B::Atan => {
            let r = x * x + y * y;
            if r <= NEAR {
                return None;
            }
            // atan2(y = a, x = b)
            lin(x.atan2(y), y / r, -x / r)
        }
        B::Min | B::Max => {
            if (x - y).abs() <= NEAR * 1f64.max(x.abs()) {
                return None;
            }
            let left = if op == B::Min { x < y } else { x > y };
            if left { a } else { b }
        }
        B::Compare => {
            if (x - y).abs() <= NEAR * 1f64.max(x.abs()) {
                return None;
            }
            D64::zero_d(if x < y { -1.0 } else { 1.0 })
        }
        B::Mod => {
            if y.abs() <= NEAR || near_int(x / y) {
                return None;
            }
            let e = (x / y.abs()).floor() * y.signum(); // div_euclid
            lin(x - y * e, 1.0, -e)
        }
        B::And => {
            if x.abs() <= NEAR {
                return None;
            }
            b
        }
        B::Or => {
            if x.abs() <= NEAR {
                return None;
            }
            a
        }
        B::Mix => D64::zero_d(f64::NAN),
    })
}

const TOL: f64 = 1e-4;

/// Compares an evaluator's gradient with the reference dual.  The value must
/// be `==` to `point_value` (NaN = NaN).
fn grad_ok(g: &Grad, r: &D64) -> Result<(), String> {
    let gd = [g.dx as f64, g.dy as f64, g.dz as f64];
    for i in 0..3 {
        let tol = TOL * 1f64.max(r.d[i].abs()).max(r.m[i]);
        if !gd[i].is_finite() && !r.d[i].is_finite() {
            continue;
        }
        // near or beyond the f32 range the f32 evaluation overflows where the
        // f64 reference does not: not a differentiability question, skip
        if r.m[i] > 1e30 || r.d[i].abs() > 1e30 || r.v.abs() > 1e30 {
            continue;
        }
        if (gd[i] - r.d[i]).abs() > tol {
            return Err(format!(
                "partial {} = {:e}, true derivative {:e} (tolerance {:e})",
                ["d/dx", "d/dy", "d/dz"][i],
                gd[i],
                r.d[i],
                tol
            ));
        }
    }
    Ok(())
}

fn value_eq(a: f32, b: f32) -> bool {
    a == b || (a.is_nan() && b.is_nan())
}

fn seeds() -> Vec<[f32; 3]> {
    vec![
        [1.0, 0.0, 0.0],
        [0.0, 1.0, 0.0],
        [0.0, 0.0, 1.0],
        [2.0, -3.0, 0.5],
        [0.0, 0.0, 0.0],
        [1.0, 1.0, 1.0],
    ]
}

fn grad_values() -> Vec<f32> {
    vec![
        0.0, 0.5, -0.5, 1.0, -1.0, 2.0, -2.0, 3.0, -2.25, 1.5, 0.1, 0.75, -0.3, 7.0, -7.0, 100.0,
        std::f32::consts::PI, -std::f32::consts::FRAC_PI_2, 1e-2, 12.625,
    ]
}

#[derive(Clone)]
enum Unit {
    Unary(U),
    Binary(B),
    Dag { n: usize, prefix: Vec<POp> },
    Fan { w: usize },
    /// 300 simultaneously live gradients
    Huge,
    /// root-only programs in which the op's operands are used again afterwards
    Reuse(B),
    Transform,
    /// outer(inner(x, y | const), y | const) for EVERY pair of opcodes (all 30,
    /// not only the DAG alphabet): local chain rule + Context::deriv
    AllOps(usize),
}

fn dag_spec() -> DagSpec {
    let mut ops: Vec<OpSel> = vec![];
    for u in [U::Neg, U::Abs, U::Recip, U::Sqrt, U::Square, U::Sin, U::Cos, U::Atan, U::Exp, U::Ln, U::Floor] {
        ops.push(OpSel::Un(u));
    }
    for b in [B::Add, B::Sub, B::Mul, B::Div, B::Atan, B::Min, B::Max, B::Mod, B::And] {
        ops.push(OpSel::Bin(b));
    }
    DagSpec {
        leaves: vec![POp::Var(0), POp::Var(1), POp::Const(1.5)],
        ops,
    }
}

fn units(tier: Tier) -> Vec<Unit> {
    let mut v = vec![Unit::Transform];
    for u in refsem::UNARY {
        v.push(Unit::Unary(u));
    }
    for b in refsem::BINARY {
        v.push(Unit::Binary(b));
    }
    let nmax = match tier {
        Tier::Quick => 2,
        Tier::Thorough => 3,
    };
    let spec = dag_spec();
    for n in 1..=nmax {
        for p in spec.prefixes(n) {
            v.push(Unit::Dag { n, prefix: p });
        }
    }
    for w in 1..=(if tier == Tier::Quick { 16 } else { 24 }) {
        v.push(Unit::Fan { w });
    }
    v.push(Unit::Huge);
    for i in 0..(refsem::UNARY.len() + refsem::BINARY.len()) {
        v.push(Unit::AllOps(i));
    }
    for b in [B::Add, B::Sub, B::Mul, B::Div, B::Atan, B::Min, B::Max, B::Mod, B::And, B::Or, B::Compare] {
        v.push(Unit::Reuse(b));
    }
    v
}

/// (a) op level with arbitrary seeds, slice lengths 1..=9
fn op_level<F: Backend>(cx: &mut Cx, sub: &mut u64, p: &Prog, opname: &str, arity: usize) {
    let mut ctx = Context::new();
    let roots = p.build(&mut ctx);
    let flat = Flat::from_ctx(&ctx, &roots);
    let Ok(f) = evalkit::build::<F>(&ctx, &roots) else { return };
    let nv = flat.vars.len();
    if nv == 0 {
        return;
    }
    let desc = || json!({"program": p.describe(), "backend": F::NAME});
    let vals = grad_values();
    let sd = seeds();
    // all (value, seed) inputs per variable
    let mut inputs: Vec<Vec<Grad>> = vec![];
    if nv == 1 {
        for v in &vals {
            for s in &sd {
                inputs.push(vec![Grad::new(*v, s[0], s[1], s[2])]);
            }
        }
    } else {
        for (i, a) in vals.iter().enumerate() {
            for (j, b) in vals.iter().enumerate() {
                for (k, s) in sd.iter().enumerate() {
                    let t = sd[(k + i + j) % sd.len()];
                    inputs.push(vec![Grad::new(*a, s[0], s[1], s[2]), Grad::new(*b, t[0], t[1], t[2])]);
                }
            }
        }
    }
    let _ = arity;
    // chunk the inputs into slices of lengths 1..=9 cyclically
    let mut pos = 0usize;
    let mut len = 1usize;
    while pos < inputs.len() {
        let chunk = &inputs[pos..(pos + len).min(inputs.len())];
        pos += chunk.len();
        let this_len = chunk.len();
        len = len % 9 + 1;
        let s = *sub;
        *sub += 1;
        if !cx.case(s) {
            continue;
        }
        cx.add("cases", 1);
        let mut cols = vec![vec![Grad::new(0.0, 0.0, 0.0, 0.0); this_len]; f.vars().len()];
        let mut pcols = vec![vec![0.0f32; this_len]; f.vars().len()];
        for (v, i) in f.vars().iter() {
            if let Some(pp) = flat.vars.iter().position(|u| *u == v) {
                for (l, inp) in chunk.iter().enumerate() {
                    cols[i][l] = inp[pp];
                    pcols[i][l] = inp[pp].v;
                }
            }
        }
        cx.add("evals", 2);
        let out = match evalkit::eval_grad_slice(&f, &cols) {
            Ok(o) => o,
            Err(e) => {
                cx.crash(format!("{}-grad-slice crash {}", F::NAME, panic_site(&e)), desc(), e);
                continue;
            }
        };
        if out.len() != 1 || out[0].len() != this_len {
            cx.violation(format!("{}-grad-slice result shape", F::NAME), desc(), format!("len {this_len}"));
            continue;
        }
        let Ok(pout) = evalkit::eval_float_slice(&f, &pcols) else { continue };
        for (l, inp) in chunk.iter().enumerate() {
            let g = out[0][l];
            if !value_eq(g.v, pout[0][l]) {
                cx.violation(
                    format!("{}-grad-slice op={opname} value differs from point evaluator", F::NAME),
                    desc(),
                    format!("inputs {inp:?}: grad value {:?}, float-slice value {:?}", g.v, pout[0][l]),
                );
                break;
            }
            // reference dual from the graph the context holds
            let duals: Vec<D64> = inp.iter().map(D64::from_grad).collect();
            let Some(r) = eval_dual(&flat, &duals) else {
                cx.add("skipped_near_nondifferentiable_locus", 1);
                continue;
            };
            let r = r[flat.roots[0]];
            let Some(r) = r else {
                cx.add("skipped_near_nondifferentiable_locus", 1);
                continue;
            };
            cx.add("gradient_checks", 1);
            cx.add("nontrivial", 1);
            if let Err(e) = grad_ok(&g, &r) {
                cx.violation(
                    format!("{}-grad-slice op={opname} wrong partial derivative", F::NAME),
                    desc(),
                    format!("inputs {inp:?} (slice length {this_len}): {e}; evaluator returned {g:?}"),
                );
                break;
            }
        }
    }
    cx.sample(|| json!({"program": p.describe(), "backend": F::NAME, "inputs": inputs.len()}));
}

/// Evaluates the whole graph with duals; a node is `None` if it or an
/// ancestor is near a locus
fn eval_dual(flat: &Flat, inputs: &[D64]) -> Option<Vec<Option<D64>>> {
    let mut out: Vec<Option<D64>> = Vec::with_capacity(flat.ops.len());
    for op in &flat.ops {
        let r = match *op {
            FOp::Input(i) => inputs.get(i).copied(),
            FOp::Const(c) => Some(D64::constant(c as f64)),
            FOp::Un(u, a) => out[a].and_then(|a| dual_un(u, a)),
            FOp::Bin(b, a, c) => match (out[a], out[c]) {
                (Some(a), Some(c)) => dual_bin(b, a, c),
                _ => None,
            },
        };
        out.push(r);
    }
    Some(out)
}

/// Root-only programs (the register allocation a user gets: exporting every
/// node keeps all values live and changes which registers are shared): the
/// gradient of the single output vs the f64 dual-number derivative of the
/// whole program; the value must equal the float-slice evaluator's
fn root_prog<F: Backend>(cx: &mut Cx, p: &Prog, pts: &[Vec<f32>]) {
    let mut ctx = Context::new();
    let roots = p.build(&mut ctx);
    let flat = Flat::from_ctx(&ctx, &roots);
    let Ok(f) = evalkit::build::<F>(&ctx, &roots) else { return };
    let desc = || json!({"program": p.describe(), "context_graph": flat.describe(), "backend": F::NAME, "all_nodes_exported": false});
    let n = pts.len();
    let mut cols = vec![vec![Grad::new(0.0, 0.0, 0.0, 0.0); n]; f.vars().len()];
    let mut pcols = vec![vec![0.0f32; n]; f.vars().len()];
    let mut slot_of = vec![usize::MAX; 3];
    for (v, i) in f.vars().iter() {
        if let Some(pp) = flat.vars.iter().position(|u| *u == v) {
            for (l, pt) in pts.iter().enumerate() {
                let x = pt[pp];
                cols[i][l] = match v {
                    Var::X => Grad::new(x, 1.0, 0.0, 0.0),
                    Var::Y => Grad::new(x, 0.0, 1.0, 0.0),
                    Var::Z => Grad::new(x, 0.0, 0.0, 1.0),
                    _ => Grad::new(x, 0.0, 0.0, 0.0),
                };
                pcols[i][l] = x;
            }
            match v {
                Var::X => slot_of[0] = pp,
                Var::Y => slot_of[1] = pp,
                Var::Z => slot_of[2] = pp,
                _ => (),
            }
        }
    }
    cx.add("evals", 2);
    let out = match evalkit::eval_grad_slice(&f, &cols) {
        Ok(o) => o,
        Err(e) => {
            cx.crash(format!("{}-grad-slice crash {}", F::NAME, panic_site(&e)), desc(), e);
            return;
        }
    };
    let Ok(vals) = evalkit::eval_float_slice(&f, &pcols) else { return };
    for (l, pt) in pts.iter().enumerate() {
        let g = out[0][l];
        if !value_eq(g.v, vals[0][l]) {
            cx.violation(
                format!("{}-grad-slice value of a root-only program differs from the float-slice value", F::NAME),
                desc(),
                format!("at {pt:?}: {:?} vs {:?}", g.v, vals[0][l]),
            );
            return;
        }
        // reference: forward-mode duals through the whole program
        let vars: Vec<D64> = (0..3)
            .map(|a| {
                let mut d = D64::constant(if slot_of[a] != usize::MAX { pt[slot_of[a]] as f64 } else { 0.0 });
                d.d[a] = 1.0;
                d.m[a] = 1.0;
                d
            })
            .collect();
        let Some(r) = crate::c07::eval_dual(p, &vars) else {
            cx.add("points_skipped_near_non_differentiable_locus", 1);
            continue;
        };
        cx.add("nontrivial", 1);
        if let Err(m) = grad_ok(&g, &r) {
            cx.violation(format!("{}-grad-slice gradient of a root-only program differs from the dual-number derivative", F::NAME), desc(), format!("at {pt:?}: {m}"));
            return;
        }
    }
}

/// (b) + (c): composition with the local chain-rule obligation, and the
/// symbolic derivative
fn dag_prog<F: Backend>(cx: &mut Cx, p: &Prog, pts: &[Vec<f32>]) {
    let mut ctx = Context::new();
    let all = p.build_all(&mut ctx);
    let mut roots = vec![];
    for n in all {
        if !roots.contains(&n) && ctx.get_const(n).is_err() {
            roots.push(n);
        }
    }
    if roots.is_empty() {
        return;
    }
    let flat = Flat::from_ctx(&ctx, &roots);
    let Ok(f) = evalkit::build::<F>(&ctx, &roots) else { return };
    let desc = || json!({"program": p.describe(), "context_graph": flat.describe(), "backend": F::NAME, "all_nodes_exported": true});
    let n = pts.len();
    let mut cols = vec![vec![Grad::new(0.0, 0.0, 0.0, 0.0); n]; f.vars().len()];
    let mut pcols = vec![vec![0.0f32; n]; f.vars().len()];
    for (v, i) in f.vars().iter() {
        if let Some(pp) = flat.vars.iter().position(|u| *u == v) {
            for (l, pt) in pts.iter().enumerate() {
                let x = pt[pp];
                // unit seeds by variable identity
                cols[i][l] = match v {
                    Var::X => Grad::new(x, 1.0, 0.0, 0.0),
                    Var::Y => Grad::new(x, 0.0, 1.0, 0.0),
                    Var::Z => Grad::new(x, 0.0, 0.0, 1.0),
                    _ => Grad::new(x, 0.0, 0.0, 0.0),
                };
                pcols[i][l] = x;
            }
        }
    }
    cx.add("evals", 2);
    let out = match evalkit::eval_grad_slice(&f, &cols) {
        Ok(o) => o,
        Err(e) => {
            cx.crash(format!("{}-grad-slice crash {}", F::NAME, panic_site(&e)), desc(), e);
            return;
        }
    };
    let Ok(pout) = evalkit::eval_float_slice(&f, &pcols) else { return };
    let mut out_of = vec![usize::MAX; flat.ops.len()];
    for (i, r) in flat.roots.iter().enumerate() {
        out_of[*r] = i;
    }
    // symbolic derivatives of the last root, w.r.t. X and Y
    let last = *roots.last().unwrap();
    let derivs: Vec<(usize, Option<Flat>)> = [(0usize, Var::X), (1usize, Var::Y)]
        .iter()
        .map(|(i, v)| {
            let d = guard(|| ctx.deriv(last, *v)).ok().and_then(|r| r.ok());
            (*i, d.map(|d| Flat::from_ctx(&ctx, &[d])))
        })
        .collect();
    let last_out = out_of[*flat.roots.last().unwrap()];
    let (mut dv, mut da) = (vec![], vec![]);
    'pts: for (l, pt) in pts.iter().enumerate() {
        // local obligation at every node; `ok[j]` = the point is away from the
        // non-differentiable locus of node j and of all its ancestors (the
        // property only speaks about such points)
        let mut node_ok_so_far = true;
        let mut ok = vec![true; flat.ops.len()];
        for (j, op) in flat.ops.iter().enumerate() {
            let get = |n: usize| -> D64 {
                match flat.ops[n] {
                    FOp::Const(c) => D64::constant(c as f64),
                    _ => D64::from_grad(&out[out_of[n]][l]),
                }
            };
            // whether the point is on the op's non-differentiable locus is judged on
            // the operand values of the FLOAT-SLICE evaluator, not on the gradient
            // evaluator's own operand values: a gradient evaluator that corrupts an
            // operand (NaN from a lost spill) must not thereby excuse itself
            let getp = |n: usize| -> D64 {
                match flat.ops[n] {
                    FOp::Const(c) => D64::constant(c as f64),
                    _ => D64::constant(pout[out_of[n]][l] as f64),
                }
            };
            let (r, on_locus, name, anc_ok) = match *op {
                FOp::Un(u, a) => (dual_un(u, get(a)), dual_un(u, getp(a)).is_none(), format!("{u:?}"), ok[a]),
                FOp::Bin(b, a, c) => (dual_bin(b, get(a), get(c)), dual_bin(b, getp(a), getp(c)).is_none(), format!("{b:?}"), ok[a] && ok[c]),
                _ => continue,
            };
            if out_of[j] == usize::MAX {
                continue;
            }
            let g = out[out_of[j]][l];
            if on_locus {
                cx.add("skipped_near_nondifferentiable_locus", 1);
                node_ok_so_far = false;
                ok[j] = false;
                continue;
            }
            let Some(r) = r else {
                // differentiable by the float-slice evaluator's operand values, yet the
                // gradient evaluator's own operand values put it on the locus: they differ
                if anc_ok {
                    cx.violation(
                        format!("{}-grad-slice operand values differ from the float-slice evaluator's (composition)", F::NAME),
                        desc(),
                        format!("point {pt:?}: node n{j} ({name}): the gradient evaluator computed {g:?} from operands that are not the values the float-slice evaluator has"),
                    );
                    break 'pts;
                }
                node_ok_so_far = false;
                ok[j] = false;
                continue;
            };
            if !anc_ok {
                ok[j] = false;
                node_ok_so_far = false;
                cx.add("skipped_near_nondifferentiable_locus", 1);
                continue;
            }
            if !value_eq(g.v, pout[out_of[j]][l]) {
                cx.violation(
                    format!("{}-grad-slice value differs from point evaluator (composition)", F::NAME),
                    desc(),
                    format!("point {pt:?}: node n{j}: grad value {:?}, float-slice value {:?}", g.v, pout[out_of[j]][l]),
                );
                break 'pts;
            }
            cx.add("gradient_checks", 1);
            if let Err(e) = grad_ok(&g, &r) {
                cx.violation(
                    format!("{}-grad-slice op={name} wrong partial derivative (composition)", F::NAME),
                    desc(),
                    format!("point {pt:?}: node n{j}: {e}; evaluator returned {g:?} from operand gradients"),
                );
                break 'pts;
            }
        }
        // symbolic derivative vs the evaluator's partials (whole expression
        // differentiable at this point)
        if node_ok_so_far {
            let duals: Vec<D64> = (0..flat.vars.len())
                .map(|i| {
                    let mut d = D64::constant(pt[i] as f64);
                    let k = match flat.vars[i] {
                        Var::X => 0,
                        Var::Y => 1,
                        Var::Z => 2,
                        _ => 3,
                    };
                    if k < 3 {
                        d.d[k] = 1.0;
                        d.m[k] = 1.0;
                    }
                    d
                })
                .collect();
            let whole = eval_dual(&flat, &duals).and_then(|r| r[*flat.roots.last().unwrap()]);
            if let Some(whole) = whole {
                let g = out[last_out][l];
                for (axis, dflat) in &derivs {
                    let Some(dflat) = dflat else { continue };
                    // values for the derivative graph's own variable order
                    let vals: Vec<f32> = dflat
                        .vars
                        .iter()
                        .map(|v| flat.vars.iter().position(|u| u == v).map(|p| pt[p]).unwrap_or(0.0))
                        .collect();
                    dflat.eval_all(&vals, &mut dv, &mut da);
                    let sym = dv[dflat.roots[0]] as f64;
                    let gpart = [g.dx, g.dy][*axis] as f64;
                    // the symbolic derivative and the evaluator walk the same f32
                    // intermediates, so they are compared with each other; the
                    // f64 dual only supplies the magnitude for the tolerance
                    let tol = 10.0 * TOL * 1f64.max(gpart.abs()).max(whole.m[*axis]);
                    cx.add("symbolic_derivative_checks", 1);
                    // a symbolic derivative that is NaN where the evaluator's partial (and the f64
                    // derivative) is an ordinary number is a different number too
                    let sym_nan_only = sym.is_nan() && gpart.is_finite() && whole.d[*axis].is_finite() && whole.m[*axis] < 1e30;
                    if sym_nan_only || (sym.is_finite() && gpart.is_finite() && (sym - gpart).abs() > tol) {
                        cx.violation(
                            "Context::deriv evaluates to a different number than the gradient evaluator".to_string(),
                            desc(),
                            format!(
                                "point {pt:?}: d/d{} of the last node: symbolic derivative evaluates to {sym:e}, f64 derivative {:e}, evaluator partial {gpart:e}",
                                ["x", "y"][*axis],
                                whole.d[*axis]
                            ),
                        );
                        break 'pts;
                    }
                }
            }
        }
    }
}

fn transform_unit<F: Backend>(cx: &mut Cx, sub: &mut u64) {
    use nalgebra::{Matrix4, Vector3};
    let mats: Vec<(&str, Matrix4<f32>)> = vec![
        ("identity", Matrix4::identity()),
        ("scale", Matrix4::new_nonuniform_scaling(&Vector3::new(2.0, 0.5, -1.0))),
        ("rot90 z", Matrix4::new(0.0, -1.0, 0.0, 0.0, 1.0, 0.0, 0.0, 0.0, 0.0, 0.0, 1.0, 0.0, 0.0, 0.0, 0.0, 1.0)),
        ("translate", Matrix4::new_translation(&Vector3::new(0.5, -2.0, 0.25))),
        ("shear", Matrix4::new(1.0, 0.5, 0.0, 0.0, 0.0, 1.0, 0.25, 0.0, 0.0, 0.0, 1.0, 0.0, 0.0, 0.0, 0.0, 1.0)),
        ("projective", {
            let mut m = Matrix4::identity();
            m[(3, 2)] = 0.25;
            m[(3, 0)] = -0.125;
            m[(3, 3)] = 2.0;
            m
        }),
        ("rot30+translate", Matrix4::new_rotation(Vector3::new(0.3, -0.2, 0.5)) * Matrix4::new_translation(&Vector3::new(0.3, 0.1, -0.7))),
        ("homogeneous scale (shear + translate, times 4)", Matrix4::new(1.0, 0.5, 0.0, 0.25, 0.0, 1.0, 0.25, -1.0, 0.0, 0.0, 1.0, 0.5, 0.0, 0.0, 0.0, 1.0) * 4.0),
    ];
    let progs: Vec<Prog> = {
        let mk = |f: &dyn Fn(&mut Prog, usize, usize, usize) -> usize| {
            let mut p = Prog::default();
            let x = p.push(POp::Var(0));
            let y = p.push(POp::Var(1));
            let z = p.push(POp::Var(2));
            let r = f(&mut p, x, y, z);
            p.roots = vec![r];
            p
        };
        vec![
            mk(&|_p, x, _y, _z| x),
            mk(&|_p, _x, y, _z| y),
            mk(&|_p, _x, _y, z| z),
            mk(&|p, x, y, z| {
                let a = p.push(POp::Bin(B::Mul, x, y));
                p.push(POp::Bin(B::Sub, a, z))
            }),
            mk(&|p, x, y, z| {
                let a = p.push(POp::Un(U::Square, x));
                let b = p.push(POp::Un(U::Square, y));
                let c = p.push(POp::Un(U::Square, z));
                let d = p.push(POp::Bin(B::Add, a, b));
                let e = p.push(POp::Bin(B::Add, d, c));
                p.push(POp::Un(U::Sqrt, e))
            }),
        ]
    };
    let coords = [-1.5f32, -0.25, 0.5, 2.0];
    for p in &progs {
        let mut ctx = Context::new();
        let roots = p.build(&mut ctx);
        let flat = Flat::from_ctx(&ctx, &roots);
        let Ok(f) = evalkit::build::<F>(&ctx, &roots) else { continue };
        let shape = Shape::new_raw(f);
        let gt = shape.ez_grad_slice_tape();
        for (mname, m) in &mats {
            let s = *sub;
            *sub += 1;
            if !cx.case(s) {
                continue;
            }
            cx.add("cases", 1);
            let desc = || json!({"program": p.describe(), "backend": F::NAME, "matrix": mname});
            let mut xs = vec![];
            let mut ys = vec![];
            let mut zs = vec![];
            for x in coords {
                for y in coords {
                    for z in coords {
                        xs.push(Grad::new(x, 1.0, 0.0, 0.0));
                        ys.push(Grad::new(y, 0.0, 1.0, 0.0));
                        zs.push(Grad::new(z, 0.0, 0.0, 1.0));
                    }
                }
            }
            cx.add("evals", 1);
            let mut ev = Shape::<F>::new_grad_slice_eval();
            let out = match guard(|| ev.eval_with_transform(&gt, &xs, &ys, &zs, m).map(|o| o.to_vec())) {
                Ok(Ok(o)) => o,
                Ok(Err(_)) => continue,
                Err(e) => {
                    cx.crash(format!("{}-grad+transform crash {}", F::NAME, panic_site(&e)), desc(), e);
                    continue;
                }
            };
            for (l, g) in out.iter().enumerate() {
                // reference: transform in f64 duals, then the graph
                let p3 = [xs[l], ys[l], zs[l]].map(|g| D64::from_grad(&g));
                let row = |r: usize| -> D64 {
                    let mut acc = D64::constant(m[(r, 3)] as f64);
                    for c in 0..3 {
                        let k = m[(r, c)] as f64;
                        acc.v += k * p3[c].v;
                        for i in 0..3 {
                            acc.d[i] += k * p3[c].d[i];
                            acc.m[i] += k.abs() * p3[c].m[i];
                        }
                    }
                    acc
                };
                let w = row(3);
                let t: Vec<D64> = (0..3)
                    .filter_map(|r| dual_bin(B::Div, row(r), w))
                    .collect();
                if t.len() != 3 {
                    continue;
                }
                // graph inputs in flat.vars order
                let duals: Vec<D64> = flat
                    .vars
                    .iter()
                    .map(|v| match v {
                        Var::X => t[0],
                        Var::Y => t[1],
                        Var::Z => t[2],
                        _ => D64::constant(0.0),
                    })
                    .collect();
                let Some(Some(r)) = eval_dual(&flat, &duals).map(|r| r[flat.roots[0]]) else {
                    cx.add("skipped_near_nondifferentiable_locus", 1);
                    continue;
                };
                cx.add("gradient_checks", 1);
                cx.add("nontrivial", 1);
                let verr = (g.v as f64 - r.v).abs() > 1e-4 * 1f64.max(r.v.abs());
                if verr {
                    cx.violation(
                        format!("{}-grad+transform wrong value", F::NAME),
                        desc(),
                        format!("at ({},{},{}): value {:?}, expected {:e}", xs[l].v, ys[l].v, zs[l].v, g.v, r.v),
                    );
                    break;
                }
                if let Err(e) = grad_ok(g, &r) {
                    cx.violation(
                        format!("{}-grad+transform wrong partial derivative", F::NAME),
                        desc(),
                        format!("at ({},{},{}): {e}; evaluator returned {g:?}", xs[l].v, ys[l].v, zs[l].v),
                    );
                    break;
                }
            }
        }
    }
}

impl Check for C05 {
    fn id(&self) -> &'static str {
        "C05"
    }
    fn units(&self, tier: Tier) -> usize {
        units(tier).len()
    }
    fn meta(&self, tier: Tier) -> Meta {
        Meta {
            rule: "case = one grad-slice call; (a) every opcode x operand form {reg, reg/reg, same-reg, reg/imm, imm/reg} x operand values from a 20-value finite alphabet (squared for binary ops) x seed gradients {e_x,e_y,e_z,(2,-3,0.5),0,(1,1,1)} per operand, cut into slices of lengths 1..=9, VM and JIT; (b) fan families (also at VM register budgets 3 and 8, so that the gradient evaluator's Load / Store run) of width 1..16 (thorough 24) keeping w gradients live across atan2 / mod / sin / exp call-outs, and one huge program with 300 simultaneously live gradients; for 11 binary opcodes 11 ROOT-ONLY programs each in which the op's operands are used again afterwards (register-sharing patterns), gradient of the root vs the f64 dual-number derivative of the whole program on a 36-point grid; every DAG up to the node bound over 20 differentiable ops with all nodes exported: local chain-rule obligation at every node (reference dual applied to the evaluator's own operand gradients) on a 36-point grid; (b') outer(inner(x, y|const|x), y|const|same) for EVERY ordered pair of the 30 opcodes, same obligations; (c) Context::deriv of the last node w.r.t. X and Y evaluated with ref32 vs the f64 dual-number derivative of the graph; (d) Shape grad evaluation with 7 matrices incl. projective; oracle: f64 forward-mode duals with a cancellation-aware tolerance 1e-4*max(1,|ref|,sum|terms|); value must equal the float-slice evaluator's; points within 1e-3 of an op's non-differentiable locus are skipped (counted); non-trivial = a derivative was actually compared".into(),
            bounds: match tier {
                Tier::Quick => "DAG nodes <= 2".into(),
                Tier::Thorough => "DAG nodes <= 3".into(),
            },
            assumptions: vec![
                "rand/mix are treated as locally constant (partials 0)".into(),
                "subject crashes are deferred to C11".into(),
                "x86_64 JIT only".into(),
            ],
            crash_policy: CrashPolicy::Deferred,
            vacuity: vec![("gradient_checks", 10000), ("symbolic_derivative_checks", 100)],
            transitions_counter: "evals",
            nontrivial_counter: "gradient_checks",
            exhaustive: true,
        }
    }
    fn run_unit(&self, tier: Tier, unit: usize, cx: &mut Cx) {
        let mut sub = 0u64;
        match units(tier)[unit].clone() {
            Unit::Transform => {
                transform_unit::<VmFunction>(cx, &mut sub);
                transform_unit::<JitFunction>(cx, &mut sub);
            }
            Unit::Unary(op) => {
                let mut p = Prog::default();
                let x = p.push(POp::Var(0));
                let r = p.push(POp::Un(op, x));
                p.roots = vec![r];
                op_level::<VmFunction>(cx, &mut sub, &p, &format!("{op:?}"), 1);
                op_level::<JitFunction>(cx, &mut sub, &p, &format!("{op:?}"), 1);
            }
            Unit::Binary(op) => {
                let mut progs = vec![];
                let mut p = Prog::default();
                let x = p.push(POp::Var(0));
                let y = p.push(POp::Var(1));
                let r = p.push(POp::Bin(op, x, y));
                p.roots = vec![r];
                progs.push(p);
                let mut p = Prog::default();
                let x = p.push(POp::Var(0));
                let r = p.push(POp::Bin(op, x, x));
                p.roots = vec![r];
                progs.push(p);
                for c in [0.5f32, -2.25, 3.0, 1.0] {
                    for form in 0..2 {
                        let mut p = Prog::default();
                        let x = p.push(POp::Var(0));
                        let k = p.push(POp::Const(c));
                        let r = if form == 0 { p.push(POp::Bin(op, x, k)) } else { p.push(POp::Bin(op, k, x)) };
                        p.roots = vec![r];
                        progs.push(p);
                    }
                }
                for p in &progs {
                    op_level::<VmFunction>(cx, &mut sub, p, &format!("{op:?}"), 2);
                    op_level::<JitFunction>(cx, &mut sub, p, &format!("{op:?}"), 2);
                }
            }
            Unit::Reuse(b) => {
                let g = [-2.25f32, -0.8, 0.3, 0.75, 1.6, 3.1];
                let pts: Vec<Vec<f32>> = g.iter().flat_map(|a| g.iter().map(move |c| vec![*a, *c])).collect();
                for p in crate::prog::reuse_patterns(b) {
                    let s = sub;
                    sub += 1;
                    if !cx.case(s) {
                        continue;
                    }
                    cx.add("cases", 1);
                    root_prog::<VmFunction>(cx, &p, &pts);
                    root_prog::<JitFunction>(cx, &p, &pts);
                    // a register budget small enough to spill (Load / Store in the gradient evaluator)
                    root_prog::<GenericVmFunction<3>>(cx, &p, &pts);
                }
            }
            Unit::Huge => {
                if cx.case(sub) {
                    cx.add("cases", 1);
                    let p = crate::prog::huge_prog(300, false);
                    let pts: Vec<Vec<f32>> = vec![vec![-2.25], vec![0.3], vec![1.6]];
                    dag_prog::<VmFunction>(cx, &p, &pts);
                    dag_prog::<JitFunction>(cx, &p, &pts);
                    dag_prog::<GenericVmFunction<8>>(cx, &p, &pts);
                    // root only: the spilled values are consumed, not exported
                    let g = [-2.25f32, 0.3, 1.6];
                    let pts1: Vec<Vec<f32>> = g.iter().map(|a| vec![*a]).collect();
                    root_prog::<VmFunction>(cx, &p, &pts1);
                    root_prog::<GenericVmFunction<8>>(cx, &p, &pts1);
                }
            }
            Unit::Fan { w } => {
                use crate::prog::{Order, family_fan};
                let g = [-2.25f32, -0.8, 0.3, 0.75, 1.6, 3.1];
                let pts: Vec<Vec<f32>> = g.iter().flat_map(|a| g.iter().map(move |b| vec![*a, *b])).collect();
                for mid in [None, Some(U::Sin), Some(U::Exp), Some(U::Abs)] {
                    for order in [Order::Forward, Order::Reverse, Order::Interleaved] {
                        for comb in [B::Atan, B::Mod, B::Add, B::Min, B::Mul, B::Div] {
                            let s = sub;
                            sub += 1;
                            if !cx.case(s) {
                                continue;
                            }
                            cx.add("cases", 1);
                            let p = family_fan(w, mid, order, comb);
                            dag_prog::<VmFunction>(cx, &p, &pts);
                            dag_prog::<JitFunction>(cx, &p, &pts);
                            // small register budgets: the gradient evaluator's Load / Store
                            dag_prog::<GenericVmFunction<3>>(cx, &p, &pts);
                            dag_prog::<GenericVmFunction<8>>(cx, &p, &pts);
                        }
                    }
                }
            }
            Unit::AllOps(outer) => {
                let g = [-2.25f32, -0.8, 0.3, 0.75, 1.6, 3.1];
                let pts: Vec<Vec<f32>> = g.iter().flat_map(|a| g.iter().map(move |b| vec![*a, *b])).collect();
                let any = |i: usize| -> Result<U, B> {
                    if i < refsem::UNARY.len() { Ok(refsem::UNARY[i]) } else { Err(refsem::BINARY[i - refsem::UNARY.len()]) }
                };
                let nops = refsem::UNARY.len() + refsem::BINARY.len();
                // operand choices for the free operand of a binary op: y, a constant, x
                for inner in 0..nops {
                    for iform in 0..3usize {
                        for oform in 0..4usize {
                            let mut p = Prog::default();
                            let x = p.push(POp::Var(0));
                            let y = p.push(POp::Var(1));
                            let k = p.push(POp::Const(0.625));
                            let other = [y, k, x];
                            let i = match any(inner) {
                                Ok(u) => {
                                    if iform > 0 {
                                        continue;
                                    }
                                    p.push(POp::Un(u, x))
                                }
                                Err(b) => p.push(POp::Bin(b, x, other[iform])),
                            };
                            let r = match any(outer) {
                                Ok(u) => {
                                    if oform > 0 {
                                        continue;
                                    }
                                    p.push(POp::Un(u, i))
                                }
                                Err(b) => match oform {
                                    0 => p.push(POp::Bin(b, i, y)),
                                    1 => p.push(POp::Bin(b, k, i)),
                                    2 => p.push(POp::Bin(b, y, i)),
                                    _ => p.push(POp::Bin(b, i, i)),
                                },
                            };
                            p.roots = vec![r];
                            let s = sub;
                            sub += 1;
                            if !cx.case(s) {
                                continue;
                            }
                            cx.add("cases", 1);
                            cx.add("all_opcode_pair_programs", 1);
                            dag_prog::<VmFunction>(cx, &p, &pts);
                            dag_prog::<JitFunction>(cx, &p, &pts);
                        }
                    }
                }
            }
            Unit::Dag { n, prefix } => {
                let spec = dag_spec();
                let g = [-2.25f32, -0.8, 0.3, 0.75, 1.6, 3.1];
                let pts: Vec<Vec<f32>> = g.iter().flat_map(|a| g.iter().map(move |b| vec![*a, *b])).collect();
                spec.for_each(n, &prefix, true, &mut |p, _| {
                    let s = sub;
                    sub += 1;
                    if !cx.case(s) {
                        return;
                    }
                    cx.add("cases", 1);
                    dag_prog::<VmFunction>(cx, p, &pts);
                    dag_prog::<JitFunction>(cx, p, &pts);
                    cx.sample(|| json!({"program": p.describe(), "points": pts.len()}));
                });
            }
        }
    }
}
