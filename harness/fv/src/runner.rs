//! Shard runner, crash journal, evidence and replay writers (DESIGN.md §3).
//!
//! A check enumerates its case space as `units` (simplest first); every unit
//! enumerates `sub`-cases.  `(tier, unit, sub)` identifies a case, so a replay
//! is "run that unit again and execute only that sub-case".  Workers are
//! separate processes; before every case they store `(unit, sub)` in a shared
//! memory-mapped progress file so that the parent can attribute an abort or a
//! fault of the subject (JIT code, panics in `extern` callbacks) to a case.
use serde_json::{Value, json};
use std::collections::{BTreeMap, HashSet};
use std::io::{BufRead, Write};
use std::time::Instant;

#[derive(Copy, Clone, Debug, PartialEq, Eq)]
pub enum Tier {
    Quick,
    Thorough,
}

impl Tier {
    pub fn name(self) -> &'static str {
        match self {
            Tier::Quick => "quick",
            Tier::Thorough => "thorough",
        }
    }
    pub fn parse(s: &str) -> Option<Self> {
        match s {
            "quick" => Some(Tier::Quick),
            "thorough" => Some(Tier::Thorough),
            _ => None,
        }
    }
}

/// How a crash (panic / abort / fault) of the subject is classified
#[derive(Copy, Clone, Debug, PartialEq, Eq)]
pub enum CrashPolicy {
    /// The property promises a result for every enumerated case
    Violation,
    /// The property only constrains returned results (totality is C11's)
    Deferred,
}

pub struct Meta {
    /// How cases are enumerated, and what makes one distinct / non-trivial
    pub rule: String,
    pub bounds: String,
    pub assumptions: Vec<String>,
    pub crash_policy: CrashPolicy,
    /// Counters that must be at least the given value, else the run is vacuous
    pub vacuity: Vec<(&'static str, u64)>,
    /// Name of the counter holding "executions of implementation entry points"
    pub transitions_counter: &'static str,
    /// Name of the counter holding the number of non-trivial cases
    pub nontrivial_counter: &'static str,
    /// true if the tier enumerates its stated space completely (no sampling)
    pub exhaustive: bool,
}

pub trait Check: Sync {
    fn id(&self) -> &'static str;
    fn units(&self, tier: Tier) -> usize;
    fn run_unit(&self, tier: Tier, unit: usize, cx: &mut Cx);
    fn meta(&self, tier: Tier) -> Meta;
    /// Short label of a unit, used in the signature of process crashes
    fn unit_label(&self, _tier: Tier, _unit: usize) -> String {
        String::new()
    }
    /// How often a replay re-runs the case before concluding that it does not
    /// fail.  1 for deterministic subjects; more where the subject itself has
    /// uncontrolled nondeterminism (std HashMap iteration order in the solver).
    /// Wall-clock limit for ONE case (the watchdog kills a worker whose case
    /// runs longer and reports the case as not terminating)
    fn case_timeout_s(&self, tier: Tier) -> f64 {
        match tier {
            Tier::Quick => 60.0,
            Tier::Thorough => 600.0,
        }
    }
    fn replay_attempts(&self) -> u32 {
        1
    }
}

#[derive(Clone, Debug)]
pub struct Violation {
    pub sig: String,
    pub unit: u64,
    pub sub: u64,
    pub desc: Value,
    pub detail: String,
    pub count: u64,
}

/// Per-worker context handed to `run_unit`
pub struct Cx {
    pub tier: Tier,
    unit: u64,
    sub: u64,
    counters: BTreeMap<String, u64>,
    maxima: BTreeMap<String, u64>,
    violations: BTreeMap<String, Violation>,
    deferred: BTreeMap<String, Violation>,
    samples: Vec<Value>,
    distinct: HashSet<u64>,
    distinct_capped: bool,
    progress: Option<*mut u64>,
    skip: HashSet<(u64, u64)>,
    only: Option<(u64, u64)>,
    /// replaying: also execute the cases of the unit that precede the target
    history: bool,
    pub crash_policy: CrashPolicy,
    pub verbose: bool,
}

const DISTINCT_CAP: usize = 2_000_000;
const GLOBAL_DISTINCT_CAP: usize = 24_000_000;
const SAMPLE_CAP: usize = 6;

impl Cx {
    fn new(tier: Tier, crash_policy: CrashPolicy) -> Self {
        Cx {
            tier,
            unit: 0,
            sub: 0,
            counters: BTreeMap::new(),
            maxima: BTreeMap::new(),
            violations: BTreeMap::new(),
            deferred: BTreeMap::new(),
            samples: vec![],
            distinct: HashSet::new(),
            distinct_capped: false,
            progress: None,
            skip: HashSet::new(),
            only: None,
            history: false,
            crash_policy,
            verbose: false,
        }
    }

    /// Marks the start of sub-case `sub` of the current unit.  Returns false
    /// if the case must not be executed (a known crasher being skipped after
    /// a restart, or a replay of a different case).
    #[inline]
    pub fn case(&mut self, sub: u64) -> bool {
        self.sub = sub;
        if let Some(p) = self.progress {
            unsafe {
                std::ptr::write_volatile(p, self.unit);
                std::ptr::write_volatile(p.add(1), sub);
            }
        }
        if let Some(o) = self.only {
            if self.history {
                // replay with history: every case of the unit up to the target
                return self.unit == o.0 && sub <= o.1;
            }
            return o == (self.unit, sub);
        }
        if !self.skip.is_empty() && self.skip.contains(&(self.unit, sub)) {
            return false;
        }
        true
    }

    /// True when replaying a single case (lets checks print more)
    pub fn replaying(&self) -> bool {
        self.only.is_some()
    }

    #[inline]
    pub fn add(&mut self, name: &str, n: u64) {
        if let Some(c) = self.counters.get_mut(name) {
            *c += n;
        } else {
            self.counters.insert(name.to_owned(), n);
        }
    }

    pub fn max(&mut self, name: &str, n: u64) {
        let e = self.maxima.entry(name.to_owned()).or_insert(0);
        *e = (*e).max(n);
    }

    /// Records a violation of the property for the current case
    pub fn violation(&mut self, sig: impl Into<String>, desc: Value, detail: impl Into<String>) {
        let sig = sig.into();
        let (unit, sub) = (self.unit, self.sub);
        let detail = detail.into();
        if self.verbose || (self.only.is_some() && !self.history) {
            println!("  violation [{sig}] unit={unit} sub={sub}: {detail}\n    case: {desc}");
        }
        // debugging aid for triage: FV_ALL_VIOLATIONS=<file> lists every
        // violating case, not only the first per signature
        if let Ok(path) = std::env::var("FV_ALL_VIOLATIONS") {
            use std::io::Write;
            if let Ok(mut f) = std::fs::OpenOptions::new().create(true).append(true).open(path) {
                // one write call per record: appends from concurrent workers must not interleave
                let line = format!("{}\n", json!({"sig": sig, "unit": unit, "sub": sub, "case": desc, "detail": detail}));
                let _ = f.write_all(line.as_bytes());
            }
        }
        let e = self.violations.entry(sig.clone()).or_insert(Violation {
            sig,
            unit,
            sub,
            desc,
            detail,
            count: 0,
        });
        e.count += 1;
    }

    /// Records a crash of the subject according to the check's crash policy
    pub fn crash(&mut self, sig: impl Into<String>, desc: Value, detail: impl Into<String>) {
        match self.crash_policy {
            CrashPolicy::Violation => self.violation(sig, desc, detail),
            CrashPolicy::Deferred => {
                let sig = sig.into();
                let (unit, sub) = (self.unit, self.sub);
                let e = self.deferred.entry(sig.clone()).or_insert(Violation {
                    sig,
                    unit,
                    sub,
                    desc,
                    detail: detail.into(),
                    count: 0,
                });
                e.count += 1;
            }
        }
    }

    pub fn sample(&mut self, f: impl FnOnce() -> Value) {
        if self.samples.len() < SAMPLE_CAP {
            self.samples.push(f());
        }
    }

    /// Registers the canonical hash of a case, for distinct counting; the low
    /// bit of the stored key records whether the case is non-trivial.
    #[inline]
    pub fn distinct(&mut self, h: u64, nontrivial: bool) {
        let h = (h & !1) | u64::from(nontrivial);
        if self.distinct.len() < DISTINCT_CAP {
            self.distinct.insert(h);
        } else {
            self.distinct_capped = true;
        }
    }

    fn take_delta(&mut self, upto: u64) -> Value {
        let viol = |m: &mut BTreeMap<String, Violation>| -> Vec<Value> {
            std::mem::take(m)
                .into_values()
                .map(|v| {
                    json!({"sig": v.sig, "unit": v.unit, "sub": v.sub,
                           "desc": v.desc, "detail": v.detail, "count": v.count})
                })
                .collect()
        };
        let distinct: Vec<u64> = self.distinct.drain().collect();
        json!({
            "upto": upto,
            "counters": std::mem::take(&mut self.counters),
            "maxima": std::mem::take(&mut self.maxima),
            "violations": viol(&mut self.violations),
            "deferred": viol(&mut self.deferred),
            "samples": std::mem::take(&mut self.samples),
            "distinct": distinct,
            "distinct_capped": self.distinct_capped,
        })
    }
}

////////////////////////////////////////////////////////////////////////////////
// Panic capture: the subject's panics are caught, with message and location

thread_local! {
    static LAST_PANIC: std::cell::RefCell<Option<String>> = const { std::cell::RefCell::new(None) };
    static QUIET: std::cell::Cell<bool> = const { std::cell::Cell::new(false) };
}

pub fn install_panic_hook() {
    let default = std::panic::take_hook();
    std::panic::set_hook(Box::new(move |info| {
        let msg = if let Some(s) = info.payload().downcast_ref::<&str>() {
            (*s).to_owned()
        } else if let Some(s) = info.payload().downcast_ref::<String>() {
            s.clone()
        } else {
            "<non-string panic>".to_owned()
        };
        let loc = info
            .location()
            .map(|l| {
                let f = l.file();
                let f = f.strip_prefix("/repo/").unwrap_or(f);
                format!("{}:{}", f, l.line())
            })
            .unwrap_or_default();
        LAST_PANIC.with(|p| *p.borrow_mut() = Some(format!("{loc}: {msg}")));
        if !QUIET.with(|q| q.get()) {
            default(info);
        }
    }));
}

/// Runs the subject, catching panics.  `Err` carries "file:line: message".
pub fn guard<T>(f: impl FnOnce() -> T) -> Result<T, String> {
    let prev = QUIET.with(|q| q.replace(true));
    let r = std::panic::catch_unwind(std::panic::AssertUnwindSafe(f));
    QUIET.with(|q| q.set(prev));
    r.map_err(|_| {
        LAST_PANIC
            .with(|p| p.borrow_mut().take())
            .unwrap_or_else(|| "<panic>".to_owned())
    })
}

/// Strips line numbers and run-specific values from a panic message so that it
/// can be used in a finding signature: keeps "file: first words"
pub fn panic_site(msg: &str) -> String {
    // "fidget-core/src/types/interval.rs:45: invalid interval [-inf, NaN]"
    let mut parts = msg.splitn(3, ':');
    let file = parts.next().unwrap_or("");
    let _line = parts.next();
    let text = parts.next().unwrap_or("").trim();
    let words: Vec<&str> = text
        .split_whitespace()
        .take_while(|w| !w.chars().any(|c| c.is_ascii_digit()) && !w.starts_with('['))
        .take(4)
        .collect();
    format!("{}:\"{}\"", file, words.join(" "))
}

////////////////////////////////////////////////////////////////////////////////
// Worker

fn run_dir(id: &str) -> std::path::PathBuf {
    let base = std::env::var("FV_RUN_DIR").unwrap_or_else(|_| "/verif/.target/fv-run".to_owned());
    // one directory per run (parent pid): two concurrent runs of the same check
    // must not share progress files (a second run removing the first one's files
    // made the first one's watchdog see "no progress" and report a hang)
    let run = std::env::var("FV_RUN_ID").unwrap_or_else(|_| std::process::id().to_string());
    let p = std::path::PathBuf::from(base).join(format!("{id}-{run}"));
    std::fs::create_dir_all(&p).ok();
    p
}

fn map_progress(path: &std::path::Path) -> *mut u64 {
    use std::os::fd::AsRawFd;
    let f = std::fs::OpenOptions::new()
        .read(true)
        .write(true)
        .create(true)
        .truncate(false)
        .open(path)
        .expect("open progress file");
    f.set_len(16).unwrap();
    let p = unsafe {
        libc::mmap(
            std::ptr::null_mut(),
            16,
            libc::PROT_READ | libc::PROT_WRITE,
            libc::MAP_SHARED,
            f.as_raw_fd(),
            0,
        )
    };
    assert!(p != libc::MAP_FAILED, "mmap progress");
    p as *mut u64
}

pub struct WorkerArgs {
    pub tier: Tier,
    pub shard: usize,
    pub nshards: usize,
    pub from_unit: usize,
    pub skip: Vec<(u64, u64)>,
    pub budget_s: f64,
}

/// Entry point of a worker process: runs units `shard, shard+n, …` from
/// `from_unit` on, emitting result deltas as JSON lines on stdout.
pub fn worker_main(check: &dyn Check, a: WorkerArgs) {
    install_panic_hook();
    let meta = check.meta(a.tier);
    let mut cx = Cx::new(a.tier, meta.crash_policy);
    let dir = run_dir(check.id());
    cx.progress = Some(map_progress(&dir.join(format!("{}.prog", a.shard))));
    cx.skip = a.skip.into_iter().collect();
    let n = check.units(a.tier);
    let out = std::io::stdout();
    let t0 = Instant::now();
    let mut last_emit = Instant::now();
    let mut u = a.from_unit;
    while u % a.nshards != a.shard {
        u += 1;
    }
    let mut capped = false;
    while u < n {
        cx.unit = u as u64;
        cx.sub = u64::MAX;
        if let Some(p) = cx.progress {
            unsafe {
                std::ptr::write_volatile(p, cx.unit);
                std::ptr::write_volatile(p.add(1), u64::MAX);
            }
        }
        check.run_unit(a.tier, u, &mut cx);
        cx.add("units_done", 1);
        let next = u + a.nshards;
        if last_emit.elapsed().as_millis() > 150 || next >= n {
            let d = cx.take_delta(u as u64);
            let mut o = out.lock();
            writeln!(o, "R {d}").unwrap();
            o.flush().unwrap();
            last_emit = Instant::now();
        }
        if t0.elapsed().as_secs_f64() > a.budget_s && next < n {
            capped = true;
            let d = cx.take_delta(u as u64);
            let mut o = out.lock();
            writeln!(o, "R {d}").unwrap();
            writeln!(o, "CAP {u}").unwrap();
            o.flush().unwrap();
            break;
        }
        u = next;
    }
    let _ = capped;
    let mut o = out.lock();
    writeln!(o, "DONE").unwrap();
    o.flush().unwrap();
}

/// Debug aid: runs one whole unit in this process, printing every violation
pub fn run_unit_verbose(check: &dyn Check, tier: Tier, unit: usize) {
    install_panic_hook();
    let meta = check.meta(tier);
    let mut cx = Cx::new(tier, meta.crash_policy);
    cx.unit = unit as u64;
    cx.verbose = true;
    check.run_unit(tier, unit, &mut cx);
    println!("unit {unit} ({}): counters {:?}", check.unit_label(tier, unit), cx.counters);
}

/// Replays a single case in this process.  Returns true if it violates.
pub fn replay_case(check: &dyn Check, tier: Tier, unit: u64, sub: u64, history: bool) -> bool {
    install_panic_hook();
    let meta = check.meta(tier);
    let mut cx = Cx::new(tier, meta.crash_policy);
    cx.only = Some((unit, sub));
    cx.history = history;
    cx.unit = unit;
    cx.verbose = !history;
    check.run_unit(tier, unit as usize, &mut cx);
    if history {
        for v in cx.violations.values() {
            println!("  violation [{}] (first at unit={} sub={}) x{}: {}", v.sig, v.unit, v.sub, v.count, v.detail);
        }
    }
    let n: u64 = cx.violations.values().map(|v| v.count).sum();
    let d: u64 = cx.deferred.values().map(|v| v.count).sum();
    if n == 0 && d == 0 {
        println!("  replay: case unit={unit} sub={sub} executed, no violation");
    }
    for v in cx.deferred.values() {
        println!("  deferred crash [{}]: {}\n    case: {}", v.sig, v.detail, v.desc);
    }
    n > 0
}

////////////////////////////////////////////////////////////////////////////////
// Parent

#[derive(Default)]
struct Agg {
    counters: BTreeMap<String, u64>,
    maxima: BTreeMap<String, u64>,
    violations: BTreeMap<String, Violation>,
    deferred: BTreeMap<String, Violation>,
    samples: Vec<Value>,
    distinct: HashSet<u64>,
    distinct_capped: bool,
    capped_units: Vec<u64>,
    crashes: u64,
}

impl Agg {
    fn merge_viol(m: &mut BTreeMap<String, Violation>, v: &Value) {
        let sig = v["sig"].as_str().unwrap().to_owned();
        let nv = Violation {
            sig: sig.clone(),
            unit: v["unit"].as_u64().unwrap(),
            sub: v["sub"].as_u64().unwrap(),
            desc: v["desc"].clone(),
            detail: v["detail"].as_str().unwrap_or("").to_owned(),
            count: v["count"].as_u64().unwrap_or(1),
        };
        match m.get_mut(&sig) {
            Some(e) => {
                let c = e.count + nv.count;
                if (nv.unit, nv.sub) < (e.unit, e.sub) {
                    *e = nv;
                }
                e.count = c;
            }
            None => {
                m.insert(sig, nv);
            }
        }
    }

    fn merge(&mut self, d: &Value) {
        for (k, v) in d["counters"].as_object().unwrap() {
            *self.counters.entry(k.clone()).or_insert(0) += v.as_u64().unwrap();
        }
        for (k, v) in d["maxima"].as_object().unwrap() {
            let e = self.maxima.entry(k.clone()).or_insert(0);
            *e = (*e).max(v.as_u64().unwrap());
        }
        for v in d["violations"].as_array().unwrap() {
            Self::merge_viol(&mut self.violations, v);
        }
        for v in d["deferred"].as_array().unwrap() {
            Self::merge_viol(&mut self.deferred, v);
        }
        for s in d["samples"].as_array().unwrap() {
            if self.samples.len() < 12 {
                self.samples.push(s.clone());
            }
        }
        for h in d["distinct"].as_array().unwrap() {
            if self.distinct.len() < GLOBAL_DISTINCT_CAP {
                self.distinct.insert(h.as_u64().unwrap());
            } else {
                self.distinct_capped = true;
            }
        }
        self.distinct_capped |= d["distinct_capped"].as_bool().unwrap_or(false);
    }
}

struct ShardOutcome {
    crashed_cases: Vec<(u64, u64, String)>,
    capped_at: Option<u64>,
    machinery_error: Option<String>,
}

#[allow(clippy::too_many_arguments)]
fn run_shard(
    id: &str,
    tier: Tier,
    shard: usize,
    nshards: usize,
    budget_s: f64,
    case_timeout_s: f64,
    agg: &std::sync::Mutex<Agg>,
) -> ShardOutcome {
    let exe = std::env::current_exe().unwrap();
    let dir = run_dir(id);
    let prog_path = dir.join(format!("{shard}.prog"));
    let _ = std::fs::remove_file(&prog_path);
    let mut out = ShardOutcome {
        crashed_cases: vec![],
        capped_at: None,
        machinery_error: None,
    };
    let mut from_unit = 0usize;
    let mut skip: Vec<(u64, u64)> = vec![];
    let t0 = Instant::now();
    let mut overall_upto: Option<u64> = None;
    loop {
        let skip_s = skip
            .iter()
            .map(|(u, s)| format!("{u}:{s}"))
            .collect::<Vec<_>>()
            .join(",");
        let remaining = (budget_s - t0.elapsed().as_secs_f64()).max(1.0);
        let mut child = std::process::Command::new(&exe)
            .env("FV_RUN_ID", std::process::id().to_string())
            .args([
                "worker",
                id,
                tier.name(),
                &shard.to_string(),
                &nshards.to_string(),
                &from_unit.to_string(),
                &format!("{remaining}"),
                &skip_s,
            ])
            .env("RUST_BACKTRACE", "0")
            .stdout(std::process::Stdio::piped())
            .stderr(std::process::Stdio::piped())
            .spawn()
            .expect("spawn worker");
        let stdout = child.stdout.take().unwrap();
        let stderr = child.stderr.take().unwrap();
        let err_thread = std::thread::spawn(move || {
            let mut tail: Vec<String> = vec![];
            for l in std::io::BufReader::new(stderr).lines().map_while(Result::ok) {
                tail.push(l);
                if tail.len() > 12 {
                    tail.remove(0);
                }
            }
            tail
        });
        // watchdog: a case that does not finish within the limit is a hang of
        // the subject; the worker is killed and the case attributed like a crash
        let hung = std::sync::Arc::new(std::sync::atomic::AtomicBool::new(false));
        let finished = std::sync::Arc::new(std::sync::atomic::AtomicBool::new(false));
        let wd = {
            let (hung, finished, prog_path, pid) = (hung.clone(), finished.clone(), prog_path.clone(), child.id());
            std::thread::spawn(move || {
                let mut last: Option<(u64, u64)> = None;
                let mut since = Instant::now();
                while !finished.load(std::sync::atomic::Ordering::Relaxed) {
                    std::thread::sleep(std::time::Duration::from_millis(250));
                    let cur = match std::fs::read(&prog_path) {
                        Ok(b) if b.len() >= 16 => Some((u64::from_le_bytes(b[0..8].try_into().unwrap()), u64::from_le_bytes(b[8..16].try_into().unwrap()))),
                        _ => None,
                    };
                    if cur != last {
                        last = cur;
                        since = Instant::now();
                    } else if let Some((_, sub)) = cur {
                        if sub != u64::MAX && since.elapsed().as_secs_f64() > case_timeout_s {
                            hung.store(true, std::sync::atomic::Ordering::Relaxed);
                            unsafe {
                                libc::kill(pid as i32, libc::SIGKILL);
                            }
                            return;
                        }
                    }
                }
            })
        };
        let mut done = false;
        let mut last_upto: Option<u64> = None;
        for line in std::io::BufReader::new(stdout).lines().map_while(Result::ok) {
            if let Some(j) = line.strip_prefix("R ") {
                match serde_json::from_str::<Value>(j) {
                    Ok(v) => {
                        last_upto = v["upto"].as_u64();
                        overall_upto = last_upto.or(overall_upto);
                        agg.lock().unwrap().merge(&v);
                    }
                    Err(e) => {
                        out.machinery_error = Some(format!("bad worker line: {e}"));
                    }
                }
            } else if let Some(u) = line.strip_prefix("CAP ") {
                out.capped_at = u.trim().parse().ok();
            } else if line == "DONE" {
                done = true;
            }
        }
        let status = child.wait().expect("wait worker");
        finished.store(true, std::sync::atomic::Ordering::Relaxed);
        let _ = wd.join();
        let was_hung = hung.load(std::sync::atomic::Ordering::Relaxed);
        let err_tail = err_thread.join().unwrap_or_default();
        if done && status.success() {
            return out;
        }
        // Abnormal exit: attribute to the case in the progress file
        let (cu, cs) = match std::fs::read(&prog_path) {
            Ok(b) if b.len() >= 16 => (
                u64::from_le_bytes(b[0..8].try_into().unwrap()),
                u64::from_le_bytes(b[8..16].try_into().unwrap()),
            ),
            _ => {
                out.machinery_error = Some(format!(
                    "worker {shard} died ({status}) without a progress record: {}",
                    err_tail.join(" | ")
                ));
                return out;
            }
        };
        if cs == u64::MAX {
            // died while setting a unit up (before its first case).  If the panic
            // site is in the subject's sources (a fidget crate), the subject crashed
            // during set-up - e.g. building the script engine, compiling a scene -
            // which is attributed to the unit as a whole; the unit is skipped.
            // Anything else is a fault of the harness itself.
            let joined = err_tail.join(" | ");
            let in_subject = joined.split("panicked at ").skip(1).any(|t| {
                let site = t.split_whitespace().next().unwrap_or("");
                site.contains("/fidget-") && !site.contains("/harness/")
            });
            if in_subject && !skip.contains(&(cu, u64::MAX)) {
                out.crashed_cases.push((cu, u64::MAX, format!("{status} during the set-up of the unit: {}", err_tail.last().cloned().unwrap_or_default())));
                skip.push((cu, u64::MAX));
                if out.crashed_cases.len() > 40 {
                    out.machinery_error = Some(format!("worker {shard}: more than 40 process crashes"));
                    return out;
                }
                from_unit = cu as usize + 1;
                continue;
            }
            out.machinery_error = Some(format!(
                "worker {shard} died ({status}) outside any case (unit {cu}): {joined}"
            ));
            return out;
        }
        if skip.contains(&(cu, cs)) {
            out.machinery_error = Some(format!(
                "worker {shard} died twice at unit {cu} sub {cs} although skipped"
            ));
            return out;
        }
        let how = if was_hung {
            format!("watchdog: the case was still running after {case_timeout_s} s and was killed (the subject does not terminate)")
        } else {
            format!("{status}: {}", err_tail.last().cloned().unwrap_or_default())
        };
        out.crashed_cases.push((cu, cs, how));
        skip.push((cu, cs));
        // a subject that hangs costs a full watchdog period per case: after two
        // hangs this shard stops (the hang is reported; the run is marked capped)
        if was_hung && out.crashed_cases.iter().filter(|c| c.2.starts_with("watchdog:")).count() >= 2 {
            out.capped_at = Some(cu);
            return out;
        }
        if out.crashed_cases.len() > 40 {
            out.machinery_error = Some(format!("worker {shard}: more than 40 process crashes"));
            return out;
        }
        // restart from the first unit not covered by an emitted delta
        from_unit = match last_upto.or(overall_upto) {
            Some(u) => u as usize + 1,
            None => from_unit,
        };
        // drop nothing: deltas received are complete units <= last_upto
    }
}

pub struct KnownFindings {
    pub findings: Vec<(String, String, String)>, // (property, signature, what)
}

impl KnownFindings {
    pub fn load() -> Self {
        let path = std::env::var("FV_KNOWN").unwrap_or_else(|_| "/verif/known_findings.json".into());
        let mut out = KnownFindings { findings: vec![] };
        if let Ok(s) = std::fs::read_to_string(&path) {
            if let Ok(v) = serde_json::from_str::<Value>(&s) {
                for f in v["findings"].as_array().cloned().unwrap_or_default() {
                    out.findings.push((
                        f["property"].as_str().unwrap_or("").to_owned(),
                        f["signature"].as_str().unwrap_or("").to_owned(),
                        f["what"].as_str().unwrap_or("").to_owned(),
                    ));
                }
            }
        }
        out
    }
    pub fn lookup(&self, prop: &str, sig: &str) -> Option<&str> {
        self.findings
            .iter()
            .find(|(p, s, _)| p == prop && s == sig)
            .map(|(_, _, w)| w.as_str())
    }
}

fn sanitize(s: &str) -> String {
    // readable prefix + a hash of the whole signature (prefixes can collide)
    let mut h: u64 = 0xcbf29ce484222325;
    for b in s.bytes() {
        h = (h ^ b as u64).wrapping_mul(0x100000001b3);
    }
    let head: String = s
        .chars()
        .map(|c| if c.is_ascii_alphanumeric() || c == '-' || c == '_' { c } else { '_' })
        .take(72)
        .collect();
    format!("{head}-{:08x}", h as u32)
}

/// Runs a check; returns the process exit code
pub fn check_main(check: &dyn Check, tier: Tier) -> i32 {
    let t0 = Instant::now();
    let id = check.id();
    let meta = check.meta(tier);
    let seed: i64 = std::env::var("VERIF_SEED").ok().and_then(|s| s.parse().ok()).unwrap_or(0);
    let units = check.units(tier);
    let ncpu = std::thread::available_parallelism().map(|n| n.get()).unwrap_or(16);
    let nshards = units.clamp(1, ncpu);
    let budget_s: f64 = std::env::var("FV_BUDGET_S").ok().and_then(|s| s.parse().ok()).unwrap_or(
        match tier {
            Tier::Quick => 50.0,
            Tier::Thorough => 3000.0,
        },
    );
    let case_timeout_s: f64 = std::env::var("FV_CASE_TIMEOUT_S").ok().and_then(|s| s.parse().ok()).unwrap_or_else(|| check.case_timeout_s(tier));
    let agg_m = std::sync::Mutex::new(Agg::default());
    let outcomes: Vec<ShardOutcome> = std::thread::scope(|s| {
        let agg_m = &agg_m;
        let hs: Vec<_> = (0..nshards)
            .map(|sh| s.spawn(move || run_shard(id, tier, sh, nshards, budget_s, case_timeout_s, agg_m)))
            .collect();
        hs.into_iter().map(|h| h.join().unwrap()).collect()
    });

    let mut agg = agg_m.into_inner().unwrap();
    let mut machinery: Vec<String> = vec![];
    for o in &outcomes {
        if let Some(u) = o.capped_at {
            agg.capped_units.push(u);
        }
        if let Some(e) = &o.machinery_error {
            machinery.push(e.clone());
        }
        for (u, s, how) in &o.crashed_cases {
            agg.crashes += 1;
            let label = check.unit_label(tier, *u as usize);
            let sig = if crash_kind(how) == "hang" { format!("hang: a case does not terminate {label}") } else { format!("process-crash {} {}", crash_kind(how), label) };
            let v = json!({"sig": sig.trim_end().to_string(), "unit": u, "sub": s,
                "desc": {"crash": how}, "detail": if how.starts_with("watchdog") { how.clone() } else { format!("subject killed the worker process: {how}") }, "count": 1});
            match meta.crash_policy {
                CrashPolicy::Violation => Agg::merge_viol(&mut agg.violations, &v),
                CrashPolicy::Deferred => Agg::merge_viol(&mut agg.deferred, &v),
            }
        }
    }

    // Known findings and replay files
    let known = KnownFindings::load();
    let replay_dir = std::path::PathBuf::from(
        std::env::var("FV_REPLAY_DIR").unwrap_or_else(|_| "/verif/replays".into()),
    )
    .join(id);
    let mut new_violations = 0u64;
    let mut known_hits = 0u64;
    let mut lines: Vec<String> = vec![];
    let mut nondeterministic: Vec<String> = vec![];
    for v in agg.violations.values() {
        // a replay file is written for known findings too, so that they can be
        // reproduced: ./check replay <file>
        std::fs::create_dir_all(&replay_dir).ok();
        let path = replay_dir.join(format!("{}.json", sanitize(&v.sig)));
        let body = json!({
            "property": id, "tier": tier.name(), "unit": v.unit, "sub": v.sub,
            "signature": v.sig, "case": v.desc, "detail": v.detail, "count": v.count,
            "replay": format!("./check replay {}", path.display()),
        });
        std::fs::write(&path, serde_json::to_string_pretty(&body).unwrap()).ok();
        if let Some(what) = known.lookup(id, &v.sig) {
            known_hits += 1;
            lines.push(format!(
                "KNOWN-FINDING: property={id} {} [{}] ({} cases)",
                what, v.sig, v.count
            ));
            continue;
        }
        // determinism check: the same case must fail again in a fresh process
        if new_violations < 3 && !v.sig.starts_with("process-crash") && !v.sig.starts_with("hang:") {
            let st = std::process::Command::new(std::env::current_exe().unwrap())
                .args(["replay", path.to_str().unwrap()])
                .env("RUST_BACKTRACE", "0")
                .stdout(std::process::Stdio::null())
                .stderr(std::process::Stdio::null())
                .status();
            // second attempt: the same case after the cases of its unit that precede
            // it, in one process - a subject whose behaviour depends on what was
            // evaluated before (an uninitialised register in generated code, a
            // leaked buffer) fails again only with that history
            let st = match st {
                Ok(s) if s.code() == Some(0) => {
                    let st2 = std::process::Command::new(std::env::current_exe().unwrap())
                        .args(["replay", path.to_str().unwrap(), "--history"])
                        .env("RUST_BACKTRACE", "0")
                        .stdout(std::process::Stdio::null())
                        .stderr(std::process::Stdio::null())
                        .status();
                    match st2 {
                        Ok(s2) if s2.code() == Some(1) => {
                            lines.push(format!(
                                "  note: [{}] fails again only after the preceding cases of its unit (the subject's behaviour depends on earlier evaluations): ./check replay {} --history",
                                v.sig,
                                path.display()
                            ));
                            Ok(s2)
                        }
                        _ => Ok(s),
                    }
                }
                other => other,
            };
            if let Ok(st) = st {
                if st.code() == Some(0) {
                    if check.replay_attempts() > 1 {
                        // the subject itself is nondeterministic (declared by the
                        // check): the observed violation stands
                        lines.push(format!(
                            "  note: [{}] did not fail again in {} replays (subject nondeterminism, see the check's assumptions)",
                            v.sig,
                            check.replay_attempts()
                        ));
                    } else {
                        nondeterministic.push(v.sig.clone());
                    }
                }
            }
        }
        new_violations += 1;
        if new_violations <= 25 {
            lines.push(format!("VIOLATION property={id} replay={}", path.display()));
            lines.push(format!("  [{}] x{}: {}", v.sig, v.count, v.detail));
        }
    }

    // Vacuity guards
    let mut vacuous: Vec<String> = vec![];
    let fully = agg.capped_units.is_empty() && machinery.is_empty();
    if fully {
        for (name, min) in &meta.vacuity {
            let have = agg
                .counters
                .get(*name)
                .copied()
                .or_else(|| agg.maxima.get(*name).copied())
                .unwrap_or(0);
            if have < *min {
                vacuous.push(format!("counter {name} = {have} < {min}"));
            }
        }
    }

    let evaluations = agg.counters.get("cases").copied().unwrap_or(0);
    let transitions = agg.counters.get(meta.transitions_counter).copied().unwrap_or(evaluations);
    let nontrivial = agg.counters.get(meta.nontrivial_counter).copied().unwrap_or(0);
    let states = if agg.distinct.is_empty() { evaluations } else { agg.distinct.len() as u64 };
    let distinct_nontrivial = if agg.distinct.is_empty() {
        nontrivial
    } else {
        agg.distinct.iter().filter(|h| *h & 1 == 1).count() as u64
    };
    let wall = t0.elapsed().as_secs_f64();
    let viol_total: u64 = agg.violations.values().map(|v| v.count).sum();
    let ev = json!({
        "property_id": id,
        "tier": tier.name(),
        "seed": seed,
        "level": "model_checking",
        "coverage": {
            "states": states.max(1),
            "transitions": transitions.max(1),
            "traces_validated_against_impl": evaluations,
            "samples": if agg.samples.is_empty() { vec![json!("(no sample recorded)")] } else { agg.samples.clone() },
            "evaluations": evaluations.max(1),
            "distinct_nontrivial": distinct_nontrivial,
            "rule": meta.rule,
            "bounds": meta.bounds,
            "exhaustive": meta.exhaustive && fully,
            "units": units,
            "units_done": agg.counters.get("units_done").copied().unwrap_or(0),
            "time_cap_hit_after_units": agg.capped_units,
            "distinct_count_capped": agg.distinct_capped,
            "counters": agg.counters,
            "maxima": agg.maxima,
            "subject_process_crashes": agg.crashes,
            "subject_crashes_deferred": {
                "count": agg.deferred.values().map(|v| v.count).sum::<u64>(),
                "samples": agg.deferred.values().take(8).map(|v| json!({"sig": v.sig, "count": v.count, "case": v.desc, "detail": v.detail})).collect::<Vec<_>>(),
            },
            "violation_signatures": agg.violations.values().map(|v| json!({"sig": v.sig, "count": v.count, "known": known.lookup(id, &v.sig).is_some()})).collect::<Vec<_>>(),
            "explanation": "the enumerated cases are executed on the real implementation built from /repo's working tree; there is no separate model, so every explored case is a trace validated against the implementation",
        },
        "assumptions": meta.assumptions,
        "wall_s": wall,
        "violations": viol_total,
        "known_findings_hit": known_hits,
        "machinery_errors": machinery,
        "vacuity_failures": vacuous,
    });
    let ev_dir = std::env::var("FV_EVIDENCE_DIR").unwrap_or_else(|_| "/verif/evidence".into());
    std::fs::create_dir_all(&ev_dir).ok();
    std::fs::write(
        format!("{ev_dir}/{id}.json"),
        serde_json::to_string_pretty(&ev).unwrap(),
    )
    .expect("write evidence");
    // the per-run progress directory is no longer needed
    let _ = std::fs::remove_dir_all(run_dir(id));

    for l in &lines {
        println!("{l}");
    }
    println!(
        "{id} {}: units={units} cases={evaluations} transitions={transitions} distinct={} nontrivial={nontrivial} violations={viol_total} (new signatures {new_violations}, known {known_hits}) deferred_crashes={} wall={wall:.1}s{}",
        tier.name(),
        agg.distinct.len(),
        agg.deferred.values().map(|v| v.count).sum::<u64>(),
        if agg.capped_units.is_empty() { "" } else { " TIME-CAP-HIT" }
    );
    // a violation that reproduces stands even if the run could not be completed
    // (e.g. a worker gave up after too many subject crashes)
    let confirmed_new = new_violations.saturating_sub(nondeterministic.len() as u64);
    if !machinery.is_empty() {
        for m in &machinery {
            eprintln!("MACHINERY-ERROR {id}: {m}");
        }
        if confirmed_new > 0 {
            eprintln!("{id}: the run is incomplete, the violations reported above stand");
            return 1;
        }
        return 2;
    }
    if !nondeterministic.is_empty() {
        eprintln!("MACHINERY-ERROR {id}: violation did not reproduce on replay: {nondeterministic:?}");
        return 2;
    }
    if new_violations > 0 {
        return 1;
    }
    if !vacuous.is_empty() {
        eprintln!("MACHINERY-ERROR {id}: vacuous run: {vacuous:?}");
        return 2;
    }
    0
}

fn crash_kind(how: &str) -> &'static str {
    if how.starts_with("watchdog") {
        return "hang";
    }
    if how.contains("signal: 6") || how.contains("SIGABRT") {
        "abort"
    } else if how.contains("signal: 11") || how.contains("SIGSEGV") {
        "segv"
    } else if how.contains("signal: 4") || how.contains("SIGILL") {
        "sigill"
    } else if how.contains("signal: 7") || how.contains("SIGBUS") {
        "sigbus"
    } else {
        "exit"
    }
}

pub fn replay_file(checks: &[&dyn Check], path: &str, history: bool) -> i32 {
    let s = match std::fs::read_to_string(path) {
        Ok(s) => s,
        Err(e) => {
            eprintln!("cannot read {path}: {e}");
            return 2;
        }
    };
    let v: Value = serde_json::from_str(&s).expect("replay file json");
    let id = v["property"].as_str().unwrap();
    let tier = Tier::parse(v["tier"].as_str().unwrap()).unwrap();
    let (unit, sub) = (v["unit"].as_u64().unwrap(), v["sub"].as_u64().unwrap());
    let Some(check) = checks.iter().find(|c| c.id() == id) else {
        eprintln!("unknown property {id}");
        return 2;
    };
    println!("replaying {id} {} unit={unit} sub={sub}", tier.name());
    println!("  recorded: [{}] {}", v["signature"].as_str().unwrap_or(""), v["detail"].as_str().unwrap_or(""));
    let attempts = check.replay_attempts();
    for a in 0..attempts {
        if replay_case(*check, tier, unit, sub, history) {
            if attempts > 1 {
                println!("  (failed on attempt {} of up to {attempts})", a + 1);
            }
            println!("VIOLATION property={id} replay={path}");
            return 1;
        }
    }
    0
}
