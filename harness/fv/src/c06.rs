//! C06 — 2D rendering equals per-pixel evaluation of the shape.
//! DESIGN.md §4 C06.
use crate::evalkit::Backend;
use crate::prog::var_by_index;
use crate::runner::{Check, CrashPolicy, Cx, Meta, Tier, guard, panic_site};
use crate::scene::{self, Scene};
use fidget_core::context::Context;
use fidget_core::render::{ImageSize, RenderHints, ThreadPool, TileSizes};
use fidget_core::shape::{Shape, ShapeVars};
use fidget_core::var::Var;
use fidget_core::vm::VmFunction;
use fidget_jit::JitFunction;
use fidget_raster::pixel::{DistancePixel, EvalConfig, RenderConfig, render};
use nalgebra::Matrix3;
use serde_json::json;

pub struct C06;

fn sizes(tier: Tier) -> Vec<u32> {
    match tier {
        Tier::Quick => vec![1, 3, 4, 5, 8, 9, 17],
        Tier::Thorough => vec![1, 2, 3, 4, 5, 7, 8, 9, 15, 16, 17, 20, 33],
    }
}

fn tile_chains(tier: Tier) -> Vec<Vec<usize>> {
    match tier {
        // tile sizes need only be descending and divisible: chains whose root
        // is not a power of two are included
        Tier::Quick => vec![vec![4], vec![8, 4], vec![8, 2], vec![16, 4], vec![12, 4], vec![6, 3], vec![5]],
        Tier::Thorough => {
            // every valid chain over {16, 8, 4, 2}
            let all = [16usize, 8, 4, 2];
            let mut v: Vec<Vec<usize>> = (1u32..16)
                .map(|m| all.iter().enumerate().filter(|(i, _)| (m >> i) & 1 == 1).map(|(_, v)| *v).collect())
                .collect();
            v.extend([vec![12, 4], vec![12, 6, 2], vec![6, 3], vec![5], vec![10, 5], vec![24, 8], vec![9, 3], vec![7]]);
            v
        }
    }
}

fn transforms() -> Vec<(&'static str, Matrix3<f32>)> {
    vec![
        ("identity", Matrix3::identity()),
        ("scale 0.5", Matrix3::new_scaling(0.5)),
        ("translate", Matrix3::new_translation(&nalgebra::Vector2::new(0.25, -0.5))),
        ("rot90", Matrix3::new(0.0, -1.0, 0.0, 1.0, 0.0, 0.0, 0.0, 0.0, 1.0)),
        ("anisotropic + shear", Matrix3::new(1.5, 0.25, 0.1, 0.0, 0.75, -0.2, 0.0, 0.0, 1.0)),
        // the other bottom-row patterns of a homogeneous 2D matrix: (0,0,w) and (a,b,1)
        // (rendered at z = 0 only: whether the slice height takes part in the
        // homogeneous divide is not something the property speaks about)
        ("homogeneous scale (0,0,2)", Matrix3::new(1.0, 0.0, 0.5, 0.0, 1.0, -0.25, 0.0, 0.0, 2.0)),
        ("perspective (1/8,-1/16,1)", Matrix3::new(1.0, 0.0, 0.0, 0.0, 1.0, 0.0, 0.125, -0.0625, 1.0)),
    ]
}

struct Built<F> {
    shape: Shape<F>,
    vars: ShapeVars<f32>,
}

fn build<F: Backend>(s: &Scene) -> Option<Built<F>> {
    let mut ctx = Context::new();
    let roots = s.prog.build(&mut ctx);
    let f = crate::evalkit::build::<F>(&ctx, &roots).ok()?;
    let mut vars = ShapeVars::new();
    if let (Some(v), Var::V(i)) = (s.free, var_by_index(5)) {
        vars.insert(i, v);
    }
    Some(Built { shape: Shape::new_raw(f), vars })
}

#[allow(clippy::too_many_arguments)]
fn render_case<F: Backend + RenderHints>(
    cx: &mut Cx,
    s: &Scene,
    b: &Built<F>,
    w: u32,
    h: u32,
    chain: Option<&[usize]>,
    tname: &str,
    m: &Matrix3<f32>,
    z: f32,
    pixel_perfect: bool,
    pool: Option<&ThreadPool>,
) {
    let desc = || {
        json!({"backend": F::NAME, "shape": s.name, "size": [w, h], "tiles": chain.map(|c| format!("{c:?}")).unwrap_or("backend default".into()), "transform": tname,
               "z": z, "pixel_perfect": pixel_perfect, "threads": if pool.is_some() { "pool (shim, default schedule)" } else { "none" }})
    };
    let cfg = RenderConfig {
        image_size: ImageSize::new(w, h),
        world_to_model: *m,
        pixel_perfect,
        z,
    };
    let ecfg = EvalConfig {
        tile_sizes: chain.map(|c| TileSizes::new(c).unwrap()),
        threads: pool,
        cancel: Default::default(),
    };
    cx.add("evals", 1);
    // with the default tile sizes and the global pool the call is exactly what the
    // convenience entry point RenderConfig::run does: use it
    let via_run = chain.is_none() && matches!(pool, Some(ThreadPool::Global));
    let r = guard(|| if via_run { Some(cfg.run(b.shape.bind(&b.vars).unwrap())) } else { render(b.shape.bind(&b.vars).unwrap(), &cfg, &ecfg) });
    let img = match r {
        Ok(Some(i)) => i,
        Ok(None) => {
            cx.violation(format!("{} render returned None without cancellation", F::NAME), desc(), "None");
            return;
        }
        Err(e) => {
            cx.crash(format!("{} render crash {}", F::NAME, panic_site(&e)), desc(), e);
            return;
        }
    };
    if img.width() != w as usize || img.height() != h as usize {
        cx.violation(
            format!("{} image dimensions differ from the request", F::NAME),
            desc(),
            format!("{}x{} instead of {w}x{h}", img.width(), img.height()),
        );
        return;
    }
    // the sample positions themselves: the documented screen-to-world map (region.rs:
    // pixel column 0 is x = -1 and x = +1 lies one pixel beyond the right edge; y = +1 lies
    // one pixel beyond the top edge, so the bottom row is y = -1; the shorter side spans
    // [-1, 1), the map is centred) followed by world_to_model - written here from the
    // documentation, compared with what the renderer uses
    {
        let sc = 2.0 / (w.min(h) as f64);
        let s2w = nalgebra::Matrix3::<f64>::new(sc, 0.0, -(w as f64) / 2.0 * sc, 0.0, -sc, ((h as f64) / 2.0 - 1.0) * sc, 0.0, 0.0, 1.0);
        let want = m.cast::<f64>() * s2w;
        let got = cfg.mat().cast::<f64>();
        for r in 0..3 {
            for c in 0..3 {
                if !((got[(r, c)] - want[(r, c)]).abs() <= 1e-5 * (1.0 + want[(r, c)].abs())) {
                    cx.violation(
                        "screen-to-model matrix differs from the documented mapping",
                        desc(),
                        format!("entry ({r},{c}) of RenderConfig::mat() is {}, the documented screen-to-world map followed by world_to_model gives {}", got[(r, c)], want[(r, c)]),
                    );
                    return;
                }
            }
        }
    }
    // reference: per-pixel evaluation at the sample position
    let mat = cfg.mat().cast::<f64>();
    let free = s.free.unwrap_or(0.0) as f64;
    let (mut undecidable, mut total) = (0u64, 0u64);
    let (mut exact_px, mut nan_px) = (0u64, 0u64);
    for j in 0..h as usize {
        for i in 0..w as usize {
            let ph = mat * nalgebra::Vector3::new(i as f64, j as f64, 1.0);
            // homogeneous divide (w = 1 for affine transforms)
            let wdiv = ph[2];
            if wdiv.abs() < 1e-4 {
                // the sample lies on the projective map's line at infinity: it has no
                // model position
                total += 1;
                undecidable += 1;
                continue;
            }
            let p = nalgebra::Vector3::new(ph[0] / wdiv, ph[1] / wdiv, 1.0);
            let vars = [p[0], p[1], z as f64, 0.0, 0.0, free];
            let (v, mag, exact) = scene::eval64x(&s.prog, &vars);
            total += 1;
            let px = img[(j, i)];
            // exact case: the position and every intermediate are f32-representable,
            // so the renderer computes exactly v: its sign, an exact zero (of either
            // sign: not negative) and a NaN are certain, not within a tolerance
            let pex = wdiv == 1.0 && {
                let ex = |x: f64| x.is_finite() && (x as f32) as f64 == x;
                (0..2).all(|r| {
                    let t = [mat[(r, 0)] * i as f64, mat[(r, 1)] * j as f64, mat[(r, 2)]];
                    (1u32..8).all(|mask| ex((0..3).filter(|c| (mask >> c) & 1 == 1).map(|c| t[c]).sum()))
                })
            };
            if exact && pex {
                exact_px += 1;
                if px.inside() != (v < 0.0) {
                    cx.violation(
                        format!("{} pixel inside/outside differs from the sign of the shape", F::NAME),
                        desc(),
                        format!("pixel ({i},{j}) at model position ({},{},{z}): reported {} ({:?}), shape evaluates EXACTLY to {v:?}", p[0], p[1], if px.inside() { "inside" } else { "outside" }, px.unpack()),
                    );
                    return;
                }
                if pixel_perfect {
                    match px.unpack() {
                        DistancePixel::Value(g) if (g as f64 == v) || (g.is_nan() && v.is_nan()) => (),
                        other => {
                            cx.violation(
                                format!("{} pixel-perfect value differs from the shape's value", F::NAME),
                                desc(),
                                format!("pixel ({i},{j}) at model position ({},{}): image carries {other:?}, shape evaluates EXACTLY to {v:?}", p[0], p[1]),
                            );
                            return;
                        }
                    }
                }
                continue;
            }
            // the renderer computes the sample position in f32: the reference is
            // also taken at positions perturbed by that rounding, which matters
            // where the shape is ill-conditioned (sqrt at the edge of its domain)
            let dpos = 2e-6 * (1.0 + p[0].abs().max(p[1].abs()));
            let (mut vmin, mut vmax, mut any_nan) = (v, v, v.is_nan());
            let mut all_nan = v.is_nan();
            for (dx, dy) in [(dpos, 0.0), (-dpos, 0.0), (0.0, dpos), (0.0, -dpos)] {
                let (w, _) = scene::eval64(&s.prog, &[p[0] + dx, p[1] + dy, z as f64, 0.0, 0.0, free]);
                if w.is_nan() {
                    any_nan = true;
                } else {
                    all_nan = false;
                    vmin = vmin.min(w);
                    vmax = vmax.max(w);
                }
            }
            if all_nan {
                // certainly NaN: not negative, and in pixel-perfect mode the pixel carries NaN
                nan_px += 1;
                let ok = !px.inside() && (!pixel_perfect || matches!(px.unpack(), DistancePixel::Value(g) if g.is_nan()));
                if !ok {
                    cx.violation(
                        format!("{} pixel at which the shape is NaN is not reported as such", F::NAME),
                        desc(),
                        format!("pixel ({i},{j}) at model position ({},{}): the shape evaluates to NaN in a whole neighbourhood, the image carries {:?}", p[0], p[1], px.unpack()),
                    );
                    return;
                }
                continue;
            }
            if any_nan {
                // at or beyond the edge of the shape's domain (sqrt of a negative
                // number ...): the value at the sample position is undefined
                undecidable += 1;
                continue;
            }
            let tol = 2e-5 * (1.0 + mag);
            if pixel_perfect {
                match px.unpack() {
                    DistancePixel::Value(g) => {
                        if !((g as f64) >= vmin - 10.0 * tol && (g as f64) <= vmax + 10.0 * tol) {
                            cx.violation(
                                format!("{} pixel-perfect value differs from the shape's value", F::NAME),
                                desc(),
                                format!("pixel ({i},{j}) at model position ({:.6},{:.6}): image carries {g}, shape evaluates to {v} (range over the position rounding [{vmin}, {vmax}])", p[0], p[1]),
                            );
                            return;
                        }
                    }
                    DistancePixel::Fill { depth, inside } => {
                        cx.violation(
                            format!("{} pixel-perfect image contains a fill pixel", F::NAME),
                            desc(),
                            format!("pixel ({i},{j}): Fill {{ depth: {depth}, inside: {inside} }}"),
                        );
                        return;
                    }
                }
            }
            if vmin.abs() <= tol || vmax.abs() <= tol || (vmin < 0.0) != (vmax < 0.0) {
                undecidable += 1;
                continue;
            }
            if px.inside() != (v < 0.0) {
                cx.violation(
                    format!("{} pixel inside/outside differs from the sign of the shape", F::NAME),
                    desc(),
                    format!(
                        "pixel ({i},{j}) at model position ({:.6},{:.6},{z}): reported {} ({:?}), shape evaluates to {v}",
                        p[0],
                        p[1],
                        if px.inside() { "inside" } else { "outside" },
                        px.unpack()
                    ),
                );
                return;
            }
        }
    }
    cx.add("pixels_checked", total - undecidable);
    cx.add("pixels_decided_exactly", exact_px);
    cx.add("pixels_certainly_nan", nan_px);
    cx.add("pixels_undecidable", undecidable);
}

fn scene_unit<F: Backend + RenderHints>(cx: &mut Cx, tier: Tier, si: usize, jit_subset: bool) {
    let scenes = scene::scenes_2d();
    let s = &scenes[si];
    let Some(b) = build::<F>(s) else { return };
    let pool = ThreadPool::Custom(rayon::ThreadPoolBuilder::new().num_threads(4).build().unwrap());
    let mut sub = 0u64;
    let szs = sizes(tier);
    for &w in &szs {
        for &h in &szs {
            for chain in tile_chains(tier) {
                for (tname, m) in transforms() {
                    for (z, pp, threads) in [
                        (0.0f32, false, false),
                        (0.25, false, true),
                        (0.0, true, false),
                        (0.25, true, true),
                    ] {
                        let projective = m[(2, 0)] != 0.0 || m[(2, 1)] != 0.0 || m[(2, 2)] != 1.0;
                        if projective && z != 0.0 {
                            continue;
                        }
                        // the JIT runs on a sub-product (every other size pair)
                        if jit_subset && (w as usize + h as usize) % 2 == 1 && tier == Tier::Quick {
                            continue;
                        }
                        let sid = sub;
                        sub += 1;
                        if !cx.case(sid) {
                            continue;
                        }
                        cx.add("cases", 1);
                        cx.add("nontrivial", 1);
                        render_case::<F>(cx, s, &b, w, h, Some(&chain), tname, &m, z, pp, if threads { Some(&pool) } else { None });
                        if sid % 4001 == 0 {
                            cx.sample(|| json!({"backend": F::NAME, "shape": s.name, "size": [w, h], "tiles": chain, "transform": tname, "z": z, "pixel_perfect": pp, "threads": threads}));
                        }
                    }
                }
            }
        }
    }
    // the backend's DEFAULT tile sizes (VM [128, 32, 8], JIT [128, 16]) on images
    // larger than one root tile, with no pool, the stand-in pool and the
    // default (global) pool
    let global = ThreadPool::Global;
    let big: &[(u32, u32)] = match tier {
        Tier::Quick => &[(130, 70), (33, 257)],
        Tier::Thorough => &[(130, 70), (33, 257), (129, 129), (256, 128), (200, 131)],
    };
    for &(w, h) in big {
        for (tname, m) in transforms().into_iter().step_by(2) {
            for (z, pp, threads) in [(0.0f32, false, 0), (0.25, true, 1), (0.0, false, 2)] {
                let projective = m[(2, 0)] != 0.0 || m[(2, 1)] != 0.0 || m[(2, 2)] != 1.0;
                let z = if projective { 0.0 } else { z };
                let sid = sub;
                sub += 1;
                if !cx.case(sid) {
                    continue;
                }
                cx.add("cases", 1);
                cx.add("nontrivial", 1);
                cx.add("default_tile_size_renders", 1);
                let pool_ref = match threads {
                    0 => None,
                    1 => Some(&pool),
                    _ => Some(&global),
                };
                render_case::<F>(cx, s, &b, w, h, None, tname, &m, z, pp, pool_ref);
            }
        }
    }
}

/// NaN payloads: the image format stores either a distance sample or a NaN-boxed
/// "filled tile" record, so a NaN *computed by the shape* must never be read back as
/// such a record.  The only way an arbitrary NaN bit pattern enters an evaluation
/// is through a bound variable; the alphabet is every NaN whose mantissa is an
/// 8-bit window (any of the 16 offsets, any of the 255 non-zero values) with the
/// quiet bit set or clear, bit 0 set or clear and either sign.  Such a pixel is
/// not negative: it must be reported outside, and in pixel-perfect mode it must
/// carry a NaN value.
fn nan_payload_unit<F: Backend + RenderHints>(cx: &mut Cx, _tier: Tier) {
    let progs: Vec<(&'static str, Scene)> = {
        let mk = |name: &'static str, f: &dyn Fn(&mut crate::scene::PB) -> usize| {
            let mut b = crate::scene::PB::default();
            let r = f(&mut b);
            Scene { name, prog: b.done(r), free: Some(0.0) }
        };
        vec![
            ("the free variable itself", mk("v", &|b| b.var(5))),
            ("x + free variable", mk("x + v", &|b| {
                let x = b.x();
                let v = b.var(5);
                b.add(x, v)
            })),
            ("min(x + free variable, 2)", mk("min(x + v, 2)", &|b| {
                let x = b.x();
                let v = b.var(5);
                let s = b.add(x, v);
                let c = b.c(2.0);
                b.min(s, c)
            })),
        ]
    };
    let mut sub = 0u64;
    for (pname, s) in &progs {
        let Some(mut b) = build::<F>(s) else { continue };
        for sign in [0u32, 1] {
            for quiet in [1u32, 0] {
                for off in 0..16u32 {
                    for val in 1..256u32 {
                        for low in [0u32, 1] {
                            let bits = (sign << 31) | 0x7F80_0000 | (quiet << 22) | ((val << off) & 0x007F_FFFF) | low;
                            let nan = f32::from_bits(bits);
                            if !nan.is_nan() {
                                continue;
                            }
                            let sid = sub;
                            sub += 1;
                            if !cx.case(sid) {
                                continue;
                            }
                            cx.add("cases", 1);
                            cx.add("nontrivial", 1);
                            cx.add("nan_payload_renders", 1);
                            if let Var::V(i) = var_by_index(5) {
                                b.vars.insert(i, nan);
                            }
                            for pp in [false, true] {
                                let cfg = RenderConfig { image_size: ImageSize::new(3, 2), world_to_model: Matrix3::identity(), pixel_perfect: pp, z: 0.0 };
                                let ecfg = EvalConfig { tile_sizes: Some(TileSizes::new(&[4, 2]).unwrap()), threads: None, cancel: Default::default() };
                                cx.add("evals", 1);
                                let desc = || json!({"backend": F::NAME, "shape": pname, "free variable bits": format!("{bits:#010x}"), "size": [3, 2], "tiles": [4, 2], "pixel_perfect": pp});
                                let img = match guard(|| render(b.shape.bind(&b.vars).unwrap(), &cfg, &ecfg)) {
                                    Ok(Some(i)) => i,
                                    Ok(None) => {
                                        cx.violation(format!("{} render returned None without cancellation", F::NAME), desc(), "None");
                                        continue;
                                    }
                                    Err(e) => {
                                        cx.crash(format!("{} render crash {}", F::NAME, panic_site(&e)), desc(), e);
                                        continue;
                                    }
                                };
                                for j in 0..2usize {
                                    for i in 0..3usize {
                                        let px = img[(j, i)];
                                        let ok = !px.inside() && (!pp || matches!(px.unpack(), DistancePixel::Value(g) if g.is_nan()));
                                        if !ok {
                                            cx.violation(
                                                format!("{} pixel at which the shape is NaN is not reported as such", F::NAME),
                                                desc(),
                                                format!("pixel ({i},{j}): the shape's value is the NaN {bits:#010x} (not negative); the image carries {:?}, inside() = {}", px.unpack(), px.inside()),
                                            );
                                        }
                                    }
                                }
                            }
                        }
                    }
                }
            }
        }
    }
}

impl Check for C06 {
    fn id(&self) -> &'static str {
        "C06"
    }
    fn units(&self, _tier: Tier) -> usize {
        scene::scenes_2d().len() * 2 + 2
    }
    fn unit_label(&self, _tier: Tier, unit: usize) -> String {
        let n = scene::scenes_2d().len();
        if unit >= 2 * n {
            return format!("{} NaN payloads through a bound variable", if unit == 2 * n { "vm" } else { "jit" });
        }
        format!("{} {}", if unit < n { "vm" } else { "jit" }, scene::scenes_2d()[unit % n].name)
    }
    fn meta(&self, tier: Tier) -> Meta {
        Meta {
            rule: "case = one render; full Cartesian product of 13 shapes (circle, rectangle, half-plane, union / intersection / difference, ring, a min-chain of 4 circles that simplifies differently per tile, constants +1 and -1, x*y, a z-dependent sphere slice, a shape with a free variable) x image sizes (w,h) x tile-size chains x 7 view transforms (identity, scale, translation, 90-degree rotation, anisotropic + shear, and at z = 0 the homogeneous bottom rows (0,0,2) and (1/8,-1/16,1)) x (z, pixel-perfect, threads) in {(0,off,none),(0.25,off,pool),(0,on,none),(0.25,on,pool)} x backend {VM, JIT}; plus every shape with the backend's DEFAULT tile sizes on images larger than one root tile (130x70, 33x257; thorough also 129x129, 256x128, 200x131) with no pool / stand-in pool / ThreadPool::Global; oracle: cfg.mat() must equal the DOCUMENTED screen-to-world map (written independently from region.rs' documentation) followed by world_to_model; for every pixel (i,j) the f64 value of the program at cfg.mat()*(i,j,1): decidable pixels (|v| > 2e-5*(1+largest intermediate)) must satisfy inside() <=> v < 0; in pixel-perfect mode every pixel must be a Value within 2e-4*(1+magnitude) of v; image dimensions must equal the request; plus (round 10) NaN payloads: 3 shapes passing a bound variable through x every NaN bit pattern whose mantissa is an 8-bit window at any offset (quiet bit set / clear, bit 0 set / clear, either sign: 32 640 patterns) x pixel-perfect on / off x backend - every pixel must be outside and, in pixel-perfect mode, carry a NaN value (the image format NaN-boxes fill records); non-trivial = every render".into(),
            bounds: match tier {
                Tier::Quick => "sizes {1,3,4,5,8,9,17}^2, tile chains [4],[8,4],[8,2],[16,4]; JIT on every other size pair".into(),
                Tier::Thorough => "sizes {1,2,3,4,5,7,8,9,15,16,17,20,33}^2, all 15 valid chains over {16,8,4,2}".into(),
            },
            assumptions: vec![
                "the thread-pool dimension uses the rayon stand-in in its default (single job) schedule; schedules are C09's".into(),
                "a render call that panics (or kills the process) instead of returning an image is reported here: C11 enumerates evaluator entry points, not the renderer, and the property quantifies over the configurations this check enumerates".into(),
            ],
            crash_policy: CrashPolicy::Violation,
            vacuity: vec![("pixels_checked", 100000), ("default_tile_size_renders", 100), ("nan_payload_renders", 10000)],
            transitions_counter: "evals",
            nontrivial_counter: "nontrivial",
            exhaustive: true,
        }
    }
    fn run_unit(&self, tier: Tier, unit: usize, cx: &mut Cx) {
        let n = scene::scenes_2d().len();
        if unit == 2 * n {
            nan_payload_unit::<VmFunction>(cx, tier);
        } else if unit == 2 * n + 1 {
            nan_payload_unit::<JitFunction>(cx, tier);
        } else if unit < n {
            scene_unit::<VmFunction>(cx, tier, unit, false);
        } else {
            scene_unit::<JitFunction>(cx, tier, unit - n, true);
        }
    }
}
