//! Value alphabets (DESIGN.md §3.3)
use fidget_core::context::{BinaryOpcode as B, UnaryOpcode as U};
use std::f32::consts::PI;

pub fn next_up(x: f32) -> f32 {
    if x.is_nan() || x == f32::INFINITY {
        return x;
    }
    if x == 0.0 {
        return f32::from_bits(1);
    }
    let b = x.to_bits();
    f32::from_bits(if x > 0.0 { b + 1 } else { b - 1 })
}

pub fn next_down(x: f32) -> f32 {
    -next_up(-x)
}

/// The 25-value alphabet `V`
pub fn v_all() -> Vec<f32> {
    let mut v = v_fin();
    v.extend([f32::INFINITY, f32::NEG_INFINITY, f32::NAN]);
    v
}

/// The finite part of `V`
pub fn v_fin() -> Vec<f32> {
    vec![
        0.0,
        -0.0,
        1.0,
        -1.0,
        0.5,
        -0.5,
        2.0,
        -2.0,
        3.0,
        -2.25,
        1.5,
        PI,
        -PI,
        PI / 2.0,
        2.0 * PI,
        1e-30,
        1e-40, // denormal
        f32::MIN_POSITIVE,
        1e20,
        -1e20,
        f32::MAX,
        -f32::MAX,
    ]
}

/// Op-specific boundary values, harvested from the constants and branch
/// conditions in float.rs / interval.rs / grad.rs / the x86_64 JIT sequences
pub fn unary_extra(op: U) -> Vec<f32> {
    match op {
        U::Round => vec![
            0.5, -0.5, 1.5, -1.5, 2.5, -2.5, 0.49999997, -0.49999997, 4194304.5, 8388609.0,
            -4194304.5, 0.25, -0.25, 0.75,
        ],
        U::Floor | U::Ceil => vec![
            next_up(1.0),
            next_down(1.0),
            next_up(-1.0),
            next_down(-1.0),
            2.5,
            -2.5,
            8388608.0,
            -8388608.0,
            8388607.5,
            next_down(0.0),
            next_up(0.0),
            0.25,
            -0.25,
        ],
        U::Sin | U::Cos | U::Tan => {
            let mut v = vec![];
            for k in -4..=4 {
                let x = k as f32 * (PI / 2.0);
                v.extend([x, next_up(x), next_down(x)]);
            }
            v.extend([100.0, -100.0, 1e6]);
            v
        }
        U::Asin | U::Acos => vec![
            next_up(1.0),
            next_down(1.0),
            next_up(-1.0),
            next_down(-1.0),
            0.25,
            -0.75,
        ],
        U::Atan => vec![0.25, -0.75, 1e10, -1e10],
        U::Exp => vec![88.7, 88.8, -87.4, -104.0, 10.0, -10.0],
        U::Ln | U::Sqrt | U::Recip => vec![
            next_down(0.0),
            next_up(0.0),
            4.0,
            0.25,
            -4.0,
            1e-38,
            -1e-38,
            3.4e38,
        ],
        U::Square => vec![1.8446744e19, -1.8446744e19, 1.9e19, 1e-23, 1e-19],
        U::Not | U::Neg | U::Abs | U::Rand => vec![next_down(0.0), 7.0, -7.0],
    }
}

pub fn binary_extra(op: B) -> Vec<f32> {
    match op {
        B::Mod => vec![2.5, -2.5, 7.0, -7.0, 4.0, -4.0, 0.25, 1e-3, 6.0],
        B::Atan => vec![1e-20, -1e-20, 7.0, -7.0],
        B::Compare | B::Min | B::Max => vec![next_up(1.0), next_down(1.0), 7.0],
        B::And | B::Or => vec![next_down(0.0), 7.0],
        B::Div => vec![1e-38, -1e-38, 3.0, 7.0],
        B::Mul | B::Add | B::Sub => vec![3.4e38, -3.4e38, 1e-38, 7.0, 0.1],
        B::Mix => vec![7.0, 123456.0],
    }
}

fn dedup_bits(v: &mut Vec<f32>) {
    let mut seen = std::collections::HashSet::new();
    v.retain(|x| seen.insert(if x.is_nan() { 0x7fc0_0000 } else { x.to_bits() }));
}

pub fn unary_values(op: U, with_nonfinite: bool) -> Vec<f32> {
    let mut v = if with_nonfinite { v_all() } else { v_fin() };
    v.extend(unary_extra(op));
    dedup_bits(&mut v);
    v
}

pub fn binary_values(op: B, with_nonfinite: bool) -> Vec<f32> {
    let mut v = if with_nonfinite { v_all() } else { v_fin() };
    v.extend(binary_extra(op));
    dedup_bits(&mut v);
    v
}

/// Endpoint alphabet `E` for boxes (finite)
pub fn e_fin() -> Vec<f32> {
    let mut v = v_fin();
    v.extend([
        next_up(1.0),
        next_down(1.0),
        next_up(-1.0),
        next_down(-1.0),
        next_up(PI / 2.0),
        next_down(PI / 2.0),
        -PI / 2.0,
        1.5 * PI,
        next_up(1.5 * PI),
        7.0,
        100.0,
        -7.0,
        0.25,
        -0.25,
    ]);
    dedup_bits(&mut v);
    v.sort_by(|a, b| a.partial_cmp(b).unwrap());
    // -0.0 and 0.0 compare equal: keep both, with -0.0 first
    v
}

/// All intervals [lo, hi] with lo <= hi over an endpoint list
pub fn intervals(e: &[f32]) -> Vec<(f32, f32)> {
    let mut out = vec![];
    for &lo in e {
        for &hi in e {
            if lo <= hi && !(lo == 0.0 && hi == 0.0 && lo.to_bits() != hi.to_bits() && lo.is_sign_positive()) {
                out.push((lo, hi));
            }
        }
    }
    out
}

/// Dyadic alphabet for exact arithmetic
pub fn dyadic() -> Vec<f32> {
    vec![0.0, 0.25, -0.25, 0.5, -0.5, 1.0, -1.0, 2.0, -2.0, 3.0, -3.0, 4.0, -4.0]
}
