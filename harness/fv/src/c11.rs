//! C11 — evaluation is total: finite inputs never crash an evaluator.
//! DESIGN.md §4 C11.
use crate::alpha;
use crate::evalkit::{self, Backend};
use crate::prog::{POp, Prog};
use crate::refsem::{self, Flat};
use crate::runner::{Check, CrashPolicy, Cx, Meta, Tier, guard, panic_site};
use fidget_core::context::{BinaryOpcode as B, Context, UnaryOpcode as U};
use fidget_core::eval::{BulkEvaluator, Function, MathFunction, TracingEvaluator};
use fidget_core::shape::{EzShape, Shape, ShapeVars};
use fidget_core::types::{Grad, Interval};
use fidget_core::vm::VmFunction;
use fidget_jit::JitFunction;
use serde_json::json;

pub struct C11;

#[derive(Copy, Clone, Debug, PartialEq)]
enum AnyOp {
    Un(U),
    Bin(B),
}

fn all_ops() -> Vec<AnyOp> {
    refsem::UNARY
        .iter()
        .map(|u| AnyOp::Un(*u))
        .chain(refsem::BINARY.iter().map(|b| AnyOp::Bin(*b)))
        .collect()
}

/// Producers of overflow / invalid intermediates
fn producers() -> Vec<AnyOp> {
    vec![
        AnyOp::Un(U::Square),
        AnyOp::Bin(B::Mul),
        AnyOp::Un(U::Exp),
        AnyOp::Bin(B::Add),
        AnyOp::Bin(B::Sub),
        AnyOp::Bin(B::Div),
        AnyOp::Un(U::Recip),
        AnyOp::Un(U::Ln),
        AnyOp::Un(U::Sqrt),
        AnyOp::Un(U::Tan),
        AnyOp::Un(U::Neg),
    ]
}

fn name(o: AnyOp) -> String {
    match o {
        AnyOp::Un(u) => format!("{u:?}"),
        AnyOp::Bin(b) => format!("{b:?}"),
    }
}

#[derive(Clone, Debug)]
enum Unit {
    OpPoint(AnyOp),
    OpInterval(AnyOp, bool), // jit?
    Compose2(AnyOp, AnyOp, bool),
    Compose3(AnyOp, AnyOp, AnyOp, bool),
    /// op2(p1(x,y), p2(z,x)) for every binary op2
    Pair(AnyOp, AnyOp, bool),
    /// op3(op2(p1(x,y), p2(z,x)), y) and op3(y, ...) for every op3
    PairThen(AnyOp, AnyOp, B, bool),
    Transform(bool),
    Malformed,
}

fn units(tier: Tier) -> Vec<Unit> {
    let mut v = vec![Unit::Malformed];
    for o in all_ops() {
        v.push(Unit::OpPoint(o));
        v.push(Unit::OpInterval(o, false));
        v.push(Unit::OpInterval(o, true));
    }
    v.push(Unit::Transform(false));
    v.push(Unit::Transform(true));
    for p in producers() {
        for o in all_ops() {
            v.push(Unit::Compose2(p, o, false));
            v.push(Unit::Compose2(p, o, true));
        }
    }
    for p in producers() {
        for q in producers() {
            v.push(Unit::Pair(p, q, false));
            v.push(Unit::Pair(p, q, true));
        }
    }
    let then_prod: Vec<AnyOp> = if tier == Tier::Quick {
        vec![AnyOp::Un(U::Square)]
    } else {
        producers()
    };
    for p in &then_prod {
        for q in &then_prod {
            for b in [B::Add, B::Sub, B::Mul, B::Div] {
                v.push(Unit::PairThen(*p, *q, b, false));
                v.push(Unit::PairThen(*p, *q, b, true));
            }
        }
    }
    if tier == Tier::Thorough {
        for p in producers() {
            for o in producers() {
                for q in all_ops() {
                    v.push(Unit::Compose3(p, o, q, false));
                    v.push(Unit::Compose3(p, o, q, true));
                }
            }
        }
    }
    v
}

fn compose_points() -> Vec<f32> {
    vec![
        0.0,
        -0.0,
        1.0,
        -1.0,
        0.5,
        1e-30,
        1e-40,
        1e20,
        -1e20,
        f32::MAX,
        -f32::MAX,
        std::f32::consts::FRAC_PI_2,
    ]
}

fn compose_intervals() -> Vec<(f32, f32)> {
    vec![
        (0.0, 0.0),
        (1.0, 1.0),
        (-1.0, 1.0),
        (0.0, 1e20),
        (1e20, 1e20),
        (-1e20, 1e20),
        (-f32::MAX, f32::MAX),
        (f32::MAX, f32::MAX),
        (0.0, f32::MAX),
        (-f32::MAX, -1e20),
        (1e-40, 1e-30),
        (0.5, 2.0),
    ]
}

fn well_formed(i: &Interval) -> bool {
    (i.lower() <= i.upper()) || (i.lower().is_nan() && i.upper().is_nan())
}

/// Pushes `op` applied to `a` (and `b`) onto the program
fn push_op(p: &mut Prog, o: AnyOp, a: usize, b: usize) -> usize {
    match o {
        AnyOp::Un(u) => p.push(POp::Un(u, a)),
        AnyOp::Bin(bo) => p.push(POp::Bin(bo, a, b)),
    }
}

struct Built {
    flat: Flat,
    ctx: Context,
    roots: Vec<fidget_core::context::Node>,
}

fn build(p: &Prog) -> Built {
    let mut ctx = Context::new();
    let roots = p.build(&mut ctx);
    let flat = Flat::from_ctx(&ctx, &roots);
    Built { flat, ctx, roots }
}

fn sig(backend: &str, kind: &str, ops: &str, e: &str) -> String {
    let _ = ops;
    format!("{backend}-{kind} panic {}", panic_site(e))
}

/// Point-like evaluators (point, float-slice, grad-slice) on every point
fn run_points<F: Backend>(cx: &mut Cx, b: &Built, pts: &[Vec<f32>], ops: &str, desc: &dyn Fn() -> serde_json::Value) {
    let Ok(f) = evalkit::build::<F>(&b.ctx, &b.roots) else {
        cx.violation(format!("{} build failed ops={ops}", F::NAME), desc(), "function construction failed");
        return;
    };
    let nv = f.vars().len();
    let r = guard(|| {
        let tape = f.point_tape(Default::default());
        let mut ev = F::new_point_eval();
        for pt in pts {
            let args = refsem::args_for(f.vars(), &b.flat, pt);
            if let Err(e) = ev.eval(&tape, &args) {
                return Err(format!("{e:?} at {pt:?}"));
            }
        }
        Ok(())
    });
    cx.add("evals", pts.len() as u64);
    match r {
        Ok(Ok(())) => (),
        Ok(Err(e)) => cx.violation(format!("{}-point unexpected error ops={ops}", F::NAME), desc(), e),
        Err(e) => cx.violation(sig(F::NAME, "point", ops, &e), desc(), e),
    }
    if nv == 0 {
        return;
    }
    let mut cols = vec![vec![0.0f32; pts.len()]; nv];
    for (l, pt) in pts.iter().enumerate() {
        let args = refsem::args_for(f.vars(), &b.flat, pt);
        for (v, a) in args.iter().enumerate() {
            cols[v][l] = *a;
        }
    }
    cx.add("evals", 2);
    match evalkit::eval_float_slice(&f, &cols) {
        Ok(o) => {
            if o.iter().any(|x| x.len() != pts.len()) {
                cx.violation(format!("{}-float-slice result shape ops={ops}", F::NAME), desc(), "wrong sample count");
            }
        }
        Err(e) => cx.violation(sig(F::NAME, "float-slice", ops, &e), desc(), e),
    }
    let gcols: Vec<Vec<Grad>> = cols
        .iter()
        .enumerate()
        .map(|(v, c)| {
            c.iter()
                .map(|x| match v % 3 {
                    0 => Grad::new(*x, 1.0, 0.0, 0.0),
                    1 => Grad::new(*x, 0.0, 1.0, 0.0),
                    _ => Grad::new(*x, 2.0, -3.0, 0.5),
                })
                .collect()
        })
        .collect();
    if let Err(e) = evalkit::eval_grad_slice(&f, &gcols) {
        cx.violation(sig(F::NAME, "grad-slice", ops, &e), desc(), e);
    }
}

/// Finds the operation that *creates* the problem: the first node (in program
/// order) whose own sub-program panics, or whose interval is malformed while
/// the intervals of its operands are well-formed.
fn attribute<F: Backend>(p: &Prog, full_vars: &[fidget_core::var::Var], bx: &[(f32, f32)]) -> String {
    let mut wf: Vec<bool> = vec![true; p.nodes.len()];
    for j in 0..p.nodes.len() {
        let (opname, operands): (String, Vec<usize>) = match p.nodes[j] {
            POp::Un(u, a) => (format!("{u:?}"), vec![a]),
            POp::Bin(b, a, c) => (format!("{b:?}"), vec![a, c]),
            _ => continue,
        };
        let mut q = p.clone();
        q.roots = vec![j];
        let b = build(&q);
        let Ok(f) = evalkit::build::<F>(&b.ctx, &b.roots) else { continue };
        let mut args = vec![Interval::new(0.0, 0.0); f.vars().len()];
        for (v, i) in f.vars().iter() {
            if let Some(pp) = b.flat.vars.iter().position(|u| *u == v) {
                // boxes are indexed by the variable's position in the full program
                let vi = full_vars.iter().position(|u| *u == b.flat.vars[pp]).unwrap_or(usize::MAX);
                let (lo, hi) = bx.get(vi).copied().unwrap_or((0.5, 2.0));
                args[i] = Interval::new(lo, hi);
            }
        }
        match evalkit::eval_interval(&f, &args) {
            Err(e) => return format!("op {opname} panics at {}", panic_site(&e)),
            Ok((o, _)) => {
                wf[j] = well_formed(&o[0]);
                if !wf[j] && operands.iter().all(|a| wf[*a]) {
                    return format!("op {opname} creates a malformed interval from well-formed operands");
                }
            }
        }
    }
    "unattributed".into()
}

/// Interval evaluator on every box; every returned interval must be well-formed
fn run_boxes<F: Backend>(
    cx: &mut Cx,
    sub: &mut u64,
    p: &Prog,
    b: &Built,
    boxes: &[Vec<(f32, f32)>],
    ops: &str,
    desc: &dyn Fn() -> serde_json::Value,
) {
    let _ = ops;
    let Ok(f) = evalkit::build::<F>(&b.ctx, &b.roots) else {
        return;
    };
    let tape = match guard(|| f.interval_tape(Default::default())) {
        Ok(t) => t,
        Err(e) => {
            cx.violation(sig(F::NAME, "interval-tape", ops, &e), desc(), e);
            return;
        }
    };
    let mut ev = F::new_interval_eval();
    for bx in boxes {
        let s = *sub;
        *sub += 1;
        if !cx.case(s) {
            continue;
        }
        cx.add("cases", 1);
        cx.add("evals", 1);
        let mut args = vec![Interval::new(0.0, 0.0); f.vars().len()];
        for (v, i) in f.vars().iter() {
            if let Some(p) = b.flat.vars.iter().position(|u| *u == v) {
                let (lo, hi) = bx.get(p).copied().unwrap_or((0.5, 2.0));
                args[i] = Interval::new(lo, hi);
            }
        }
        let r = guard(|| ev.eval(&tape, &args).map(|(o, _)| o.to_vec()));
        match r {
            Ok(Ok(out)) => {
                for (i, o) in out.iter().enumerate() {
                    if !well_formed(o) {
                        let who = attribute::<F>(p, &b.flat.vars, bx);
                        cx.violation(
                            format!("{}-interval: {who}", F::NAME),
                            desc(),
                            format!("box {bx:?}: output {i} = [{:?}, {:?}] ({ops})", o.lower(), o.upper()),
                        );
                    }
                }
            }
            Ok(Err(e)) => cx.violation(
                format!("{}-interval unexpected error ops={ops}", F::NAME),
                desc(),
                format!("{e:?}"),
            ),
            Err(e) => {
                let who = attribute::<F>(p, &b.flat.vars, bx);
                cx.violation(format!("{}-interval: {who}", F::NAME), desc(), format!("box {bx:?}: {e} ({ops})"));
                ev = F::new_interval_eval();
            }
        }
    }
}

fn op_forms(o: AnyOp) -> Vec<(Prog, String)> {
    let mut out = vec![];
    match o {
        AnyOp::Un(u) => {
            let mut p = Prog::default();
            let x = p.push(POp::Var(0));
            let r = p.push(POp::Un(u, x));
            p.roots = vec![r];
            out.push((p, format!("{u:?}(x)")));
        }
        AnyOp::Bin(b) => {
            let mut p = Prog::default();
            let x = p.push(POp::Var(0));
            let y = p.push(POp::Var(1));
            let r = p.push(POp::Bin(b, x, y));
            p.roots = vec![r];
            out.push((p, format!("{b:?}(x,y)")));
            let mut p = Prog::default();
            let x = p.push(POp::Var(0));
            let r = p.push(POp::Bin(b, x, x));
            p.roots = vec![r];
            out.push((p, format!("{b:?}(x,x)")));
            for c in [0.0f32, -1.0, 2.0, 1e20, f32::MAX, 1e-40] {
                let mut p = Prog::default();
                let x = p.push(POp::Var(0));
                let k = p.push(POp::Const(c));
                let r = p.push(POp::Bin(b, x, k));
                p.roots = vec![r];
                out.push((p, format!("{b:?}(x,imm)")));
                let mut p = Prog::default();
                let x = p.push(POp::Var(0));
                let k = p.push(POp::Const(c));
                let r = p.push(POp::Bin(b, k, x));
                p.roots = vec![r];
                out.push((p, format!("{b:?}(imm,x)")));
            }
        }
    }
    out
}

fn compose(ops: &[AnyOp]) -> Vec<(Prog, String)> {
    // op1(x, y), then each further op applied to (prev, z) and (z, prev)
    let mut out = vec![];
    let variants = 1usize << (ops.len() - 1);
    for mask in 0..variants {
        let mut p = Prog::default();
        let x = p.push(POp::Var(0));
        let y = p.push(POp::Var(1));
        let z = p.push(POp::Var(2));
        let mut cur = push_op(&mut p, ops[0], x, y);
        let mut label = name(ops[0]);
        let mut skip = false;
        for (i, o) in ops[1..].iter().enumerate() {
            let flip = (mask >> i) & 1 == 1;
            if flip && matches!(o, AnyOp::Un(_)) {
                skip = true;
                break;
            }
            cur = if flip { push_op(&mut p, *o, z, cur) } else { push_op(&mut p, *o, cur, z) };
            label = if flip { format!("{}(z,{label})", name(*o)) } else { format!("{}({label},z)", name(*o)) };
        }
        if skip {
            continue;
        }
        p.roots = vec![cur];
        out.push((p, label));
    }
    // the last op with an immediate operand on either side
    if let Some(AnyOp::Bin(last)) = ops.last().copied() {
        for imm in [0.0f32, -2.0, 1e20] {
            for flip in [false, true] {
                let mut p = Prog::default();
                let x = p.push(POp::Var(0));
                let y = p.push(POp::Var(1));
                let z = p.push(POp::Var(2));
                let mut cur = push_op(&mut p, ops[0], x, y);
                let mut label = name(ops[0]);
                for o in &ops[1..ops.len() - 1] {
                    cur = push_op(&mut p, *o, cur, z);
                    label = format!("{}({label},z)", name(*o));
                }
                let k = p.push(POp::Const(imm));
                cur = if flip { p.push(POp::Bin(last, k, cur)) } else { p.push(POp::Bin(last, cur, k)) };
                label = if flip { format!("{last:?}(imm,{label})") } else { format!("{last:?}({label},imm)") };
                p.roots = vec![cur];
                out.push((p, label));
            }
        }
    }
    out
}

fn cartesian<T: Clone>(a: &[T], n: usize) -> Vec<Vec<T>> {
    let mut out: Vec<Vec<T>> = vec![vec![]];
    for _ in 0..n {
        out = out
            .into_iter()
            .flat_map(|p| {
                a.iter().map(move |x| {
                    let mut q = p.clone();
                    q.push(x.clone());
                    q
                })
            })
            .collect();
    }
    out
}

fn malformed<F: Backend>(cx: &mut Cx, sub: &mut u64) {
    // x + y*2 + z: three variables
    let mut p = Prog::default();
    let x = p.push(POp::Var(0));
    let y = p.push(POp::Var(1));
    let z = p.push(POp::Var(2));
    let a = p.push(POp::Bin(B::Add, x, y));
    let r = p.push(POp::Bin(B::Mul, a, z));
    p.roots = vec![r];
    let b = build(&p);
    let Ok(f) = evalkit::build::<F>(&b.ctx, &b.roots) else { return };
    let desc = || json!({"program": p.describe(), "backend": F::NAME});
    macro_rules! case {
        ($what:expr, $body:expr) => {{
            let s = *sub;
            *sub += 1;
            if cx.case(s) {
                cx.add("cases", 1);
                cx.add("malformed_argument_cases", 1);
                cx.add("evals", 1);
                match guard(|| $body) {
                    Ok(true) => (),
                    Ok(false) => cx.violation(
                        format!("{} {}: accepted instead of returning an error", F::NAME, $what),
                        desc(),
                        "evaluator returned Ok for a malformed argument list",
                    ),
                    Err(e) => cx.violation(
                        format!("{} {}: panicked instead of returning an error {}", F::NAME, $what, panic_site(&e)),
                        desc(),
                        e,
                    ),
                }
            }
        }};
    }
    for n in 0..3usize {
        case!(format!("point eval with {n} of 3 variables"), {
            let t = f.point_tape(Default::default());
            F::new_point_eval().eval(&t, &vec![1.0f32; n]).is_err()
        });
        case!(format!("interval eval with {n} of 3 variables"), {
            let t = f.interval_tape(Default::default());
            F::new_interval_eval().eval(&t, &vec![Interval::new(0.0, 1.0); n]).is_err()
        });
        case!(format!("float-slice eval with {n} of 3 variables"), {
            let t = f.float_slice_tape(Default::default());
            F::new_float_slice_eval().eval(&t, &vec![vec![1.0f32; 4]; n]).is_err()
        });
        case!(format!("grad-slice eval with {n} of 3 variables"), {
            let t = f.grad_slice_tape(Default::default());
            F::new_grad_slice_eval().eval(&t, &vec![vec![Grad::new(1.0, 0.0, 0.0, 0.0); 4]; n]).is_err()
        });
    }
    // every triple of slice lengths over {0, 1, 3, 8, 9, 17} that is not
    // all-equal (longer first, longer later, empty among non-empty, across the
    // SIMD width)
    let lset = [0usize, 1, 3, 8, 9, 17];
    let mut triples = vec![];
    for a in lset {
        for b in lset {
            for c in lset {
                if !(a == b && b == c) {
                    triples.push([a, b, c]);
                }
            }
        }
    }
    for lens in triples {
        case!(format!("float-slice eval with unequal slice lengths"), {
            let t = f.float_slice_tape(Default::default());
            let cols: Vec<Vec<f32>> = lens.iter().map(|n| vec![1.0; *n]).collect();
            F::new_float_slice_eval().eval(&t, &cols).is_err()
        });
        case!(format!("grad-slice eval with unequal slice lengths"), {
            let t = f.grad_slice_tape(Default::default());
            let cols: Vec<Vec<Grad>> = lens.iter().map(|n| vec![Grad::new(1.0, 0.0, 0.0, 0.0); *n]).collect();
            F::new_grad_slice_eval().eval(&t, &cols).is_err()
        });
    }
    // empty slices are fine and must return empty results
    case!("float-slice eval with empty slices (must succeed)", {
        let t = f.float_slice_tape(Default::default());
        let cols: Vec<Vec<f32>> = vec![vec![]; 3];
        matches!(F::new_float_slice_eval().eval(&t, &cols), Ok(o) if o.len() == 1 && o[0].is_empty())
    });
    // a trace of the wrong length (taken from another function) must be rejected
    // by simplify with an error value, not a panic and not a function
    {
        let chain = |k: usize| -> Prog {
            let mut q = Prog::default();
            let x = q.push(POp::Var(0));
            let mut acc = x;
            for i in 0..k {
                let c = q.push(POp::Const(0.25 * (i as f32 + 1.0)));
                acc = q.push(POp::Bin(if i % 2 == 0 { B::Min } else { B::Max }, acc, c));
            }
            q.roots = vec![acc];
            q
        };
        let mk = |k: usize| -> Option<F> {
            let q = chain(k);
            let bq = build(&q);
            evalkit::build::<F>(&bq.ctx, &bq.roots).ok()
        };
        for (have, want) in [(2usize, 1usize), (1, 2), (3, 1), (1, 3), (2, 9), (9, 2)] {
            if let (Some(g), Some(h)) = (mk(have), mk(want)) {
                case!(format!("simplify with a trace of {have} entries on a function with {want} choice clauses"), {
                    let t = g.interval_tape(Default::default());
                    let mut ie = F::new_interval_eval();
                    let (_, tr) = ie.eval(&t, &[Interval::new(-5.0, -4.0)]).unwrap();
                    match tr {
                        None => true, // nothing decided: no trace to misuse
                        Some(tr) => h.simplify(tr, Default::default(), &mut Default::default()).is_err(),
                    }
                });
            }
        }
    }
    // Shape API: missing bound variable
    let mut p2 = Prog::default();
    let x = p2.push(POp::Var(0));
    let v = p2.push(POp::Var(5));
    let r = p2.push(POp::Bin(B::Add, x, v));
    p2.roots = vec![r];
    let b2 = build(&p2);
    if let Ok(f2) = evalkit::build::<F>(&b2.ctx, &b2.roots) {
        let shape = Shape::new_raw(f2);
        let desc = || json!({"program": p2.describe(), "backend": F::NAME});
        case!("shape point eval with a missing bound variable", {
            let t = shape.ez_point_tape();
            Shape::<F>::new_point_eval().eval(&t, 1.0f32, 2.0, 3.0).is_err()
        });
        case!("shape interval eval with a missing bound variable", {
            let t = shape.ez_interval_tape();
            let vars = ShapeVars::<f32>::new();
            Shape::<F>::new_interval_eval()
                .eval_with_vars(&t, Interval::new(0.0, 1.0), Interval::new(0.0, 1.0), Interval::new(0.0, 1.0), &vars)
                .is_err()
        });
        case!("shape float-slice eval with a missing bound variable", {
            let t = shape.ez_float_slice_tape();
            Shape::<F>::new_float_slice_eval().eval(&t, &[1.0], &[2.0], &[3.0]).is_err()
        });
        case!("shape float-slice eval with mismatched x/y lengths", {
            let t = shape.ez_float_slice_tape();
            let mut vars = ShapeVars::<f32>::new();
            if let fidget_core::var::Var::V(i) = crate::prog::var_by_index(5) {
                vars.insert(i, 1.0);
            }
            Shape::<F>::new_float_slice_eval().eval_with_vars(&t, &[1.0, 2.0], &[2.0], &[3.0, 1.0], &vars).is_err()
        });
        case!("bind with a missing variable", { shape.bind(&ShapeVars::<f32>::new()).is_err() });
        // every way in which x / y / z / a variable array can disagree in length
        let vkey = match crate::prog::var_by_index(5) {
            fidget_core::var::Var::V(i) => i,
            _ => unreachable!(),
        };
        for (lx, ly, lz, lv) in [(2usize, 2usize, 1usize, 2usize), (2, 2, 3, 2), (1, 2, 2, 2), (2, 2, 2, 1), (2, 2, 2, 3), (2, 2, 2, 0), (9, 9, 8, 9), (9, 9, 9, 17), (0, 1, 0, 0)] {
            case!(format!("shape float-slice eval with lengths x={lx} y={ly} z={lz} variable array={lv}"), {
                let t = shape.ez_float_slice_tape();
                let mut arrays: ShapeVars<Vec<f32>> = ShapeVars::new();
                arrays.insert(vkey, vec![1.0; lv]);
                Shape::<F>::new_float_slice_eval()
                    .eval_with_var_arrays(&t, &vec![1.0; lx], &vec![2.0; ly], &vec![3.0; lz], &arrays)
                    .is_err()
            });
            case!(format!("shape grad-slice eval with lengths x={lx} y={ly} z={lz} variable array={lv}"), {
                let t = shape.ez_grad_slice_tape();
                let g = Grad::new(1.0, 0.0, 0.0, 0.0);
                let mut arrays: ShapeVars<Vec<Grad>> = ShapeVars::new();
                arrays.insert(vkey, vec![g; lv]);
                Shape::<F>::new_grad_slice_eval()
                    .eval_with_var_arrays(&t, &vec![g; lx], &vec![g; ly], &vec![g; lz], &arrays)
                    .is_err()
            });
        }
        case!("shape float-slice eval with a missing variable array", {
            let t = shape.ez_float_slice_tape();
            let arrays: ShapeVars<Vec<f32>> = ShapeVars::new();
            Shape::<F>::new_float_slice_eval().eval_with_var_arrays(&t, &[1.0], &[2.0], &[3.0], &arrays).is_err()
        });
        case!("BoundShape::try_from a shape with a free variable", {
            fidget_core::shape::BoundShape::<F, f32>::try_from(shape.clone()).is_err()
        });
    }
}

/// Argument lists that are unusual but VALID: extra arguments beyond the
/// tape's variables ("it's fine if the caller has given us extra variables"),
/// on functions with 0, 1 and 3 variables, for every evaluator kind and bulk
/// lengths below, at and above the SIMD width; constant shapes through the
/// Shape API.  Each must return normally with the result of the plain call.
fn generous<F: Backend>(cx: &mut Cx, sub: &mut u64) {
    let mut progs: Vec<(&str, Prog, usize)> = vec![];
    let mut p = Prog::default();
    let c = p.push(POp::Const(2.5));
    p.roots = vec![c];
    progs.push(("constant 2.5", p, 0));
    let mut p = Prog::default();
    let x = p.push(POp::Var(0));
    let k = p.push(POp::Const(1.5));
    let r = p.push(POp::Bin(B::Mul, x, k));
    p.roots = vec![r];
    progs.push(("x * 1.5", p, 1));
    let mut p = Prog::default();
    let x = p.push(POp::Var(0));
    let y = p.push(POp::Var(1));
    let z = p.push(POp::Var(2));
    let a = p.push(POp::Bin(B::Add, x, y));
    let r = p.push(POp::Bin(B::Min, a, z));
    p.roots = vec![r];
    progs.push(("min(x + y, z)", p, 3));
    for (name, p, nv) in &progs {
        let b = build(p);
        let Ok(f) = evalkit::build::<F>(&b.ctx, &b.roots) else { continue };
        let val = |l: usize, v: usize| -> f32 { 0.25 * l as f32 - 1.0 + v as f32 * 0.5 };
        for extra in 0..3usize {
            let desc = || json!({"program": name, "backend": F::NAME, "variables": nv, "extra_arguments": extra});
            macro_rules! ok_case {
                ($what:expr, $body:expr) => {{
                    let s = *sub;
                    *sub += 1;
                    if cx.case(s) {
                        cx.add("cases", 1);
                        cx.add("valid_unusual_argument_cases", 1);
                        cx.add("evals", 1);
                        match guard(|| $body) {
                            Ok(Ok(())) => (),
                            Ok(Err(m)) => cx.violation(format!("{} {}: valid argument list rejected or wrong result", F::NAME, $what), desc(), m),
                            Err(e) => cx.violation(format!("{} {}: panicked on a valid argument list {}", F::NAME, $what, panic_site(&e)), desc(), e),
                        }
                    }
                }};
            }
            ok_case!("point eval with extra arguments", {
                let t = f.point_tape(Default::default());
                let base: Vec<f32> = (0..*nv).map(|v| val(3, v)).collect();
                let mut more = base.clone();
                more.extend(std::iter::repeat(9.0).take(extra));
                let want = F::new_point_eval().eval(&t, &base).map(|(o, _)| o.to_vec()).map_err(|e| format!("{e:?}"))?;
                let got = F::new_point_eval().eval(&t, &more).map(|(o, _)| o.to_vec()).map_err(|e| format!("rejected: {e:?}"))?;
                if got.iter().map(|v| v.to_bits()).eq(want.iter().map(|v| v.to_bits())) { Ok(()) } else { Err(format!("{got:?} vs {want:?}")) }
            });
            ok_case!("interval eval with extra arguments", {
                let t = f.interval_tape(Default::default());
                let base: Vec<Interval> = (0..*nv).map(|v| Interval::new(val(1, v), val(4, v))).collect();
                let mut more = base.clone();
                more.extend(std::iter::repeat(Interval::new(-1.0, 1.0)).take(extra));
                let want = F::new_interval_eval().eval(&t, &base).map(|(o, _)| o.to_vec()).map_err(|e| format!("{e:?}"))?;
                let got = F::new_interval_eval().eval(&t, &more).map(|(o, _)| o.to_vec()).map_err(|e| format!("rejected: {e:?}"))?;
                if got == want { Ok(()) } else { Err(format!("{got:?} vs {want:?}")) }
            });
            for n in [1usize, 3, 7, 8, 9, 17] {
                ok_case!(format!("float-slice eval of {n} samples with extra slices"), {
                    let t = f.float_slice_tape(Default::default());
                    let base: Vec<Vec<f32>> = (0..*nv).map(|v| (0..n).map(|l| val(l, v)).collect()).collect();
                    let mut more = base.clone();
                    more.extend(std::iter::repeat(vec![9.0f32; n]).take(extra));
                    let got = F::new_float_slice_eval().eval(&t, &more).map(|o| o[0].to_vec()).map_err(|e| format!("rejected: {e:?}"))?;
                    // expected: the point evaluator sample by sample
                    let pt = f.point_tape(Default::default());
                    let mut pe = F::new_point_eval();
                    if *nv == 0 && extra == 0 {
                        return Ok(()); // no slice conveys the sample count
                    }
                    if got.len() != n {
                        return Err(format!("{} results for {n} samples", got.len()));
                    }
                    for l in 0..n {
                        let args: Vec<f32> = (0..*nv).map(|v| val(l, v)).collect();
                        let w = pe.eval(&pt, &args).map_err(|e| format!("{e:?}"))?.0[0];
                        if w.to_bits() != got[l].to_bits() {
                            return Err(format!("sample {l}: {} vs {w}", got[l]));
                        }
                    }
                    Ok(())
                });
                ok_case!(format!("grad-slice eval of {n} samples with extra slices"), {
                    let t = f.grad_slice_tape(Default::default());
                    let base: Vec<Vec<Grad>> = (0..*nv).map(|v| (0..n).map(|l| Grad::new(val(l, v), 1.0, 0.0, 0.0)).collect()).collect();
                    let mut more = base.clone();
                    more.extend(std::iter::repeat(vec![Grad::new(9.0, 0.0, 1.0, 0.0); n]).take(extra));
                    let got = F::new_grad_slice_eval().eval(&t, &more).map(|o| o[0].to_vec()).map_err(|e| format!("rejected: {e:?}"))?;
                    if *nv == 0 && extra == 0 {
                        return Ok(()); // no slice conveys the sample count
                    }
                    if got.len() != n {
                        return Err(format!("{} results for {n} samples", got.len()));
                    }
                    let pt = f.point_tape(Default::default());
                    let mut pe = F::new_point_eval();
                    for l in 0..n {
                        let args: Vec<f32> = (0..*nv).map(|v| val(l, v)).collect();
                        let w = pe.eval(&pt, &args).map_err(|e| format!("{e:?}"))?.0[0];
                        if w.to_bits() != got[l].v.to_bits() {
                            return Err(format!("sample {l}: {} vs {w}", got[l].v));
                        }
                    }
                    Ok(())
                });
            }
        }
        // Shape API: x, y, z are always passed, whatever the function uses
        let shape = Shape::new_raw(f);
        let desc = || json!({"program": name, "backend": F::NAME, "variables": nv, "api": "Shape"});
        for n in [1usize, 3, 7, 8, 9, 17] {
            let s = *sub;
            *sub += 1;
            if !cx.case(s) {
                continue;
            }
            cx.add("cases", 1);
            cx.add("valid_unusual_argument_cases", 1);
            cx.add("evals", 2);
            let r = guard(|| -> Result<(), String> {
                let (xs, ys, zs): (Vec<f32>, Vec<f32>, Vec<f32>) =
                    ((0..n).map(|l| val(l, 0)).collect(), (0..n).map(|l| val(l, 1)).collect(), (0..n).map(|l| val(l, 2)).collect());
                let t = shape.ez_float_slice_tape();
                let got = Shape::<F>::new_float_slice_eval().eval(&t, &xs, &ys, &zs).map(|o| o.to_vec()).map_err(|e| format!("rejected: {e}"))?;
                if got.len() != n {
                    return Err(format!("float-slice: {} results for {n} samples", got.len()));
                }
                let pt = shape.ez_point_tape();
                let mut pe = Shape::<F>::new_point_eval();
                for l in 0..n {
                    let w = pe.eval(&pt, xs[l], ys[l], zs[l]).map_err(|e| format!("{e}"))?.0;
                    if w.to_bits() != got[l].to_bits() {
                        return Err(format!("float-slice sample {l}: {} vs {w}", got[l]));
                    }
                }
                let gt = shape.ez_grad_slice_tape();
                let g = |v: &Vec<f32>, k: usize| -> Vec<Grad> { v.iter().map(|x| Grad::new(*x, (k == 0) as u8 as f32, (k == 1) as u8 as f32, (k == 2) as u8 as f32)).collect() };
                let gg = Shape::<F>::new_grad_slice_eval().eval(&gt, &g(&xs, 0), &g(&ys, 1), &g(&zs, 2)).map(|o| o.to_vec()).map_err(|e| format!("rejected: {e}"))?;
                if gg.len() != n {
                    return Err(format!("grad-slice: {} results for {n} samples", gg.len()));
                }
                Ok(())
            });
            match r {
                Ok(Ok(())) => (),
                Ok(Err(m)) => cx.violation(format!("{} shape bulk eval: valid call rejected or wrong result", F::NAME), desc(), format!("{n} samples: {m}")),
                Err(e) => cx.violation(format!("{} shape bulk eval: panicked on a valid call {}", F::NAME, panic_site(&e)), desc(), e),
            }
        }
    }
}

fn transform_unit<F: Backend>(cx: &mut Cx, sub: &mut u64) {
    use nalgebra::Matrix4;
    let mats: Vec<(&str, Matrix4<f32>)> = vec![
        ("identity", Matrix4::identity()),
        ("scale 1e20", Matrix4::new_scaling(1e20)),
        ("scale 0", Matrix4::new_scaling(0.0)),
        ("translate MAX", Matrix4::new_translation(&nalgebra::Vector3::new(f32::MAX, -f32::MAX, 1e20))),
        ("projective", {
            let mut m = Matrix4::identity();
            m[(3, 0)] = 1.0;
            m[(3, 3)] = 0.0;
            m
        }),
        ("projective tiny w", {
            let mut m = Matrix4::identity();
            m[(3, 3)] = 1e-40;
            m
        }),
        ("negative scale", Matrix4::new_nonuniform_scaling(&nalgebra::Vector3::new(-1e20, 2.0, -0.0))),
        ("homogeneous scale w = 1e-30", {
            let mut m = Matrix4::identity();
            m[(3, 3)] = 1e-30;
            m
        }),
        ("homogeneous scale w = 0", {
            let mut m = Matrix4::identity();
            m[(3, 3)] = 0.0;
            m
        }),
    ];
    let progs: Vec<Prog> = {
        let mut v = vec![];
        for b in [B::Add, B::Sub, B::Mul, B::Min] {
            let mut p = Prog::default();
            let x = p.push(POp::Var(0));
            let y = p.push(POp::Var(1));
            let z = p.push(POp::Var(2));
            let a = p.push(POp::Bin(b, x, y));
            let r = p.push(POp::Bin(B::Sub, a, z));
            p.roots = vec![r];
            v.push(p);
        }
        v
    };
    let ivs = compose_intervals();
    let pts = compose_points();
    for p in &progs {
        let b = build(p);
        let Ok(f) = evalkit::build::<F>(&b.ctx, &b.roots) else { continue };
        let shape = Shape::new_raw(f);
        for (mname, m) in &mats {
            let desc = || json!({"program": p.describe(), "backend": F::NAME, "matrix": mname});
            let s = *sub;
            *sub += 1;
            if !cx.case(s) {
                continue;
            }
            cx.add("cases", 1);
            // interval
            let it = shape.ez_interval_tape();
            let mut ie = Shape::<F>::new_interval_eval();
            for bx in cartesian(&ivs, 2) {
                let (a, c) = (bx[0], bx[1]);
                cx.add("evals", 1);
                let r = guard(|| {
                    ie.eval_with_transform(&it, Interval::new(a.0, a.1), Interval::new(c.0, c.1), Interval::new(a.0, a.1), m)
                        .map(|(o, _)| o)
                });
                match r {
                    Ok(Ok(o)) => {
                        if !well_formed(&o) {
                            // attribute: transform the box with the (Rust) interval
                            // arithmetic, then find the creating op of the program
                            use fidget_core::shape::Transformable;
                            let t = guard(|| Interval::transform(Interval::new(a.0, a.1), Interval::new(c.0, c.1), Interval::new(a.0, a.1), m));
                            let who = match t {
                                Ok((tx, ty, tz)) if [tx, ty, tz].iter().all(|i| well_formed(i) && !i.has_nan()) => {
                                    let tb = [tx, ty, tz].map(|i| (i.lower(), i.upper()));
                                    let full = [0usize, 1, 2].map(crate::prog::var_by_index);
                                    attribute::<F>(p, &full, &tb)
                                }
                                _ => "transformed box is NaN or malformed".to_string(),
                            };
                            cx.violation(
                                format!("{}-interval: {who}", F::NAME),
                                desc(),
                                format!("with transform, box {bx:?}: [{:?}, {:?}]", o.lower(), o.upper()),
                            );
                        }
                    }
                    Ok(Err(e)) => cx.violation(format!("{}-interval+transform unexpected error", F::NAME), desc(), format!("{e:?}")),
                    Err(e) => {
                        cx.violation(
                            format!("{}-interval+transform panic {}", F::NAME, panic_site(&e)),
                            desc(),
                            format!("box {bx:?}: {e}"),
                        );
                        ie = Shape::<F>::new_interval_eval();
                    }
                }
            }
            // point / float-slice / grad-slice
            let pt = shape.ez_point_tape();
            let mut pe = Shape::<F>::new_point_eval();
            let ft = shape.ez_float_slice_tape();
            let gt = shape.ez_grad_slice_tape();
            let xs: Vec<f32> = cartesian(&pts, 2).iter().map(|p| p[0]).collect();
            let ys: Vec<f32> = cartesian(&pts, 2).iter().map(|p| p[1]).collect();
            cx.add("evals", xs.len() as u64 + 2);
            let r = guard(|| {
                for (x, y) in xs.iter().zip(&ys) {
                    pe.eval_with_transform(&pt, *x, *y, *x, m).map_err(|e| format!("{e:?}"))?;
                }
                Shape::<F>::new_float_slice_eval()
                    .eval_with_transform(&ft, &xs, &ys, &xs, m)
                    .map_err(|e| format!("{e:?}"))?;
                let gx: Vec<Grad> = xs.iter().map(|x| Grad::new(*x, 1.0, 0.0, 0.0)).collect();
                let gy: Vec<Grad> = ys.iter().map(|x| Grad::new(*x, 0.0, 1.0, 0.0)).collect();
                let gz: Vec<Grad> = xs.iter().map(|x| Grad::new(*x, 0.0, 0.0, 1.0)).collect();
                Shape::<F>::new_grad_slice_eval()
                    .eval_with_transform(&gt, &gx, &gy, &gz, m)
                    .map_err(|e| format!("{e:?}"))?;
                Ok::<(), String>(())
            });
            match r {
                Ok(Ok(())) => (),
                Ok(Err(e)) => cx.violation(format!("{}-point+transform unexpected error", F::NAME), desc(), e),
                Err(e) => cx.violation(format!("{}-point+transform panic {}", F::NAME, panic_site(&e)), desc(), e),
            }
        }
    }
}

impl Check for C11 {
    fn id(&self) -> &'static str {
        "C11"
    }
    fn units(&self, tier: Tier) -> usize {
        units(tier).len()
    }
    fn unit_label(&self, tier: Tier, unit: usize) -> String {
        match &units(tier)[unit] {
            Unit::OpPoint(o) => format!("op-point {}", name(*o)),
            Unit::OpInterval(o, j) => format!("{}-interval op {}", if *j { "jit" } else { "vm" }, name(*o)),
            Unit::Compose2(a, b, j) => format!("{}-compose {} then {}", if *j { "jit" } else { "vm" }, name(*a), name(*b)),
            Unit::Compose3(a, b, c, j) => format!(
                "{}-compose {} then {} then {}",
                if *j { "jit" } else { "vm" },
                name(*a),
                name(*b),
                name(*c)
            ),
            Unit::Pair(a, b, j) => format!("{}-pair {} with {}", if *j { "jit" } else { "vm" }, name(*a), name(*b)),
            Unit::PairThen(a, b, o, j) => format!("{}-pair {o:?}({},{}) then any", if *j { "jit" } else { "vm" }, name(*a), name(*b)),
            Unit::Transform(j) => format!("{}-transform", if *j { "jit" } else { "vm" }),
            Unit::Malformed => "malformed-arguments".into(),
        }
    }
    fn meta(&self, tier: Tier) -> Meta {
        Meta {
            rule: "case = (program, box) for interval evaluation, (program) for the point-like evaluators over a whole point grid; programs: every opcode x operand form (reg/reg, same-reg, reg/imm, imm/reg with 6 immediates) on Vfin^2 points and every pair of finite E-intervals; compositions op2(op1(x,y),z) / op2(z,op1(x,y)) with op1 in 11 overflow/invalid producers and op2 in ALL 30 opcodes (thorough: a third level) on a 12^3 grid of points up to +-f32::MAX and a 12^3 grid of boxes up to [-MAX,MAX]; Shape API with 7 matrices (huge, zero, projective); malformed argument lists (too few variables; every not-all-equal triple of slice lengths over {0,1,3,8,9,17}; missing bound variables); on VM and JIT, all four evaluator kinds; oracle: normal return (panics caught, aborts/faults detected through the crash journal), well-formed intervals, Err for malformed arguments; non-trivial = every case (all inputs finite)".into(),
            bounds: match tier {
                Tier::Quick => "composition depth 2".into(),
                Tier::Thorough => "composition depth 3 (third level over the producer set)".into(),
            },
            assumptions: vec!["x86_64 JIT only".into()],
            crash_policy: CrashPolicy::Violation,
            vacuity: vec![("cases", 10000), ("malformed_argument_cases", 400)],
            transitions_counter: "evals",
            nontrivial_counter: "cases",
            exhaustive: true,
        }
    }
    fn run_unit(&self, tier: Tier, unit: usize, cx: &mut Cx) {
        let u = units(tier)[unit].clone();
        let mut sub = 0u64;
        match u {
            Unit::Malformed => {
                malformed::<VmFunction>(cx, &mut sub);
                malformed::<JitFunction>(cx, &mut sub);
                generous::<VmFunction>(cx, &mut sub);
                generous::<JitFunction>(cx, &mut sub);
            }
            Unit::Transform(jit) => {
                if jit {
                    transform_unit::<JitFunction>(cx, &mut sub);
                } else {
                    transform_unit::<VmFunction>(cx, &mut sub);
                }
            }
            Unit::OpPoint(o) => {
                let vals = match o {
                    AnyOp::Un(u) => alpha::unary_values(u, false),
                    AnyOp::Bin(b) => alpha::binary_values(b, false),
                };
                for (p, label) in op_forms(o) {
                    let s = sub;
                    sub += 1;
                    if !cx.case(s) {
                        continue;
                    }
                    cx.add("cases", 1);
                    let b = build(&p);
                    let pts = cartesian(&vals, b.flat.vars.len().max(1));
                    let desc = || json!({"program": p.describe()});
                    run_points::<VmFunction>(cx, &b, &pts, &label, &desc);
                    run_points::<JitFunction>(cx, &b, &pts, &label, &desc);
                    cx.sample(|| json!({"program": p.describe(), "points": pts.len()}));
                }
            }
            Unit::OpInterval(o, jit) => {
                let e = alpha::e_fin();
                let iv = alpha::intervals(&e);
                for (p, label) in op_forms(o) {
                    let b = build(&p);
                    let nv = b.flat.vars.len();
                    let boxes: Vec<Vec<(f32, f32)>> = if nv <= 1 {
                        iv.iter().map(|i| vec![*i]).collect()
                    } else {
                        // all pairs over a thinned interval list (every 3rd) plus
                        // the full list against itself on the diagonal
                        let thin: Vec<(f32, f32)> = iv.iter().step_by(if tier == Tier::Quick { 5 } else { 2 }).cloned().collect();
                        cartesian(&thin, 2)
                    };
                    let desc = || json!({"program": p.describe()});
                    if jit {
                        run_boxes::<JitFunction>(cx, &mut sub, &p, &b, &boxes, &label, &desc);
                    } else {
                        run_boxes::<VmFunction>(cx, &mut sub, &p, &b, &boxes, &label, &desc);
                    }
                }
            }
            Unit::Compose2(a, o, jit) => {
                self.compose_unit(cx, &mut sub, &[a, o], jit, 3);
            }
            Unit::Compose3(a, o, q, jit) => {
                self.compose_unit(cx, &mut sub, &[a, o, q], jit, 2);
            }
            Unit::Pair(a, q, jit) => {
                let progs: Vec<(Prog, String)> = refsem::BINARY
                    .iter()
                    .map(|b| {
                        let mut p = Prog::default();
                        let x = p.push(POp::Var(0));
                        let y = p.push(POp::Var(1));
                        let z = p.push(POp::Var(2));
                        let l = push_op(&mut p, a, x, y);
                        let r = push_op(&mut p, q, z, x);
                        let o = p.push(POp::Bin(*b, l, r));
                        p.roots = vec![o];
                        (p, format!("{b:?}({},{})", name(a), name(q)))
                    })
                    .collect();
                self.run_progs(cx, &mut sub, progs, jit, 3);
            }
            Unit::PairThen(a, q, b, jit) => {
                let mut progs = vec![];
                for o3 in all_ops() {
                    for flip in [false, true] {
                        if flip && matches!(o3, AnyOp::Un(_)) {
                            continue;
                        }
                        let mut p = Prog::default();
                        let x = p.push(POp::Var(0));
                        let y = p.push(POp::Var(1));
                        let z = p.push(POp::Var(2));
                        let l = push_op(&mut p, a, x, y);
                        let r = push_op(&mut p, q, z, x);
                        let m = p.push(POp::Bin(b, l, r));
                        let o = if flip { push_op(&mut p, o3, y, m) } else { push_op(&mut p, o3, m, y) };
                        p.roots = vec![o];
                        progs.push((p, format!("{}({b:?}({},{}))", name(o3), name(a), name(q))));
                    }
                }
                self.run_progs(cx, &mut sub, progs, jit, 3);
            }
        }
    }
}

impl C11 {
    fn compose_unit(&self, cx: &mut Cx, sub: &mut u64, ops: &[AnyOp], jit: bool, dims: usize) {
        self.run_progs(cx, sub, compose(ops), jit, dims)
    }

    fn run_progs(&self, cx: &mut Cx, sub: &mut u64, progs: Vec<(Prog, String)>, jit: bool, dims: usize) {
        let pts_a = compose_points();
        let iv_a = compose_intervals();
        for (p, label) in progs {
            let b = build(&p);
            let nv = b.flat.vars.len();
            let desc = || json!({"program": p.describe()});
            let boxes = cartesian(&iv_a, nv.min(dims).max(1));
            let pts = cartesian(&pts_a, nv.min(dims).max(1));
            if jit {
                run_boxes::<JitFunction>(cx, sub, &p, &b, &boxes, &label, &desc);
                run_points::<JitFunction>(cx, &b, &pts, &label, &desc);
            } else {
                run_boxes::<VmFunction>(cx, sub, &p, &b, &boxes, &label, &desc);
                run_points::<VmFunction>(cx, &b, &pts, &label, &desc);
            }
            cx.sample(|| json!({"program": p.describe(), "boxes": boxes.len(), "points": pts.len()}));
        }
    }
}
