//! C04 — simplifying with a trace never changes values on the traced domain.
//! DESIGN.md §4 C04.
use crate::evalkit::{self, Backend, trace_str};
use crate::prog::{self, DagSpec, OpSel, POp, Prog};
use crate::refsem::{self, FOp, Flat};
use crate::runner::{Check, CrashPolicy, Cx, Meta, Tier, guard, panic_site};
use fidget_core::context::{BinaryOpcode as B, Context, UnaryOpcode as U};
use fidget_core::eval::Function;
use fidget_core::types::{Grad, Interval};
use fidget_core::vm::{Choice, GenericVmFunction, VmFunction, VmTrace};
use fidget_jit::JitFunction;
use serde_json::json;

pub struct C04;

fn dag_spec() -> DagSpec {
    DagSpec {
        leaves: vec![POp::Var(0), POp::Var(1), POp::Const(0.5)],
        ops: vec![
            OpSel::Bin(B::Min),
            OpSel::Bin(B::Max),
            OpSel::Bin(B::And),
            OpSel::Bin(B::Or),
            OpSel::Bin(B::Add),
            OpSel::Un(U::Neg),
        ],
    }
}

#[derive(Clone)]
enum Unit {
    Dag { n: usize, prefix: Vec<POp> },
    Chain { k: usize, pat: usize },
    /// outer(G, D + c): two inner choice clauses (every kind, register and
    /// immediate forms) under an outer min/max that can make either of them
    /// dead, so that dead clauses of every form meet live clauses before and
    /// after them in the trace
    Guarded { outer: usize, g: usize, d: usize },
    /// choice clauses with out-of-line calls between them
    Calls { inner: usize, outer: usize },
    /// one choice node bound to two outputs with m other (choice) outputs
    /// around / between them: the child built at a small budget has to keep
    /// the repeated value alive (possibly spilled) across the other outputs
    FarRepeat { m: usize },
}

const CHOICE_OPS: [B; 4] = [B::Min, B::Max, B::And, B::Or];

const PATTERNS: [&[B]; 4] = [
    &[B::Min, B::Max],
    &[B::And, B::Or],
    &[B::Min, B::Max, B::And, B::Or],
    &[B::Or, B::Min, B::And],
];

fn units(tier: Tier) -> Vec<Unit> {
    let mut v = vec![];
    let spec = dag_spec();
    let nmax = match tier {
        Tier::Quick => 2,
        Tier::Thorough => 3,
    };
    for n in 1..=nmax {
        for p in spec.prefixes(n) {
            v.push(Unit::Dag { n, prefix: p });
        }
    }
    for k in [1usize, 2, 3, 4, 8, 9, 33, 64, 65] {
        for pat in 0..PATTERNS.len() {
            v.push(Unit::Chain { k, pat });
        }
    }
    for outer in 0..2 {
        for g in 0..CHOICE_OPS.len() {
            for d in 0..CHOICE_OPS.len() {
                v.push(Unit::Guarded { outer, g, d });
            }
        }
    }
    for inner in 0..4 {
        for outer in 0..4 {
            v.push(Unit::Calls { inner, outer });
        }
    }
    for m in 1..=6 {
        v.push(Unit::FarRepeat { m });
    }
    v
}

type Bx = Vec<(f32, f32)>;

fn axis_intervals() -> Vec<(f32, f32)> {
    let e = [-1.0f32, 0.0, 0.5, 1.0];
    let mut v = vec![];
    for lo in e {
        for hi in e {
            if lo <= hi {
                v.push((lo, hi));
            }
        }
    }
    v
}

/// Corners, edge midpoints and centre of a box (dyadic)
fn box_points(b: &Bx) -> Vec<Vec<f32>> {
    let mut pts: Vec<Vec<f32>> = vec![vec![]];
    for (lo, hi) in b {
        let mut c = vec![*lo];
        if hi != lo {
            c.push((lo + hi) / 2.0);
            c.push(*hi);
        }
        pts = pts
            .into_iter()
            .flat_map(|p| {
                c.iter().map(move |x| {
                    let mut q = p.clone();
                    q.push(*x);
                    q
                })
            })
            .collect();
    }
    pts
}

/// Sub-boxes used for nesting: per axis {lower half, upper half, whole}, all
/// combinations except the box itself, plus the centre point
fn sub_boxes(b: &Bx) -> Vec<Bx> {
    let mut out: Vec<Bx> = vec![vec![]];
    for (lo, hi) in b {
        let mid = (lo + hi) / 2.0;
        let opts: Vec<(f32, f32)> = if lo == hi {
            vec![(*lo, *hi)]
        } else {
            vec![(*lo, mid), (mid, *hi), (*lo, *hi)]
        };
        out = out
            .into_iter()
            .flat_map(|p| {
                opts.iter().map(move |o| {
                    let mut q = p.clone();
                    q.push(*o);
                    q
                })
            })
            .collect();
    }
    out.retain(|s| s != b);
    let centre: Bx = b.iter().map(|(lo, hi)| ((lo + hi) / 2.0, (lo + hi) / 2.0)).collect();
    if &centre != b && !out.contains(&centre) {
        out.push(centre);
    }
    out
}

fn ivals<F: Backend>(f: &F, flat: &Flat, b: &Bx) -> Vec<Interval> {
    let mut a = vec![Interval::new(0.0, 0.0); f.vars().len()];
    for (v, i) in f.vars().iter() {
        if let Some(p) = flat.vars.iter().position(|u| *u == v) {
            let bb = b.get(p).copied().unwrap_or((0.25, 0.25));
            a[i] = Interval::new(bb.0, bb.1);
        }
    }
    a
}

fn same_grad(a: &Grad, b: &Grad) -> bool {
    refsem::same32(a.v, b.v)
        && refsem::same32(a.dx, b.dx)
        && refsem::same32(a.dy, b.dy)
        && refsem::same32(a.dz, b.dz)
}

fn vars_list(v: &fidget_core::var::VarMap) -> Vec<(String, usize)> {
    let mut l: Vec<(String, usize)> = v.iter().map(|(v, i)| (format!("{v}"), i)).collect();
    l.sort();
    l
}

/// Compares `child` with `parent` at `points` under point, float-slice and
/// grad-slice evaluators.  Returns false on the first difference.
#[allow(clippy::too_many_arguments)]
fn compare_on<P: Backend, C: Backend>(
    cx: &mut Cx,
    parent: &P,
    child: &C,
    flat: &Flat,
    points: &[Vec<f32>],
    how: &str,
    desc: &dyn Fn() -> serde_json::Value,
) -> bool {
    let tag = format!("{}->{}", P::NAME, C::NAME);
    // metadata
    if vars_list(parent.vars()) != vars_list(child.vars()) {
        cx.violation(
            format!("{tag} child variable map differs"),
            desc(),
            format!("{how}: parent {:?} child {:?}", vars_list(parent.vars()), vars_list(child.vars())),
        );
        return false;
    }
    if parent.output_count() != child.output_count() {
        cx.violation(
            format!("{tag} child output count differs"),
            desc(),
            format!("{how}: parent {} child {}", parent.output_count(), child.output_count()),
        );
        return false;
    }
    if std::any::TypeId::of::<P>() == std::any::TypeId::of::<C>() && child.size() > parent.size() {
        cx.violation(
            format!("{tag} child larger than parent"),
            desc(),
            format!("{how}: parent size {} child size {}", parent.size(), child.size()),
        );
        return false;
    }
    let nv = parent.vars().len();
    // point evaluator
    for pt in points {
        let args = refsem::args_for(parent.vars(), flat, pt);
        cx.add("evals", 2);
        let (Ok((po, _)), co) = (evalkit::eval_point(parent, &args), evalkit::eval_point(child, &args)) else {
            continue;
        };
        match co {
            Err(e) => {
                cx.violation(format!("{tag} child point eval crash {}", panic_site(&e)), desc(), format!("{how} at {pt:?}: {e}"));
                return false;
            }
            Ok((co, _)) => {
                cx.add("outputs_compared", po.len() as u64);
                if po.len() != co.len() || po.iter().zip(&co).any(|(a, b)| !refsem::same32(*a, *b)) {
                    cx.violation(
                        format!("{tag} simplified value differs (point eval)"),
                        desc(),
                        format!("{how} at {pt:?}: parent {po:?} child {co:?}"),
                    );
                    return false;
                }
            }
        }
    }
    if nv == 0 || points.is_empty() {
        return true;
    }
    // interval evaluator of the CHILD on the bounding box of the points (a
    // subset of the traced domain): simplified tapes contain ops that fresh
    // tapes never do (CopyReg, CopyImm), so interval soundness is re-checked here
    {
        let all_args: Vec<Vec<f32>> = points.iter().map(|pt| refsem::args_for(parent.vars(), flat, pt)).collect();
        if all_args.iter().all(|a| a.iter().all(|x| !x.is_nan())) {
            let ivs: Vec<Interval> = (0..nv)
                .map(|v| {
                    let lo = all_args.iter().map(|a| a[v]).fold(f32::INFINITY, f32::min);
                    let hi = all_args.iter().map(|a| a[v]).fold(f32::NEG_INFINITY, f32::max);
                    Interval::new(lo, hi)
                })
                .collect();
            cx.add("evals", 1);
            match evalkit::eval_interval(child, &ivs) {
                Err(e) => {
                    cx.violation(format!("{tag} child interval eval crash {}", panic_site(&e)), desc(), format!("{how}: {e}"));
                    return false;
                }
                Ok((io, _)) => {
                    for args in &all_args {
                        let Ok((co, _)) = evalkit::eval_point(child, args) else { continue };
                        for (o, v) in co.iter().enumerate() {
                            if v.is_nan() || io[o].has_nan() {
                                continue;
                            }
                            cx.add("child_interval_enclosure_checks", 1);
                            if !crate::c03::contains(&io[o], *v, 4) {
                                cx.violation(
                                    format!("{tag} interval result of the simplified function does not enclose its point value"),
                                    desc(),
                                    format!("{how}: box {ivs:?} -> output {o} = [{:?}, {:?}], but at {args:?} the value is {v:?}", io[o].lower(), io[o].upper()),
                                );
                                return false;
                            }
                        }
                    }
                }
            }
        }
    }
    // float-slice and grad-slice evaluators, all points as lanes
    let mut cols = vec![vec![0.0f32; points.len()]; nv];
    for (l, pt) in points.iter().enumerate() {
        let args = refsem::args_for(parent.vars(), flat, pt);
        for (v, a) in args.iter().enumerate() {
            cols[v][l] = *a;
        }
    }
    cx.add("evals", 2);
    if let (Ok(po), co) = (evalkit::eval_float_slice(parent, &cols), evalkit::eval_float_slice(child, &cols)) {
        match co {
            Err(e) => {
                cx.violation(format!("{tag} child float-slice crash {}", panic_site(&e)), desc(), format!("{how}: {e}"));
                return false;
            }
            Ok(co) => {
                for (o, (a, b)) in po.iter().zip(&co).enumerate() {
                    if a.len() != b.len() || a.iter().zip(b).any(|(x, y)| !refsem::same32(*x, *y)) {
                        cx.violation(
                            format!("{tag} simplified value differs (float-slice eval)"),
                            desc(),
                            format!("{how}: output {o}: parent {a:?} child {b:?} at points {points:?}"),
                        );
                        return false;
                    }
                }
            }
        }
    }
    let mut gcols = vec![vec![Grad::new(0.0, 0.0, 0.0, 0.0); points.len()]; nv];
    for (v, i) in parent.vars().iter() {
        let Some(p) = flat.vars.iter().position(|u| *u == v) else { continue };
        for l in 0..points.len() {
            let x = cols[i][l];
            gcols[i][l] = match p {
                0 => Grad::new(x, 1.0, 0.0, 0.0),
                1 => Grad::new(x, 0.0, 1.0, 0.0),
                2 => Grad::new(x, 0.0, 0.0, 1.0),
                _ => Grad::new(x, 0.5, -2.0, 0.25),
            };
        }
    }
    cx.add("evals", 2);
    if let (Ok(po), co) = (evalkit::eval_grad_slice(parent, &gcols), evalkit::eval_grad_slice(child, &gcols)) {
        match co {
            Err(e) => {
                cx.violation(format!("{tag} child grad-slice crash {}", panic_site(&e)), desc(), format!("{how}: {e}"));
                return false;
            }
            Ok(co) => {
                for (o, (a, b)) in po.iter().zip(&co).enumerate() {
                    if a.len() != b.len() || a.iter().zip(b).any(|(x, y)| !same_grad(x, y)) {
                        cx.violation(
                            format!("{tag} simplified value differs (grad-slice eval)"),
                            desc(),
                            format!("{how}: output {o}: parent {a:?} child {b:?} at points {points:?}"),
                        );
                        return false;
                    }
                }
            }
        }
    }
    true
}

fn mk_trace(t: &[Choice]) -> VmTrace {
    let mut tr = VmTrace::default();
    tr.resize(t.len(), Choice::Unknown);
    tr.as_mut_slice().copy_from_slice(t);
    tr
}

/// Simplifies `f` with `trace` (fresh storage and workspace); a panic or an
/// error is a violation ("can always be used")
fn simplify<F: Backend>(
    cx: &mut Cx,
    f: &F,
    trace: &[Choice],
    how: &str,
    desc: &dyn Fn() -> serde_json::Value,
) -> Option<F> {
    cx.add("simplifications", 1);
    let tr = mk_trace(trace);
    match guard(|| f.simplify(&tr, Default::default(), &mut Default::default())) {
        Ok(Ok(c)) => Some(c),
        Ok(Err(e)) => {
            cx.violation(
                format!("{} simplify returned an error", F::NAME),
                desc(),
                format!("{how}: trace {} -> {e:?}", trace_str(&Some(trace.to_vec()))),
            );
            None
        }
        Err(p) => {
            cx.violation(
                format!("{} simplify panicked {}", F::NAME, panic_site(&p)),
                desc(),
                format!("{how}: trace {} -> {p}", trace_str(&Some(trace.to_vec()))),
            );
            None
        }
    }
}

struct Plan {
    boxes: Vec<Bx>,
    depth: usize,
    point_traces: bool,
}

/// All simplification chains of depth <= plan.depth starting from `orig`
/// (the comparison target is always the original function).
fn explore<F: Backend>(
    cx: &mut Cx,
    orig: &F,
    cur: &F,
    flat: &Flat,
    b: &Bx,
    depth: usize,
    plan: &Plan,
    chain: &str,
    desc: &dyn Fn() -> serde_json::Value,
) {
    let pts = box_points(b);
    // (1) trace from the interval evaluator on the box
    cx.add("evals", 1);
    match evalkit::eval_interval(cur, &ivals(cur, flat, b)) {
        Err(_) => cx.add("interval_eval_crashes_left_to_C11", 1),
        Ok((_, None)) => cx.add("interval_traces_none", 1),
        Ok((_, Some(t))) => {
            cx.add("interval_traces", 1);
            let how = format!("{chain} | {}-interval trace on box {b:?}", F::NAME);
            if let Some(child) = simplify(cx, cur, &t, &how, desc) {
                if child.size() < cur.size() {
                    cx.add("simplifications_that_shrank", 1);
                }
                if compare_on(cx, orig, &child, flat, &pts, &how, desc) && depth + 1 < plan.depth {
                    for sb in sub_boxes(b) {
                        explore(cx, orig, &child, flat, &sb, depth + 1, plan, &how, desc);
                    }
                }
            }
        }
    }
    // (2) traces from the point evaluator at each sample point
    if plan.point_traces {
        for pt in &pts {
            let args = refsem::args_for(cur.vars(), flat, pt);
            cx.add("evals", 1);
            match evalkit::eval_point(cur, &args) {
                Err(_) => cx.add("point_eval_crashes_left_to_C11", 1),
                Ok((_, None)) => cx.add("point_traces_none", 1),
                Ok((_, Some(t))) => {
                    cx.add("point_traces", 1);
                    let how = format!("{chain} | {}-point trace at {pt:?}", F::NAME);
                    if let Some(child) = simplify(cx, cur, &t, &how, desc) {
                        let one = vec![pt.clone()];
                        if compare_on(cx, orig, &child, flat, &one, &how, desc) && depth + 1 < plan.depth {
                            // a point-simplified function, traced again at the same point
                            let pb: Bx = pt.iter().map(|x| (*x, *x)).collect();
                            if &pb != b {
                                explore(cx, orig, &child, flat, &pb, depth + 1, plan, &how, desc);
                            }
                        }
                    }
                }
            }
        }
    }
}

/// VM<255> parent simplified into other register budgets
fn cross_budget(
    cx: &mut Cx,
    parent: &VmFunction,
    flat: &Flat,
    boxes: &[Bx],
    desc: &dyn Fn() -> serde_json::Value,
) {
    for b in boxes {
        let Ok((_, Some(t))) = evalkit::eval_interval(parent, &ivals(parent, flat, b)) else {
            continue;
        };
        let tr = mk_trace(&t);
        let pts = box_points(b);
        macro_rules! into {
            ($M:literal) => {{
                cx.add("simplifications", 1);
                cx.add("cross_budget_simplifications", 1);
                let how = format!("vm<255> -> vm<{}> with interval trace on {b:?}", $M);
                match guard(|| parent.simplify_with::<$M>(&tr, Default::default(), &mut Default::default())) {
                    Ok(Ok(c)) => {
                        compare_on(cx, parent, &c, flat, &pts, &how, desc);
                        // and once more, inside the new budget
                        for sb in sub_boxes(b).into_iter().take(3) {
                            if let Ok((_, Some(t2))) = evalkit::eval_interval(&c, &ivals(&c, flat, &sb)) {
                                if let Some(c2) = simplify(cx, &c, &t2, &format!("{how} | then on {sb:?}"), desc) {
                                    compare_on(cx, parent, &c2, flat, &box_points(&sb), &format!("{how} | then on {sb:?}"), desc);
                                }
                            }
                        }
                    }
                    Ok(Err(e)) => cx.violation("simplify_with returned an error", desc(), format!("{how}: {e:?}")),
                    Err(p) => cx.violation(format!("simplify_with panicked {}", panic_site(&p)), desc(), format!("{how}: {p}")),
                }
            }};
        }
        into!(3);
        into!(4);
        into!(12);
    }
}

fn check_prog(cx: &mut Cx, sub: &mut u64, p: &Prog, tier: Tier, chain_family: bool) {
    let s = *sub;
    *sub += 1;
    if !cx.case(s) {
        return;
    }
    cx.add("cases", 1);
    let mut ctx = Context::new();
    let roots = p.build(&mut ctx);
    let flat = Flat::from_ctx(&ctx, &roots);
    let clauses = flat
        .ops
        .iter()
        .filter(|o| matches!(o, FOp::Bin(b, ..) if refsem::is_choice(*b)))
        .count();
    if clauses == 0 {
        cx.add("programs_without_choice", 1);
        return;
    }
    cx.add("nontrivial", 1);
    cx.add("programs", 1);
    cx.distinct(flat.hash(), true);
    let desc = || json!({"program": p.describe(), "context_graph": flat.describe()});
    let ax = axis_intervals();
    let nv = flat.vars.len();
    let all_boxes: Vec<Bx> = match nv {
        0 => vec![vec![]],
        1 => ax.iter().map(|a| vec![*a]).collect(),
        _ => ax.iter().flat_map(|a| ax.iter().map(move |b| vec![*a, *b])).collect(),
    };
    let some_boxes: Vec<Bx> = all_boxes.iter().step_by(7).cloned().collect();
    let (vm_plan, jit_plan) = match (tier, chain_family) {
        (Tier::Quick, false) => (
            Plan { boxes: all_boxes.clone(), depth: 2, point_traces: true },
            Plan { boxes: some_boxes.clone(), depth: 2, point_traces: true },
        ),
        (Tier::Thorough, false) => (
            Plan { boxes: all_boxes.clone(), depth: 3, point_traces: true },
            Plan { boxes: all_boxes.clone(), depth: 2, point_traces: true },
        ),
        (_, true) => (
            Plan { boxes: some_boxes.clone(), depth: 3, point_traces: true },
            Plan { boxes: some_boxes.clone(), depth: 2, point_traces: false },
        ),
    };
    if let Ok(f) = evalkit::build::<VmFunction>(&ctx, &roots) {
        for b in &vm_plan.boxes {
            explore(cx, &f, &f, &flat, b, 0, &vm_plan, "vm", &desc);
        }
        cross_budget(cx, &f, &flat, &some_boxes, &desc);
    }
    if let Ok(f) = evalkit::build::<GenericVmFunction<3>>(&ctx, &roots) {
        let plan = Plan { boxes: some_boxes.clone(), depth: 2, point_traces: false };
        for b in &plan.boxes {
            explore(cx, &f, &f, &flat, b, 0, &plan, "vm<3>", &desc);
        }
    }
    if let Ok(f) = evalkit::build::<JitFunction>(&ctx, &roots) {
        for b in &jit_plan.boxes {
            explore(cx, &f, &f, &flat, b, 0, &jit_plan, "jit", &desc);
        }
    }
    cx.sample(|| json!({"program": p.describe(), "boxes": vm_plan.boxes.len(), "nesting_depth": vm_plan.depth}));
}

impl Check for C04 {
    fn id(&self) -> &'static str {
        "C04"
    }
    fn units(&self, tier: Tier) -> usize {
        units(tier).len()
    }
    fn meta(&self, tier: Tier) -> Meta {
        Meta {
            rule: "case = program with >= 1 choice clause; programs: every DAG up to the node bound over leaves {X,Y,0.5} and ops {min,max,and,or,add,neg} (clauses sharing operands, feeding each other, with immediates), chains of k clauses (k up to 65) in 4 kind patterns x 3 immediate patterns; 'guarded' programs outer(G, D+c) with outer in {min,max}, G and D every choice kind in reg/reg, reg/imm and imm/reg form, c in {0,+10,-10}, both operand orders (dead clauses of every form between live ones); one choice node bound to two outputs with m = 1..6 other outputs around / between them; for every box over per-axis endpoints {-1,0,0.5,1} (100 boxes, degenerate ones included): a trace is taken from the interval evaluator on the box and from the point evaluator at each of its corner/edge/centre points, on VM<255>, VM<3> and JIT; simplify must succeed; the child is compared bit-for-bit with the ORIGINAL function at every sample point of the traced domain under point, float-slice and grad-slice evaluators; variable map, output count and size are checked; chains of nested simplifications over sub-boxes (halves, quadrants, centre) up to the nesting bound; VM<255> is also simplified into budgets 3, 4 and 12".into(),
            bounds: match tier {
                Tier::Quick => "DAG nodes <= 2, nesting depth 2 (chains of clauses: depth 3), JIT on every 7th box".into(),
                Tier::Thorough => "DAG nodes <= 3, nesting depth 3 (VM) / 2 (JIT), all boxes".into(),
            },
            assumptions: vec![
                "constants, box endpoints and sample points are dyadic and glue ops exact, so interval decisions are never within rounding distance of point values (rounding of interval arithmetic is C03's tolerance)".into(),
                "the child is compared with the parent under the same evaluator kind (parent vs. expression is C01/C02)".into(),
                "evaluator crashes on the parent are left to C11".into(),
            ],
            crash_policy: CrashPolicy::Violation,
            vacuity: vec![("simplifications_that_shrank", 100), ("interval_traces", 100), ("point_traces", 100), ("outputs_compared", 1000)],
            transitions_counter: "evals",
            nontrivial_counter: "nontrivial",
            exhaustive: true,
        }
    }
    fn run_unit(&self, tier: Tier, unit: usize, cx: &mut Cx) {
        let u = units(tier)[unit].clone();
        let mut sub = 0u64;
        match u {
            Unit::Dag { n, prefix } => {
                let spec = dag_spec();
                spec.for_each(n, &prefix, true, &mut |p, _| {
                    check_prog(cx, &mut sub, p, tier, false);
                });
            }
            Unit::Calls { inner, outer } => {
                let ops = [B::Min, B::Max, B::And, B::Or];
                for (h, g) in [
                    (prog::CallOp::Un(U::Sin), prog::CallOp::Un(U::Exp)),
                    (prog::CallOp::Un(U::Exp), prog::CallOp::Un(U::Cos)),
                    (prog::CallOp::Un(U::Atan), prog::CallOp::Un(U::Sin)),
                    (prog::CallOp::Bin(B::Atan), prog::CallOp::Un(U::Sin)),
                    (prog::CallOp::Bin(B::Mod), prog::CallOp::Bin(B::Atan)),
                    (prog::CallOp::Un(U::Cos), prog::CallOp::Bin(B::Mod)),
                ] {
                    for third in [false, true] {
                        for imm in [false, true] {
                            let p = prog::calls_between_choices(ops[inner], ops[outer], h, g, third, imm);
                            check_prog(cx, &mut sub, &p, tier, true);
                        }
                    }
                }
            }
            Unit::FarRepeat { m } => {
                for variant in 0..2 {
                    for hop in [B::Min, B::Max] {
                        let mut q = Prog::default();
                        let x = q.push(POp::Var(0));
                        let y = q.push(POp::Var(1));
                        let h = q.push(POp::Bin(hop, x, y));
                        let others: Vec<usize> = (0..m)
                            .map(|i| {
                                let k = q.push(POp::Const(0.25 * (i as f32 + 1.0)));
                                let t = q.push(POp::Bin(B::Add, x, k));
                                if i % 2 == 0 { q.push(POp::Bin(B::Max, t, y)) } else { q.push(POp::Bin(B::Sub, t, y)) }
                            })
                            .collect();
                        let mut roots = vec![];
                        if variant == 0 {
                            roots.push(h);
                            roots.extend(&others);
                        } else {
                            roots.push(others[0]);
                            roots.push(h);
                            roots.extend(&others[1..]);
                        }
                        roots.push(h);
                        q.roots = roots;
                        check_prog(cx, &mut sub, &q, tier, true);
                    }
                }
            }
            Unit::Chain { k, pat } => {
                for imm_every in [0usize, 1, 3] {
                    let p = prog::family_chain(k, PATTERNS[pat], imm_every);
                    check_prog(cx, &mut sub, &p, tier, true);
                }
            }
            Unit::Guarded { outer, g, d } => {
                let outer_op = [B::Min, B::Max][outer];
                let (gop, dop) = (CHOICE_OPS[g], CHOICE_OPS[d]);
                // operand forms of the two inner clauses: reg/reg, reg/imm, imm/reg
                for gform in 0..3 {
                    for dform in 0..3 {
                        for shift in [0.0f32, 10.0, -10.0] {
                            for swap in [false, true] {
                                let mut p = Prog::default();
                                let x = p.push(POp::Var(0));
                                let y = p.push(POp::Var(1));
                                let c1 = p.push(POp::Const(0.5));
                                let c2 = p.push(POp::Const(0.25));
                                let gn = match gform {
                                    0 => p.push(POp::Bin(gop, y, x)),
                                    1 => p.push(POp::Bin(gop, y, c1)),
                                    _ => p.push(POp::Bin(gop, c1, y)),
                                };
                                let dn = match dform {
                                    0 => p.push(POp::Bin(dop, x, y)),
                                    1 => p.push(POp::Bin(dop, x, c2)),
                                    _ => p.push(POp::Bin(dop, c2, x)),
                                };
                                let dn = if shift != 0.0 {
                                    let k = p.push(POp::Const(shift));
                                    p.push(POp::Bin(B::Add, dn, k))
                                } else {
                                    dn
                                };
                                let r = if swap { p.push(POp::Bin(outer_op, dn, gn)) } else { p.push(POp::Bin(outer_op, gn, dn)) };
                                p.roots = vec![r];
                                check_prog(cx, &mut sub, &p, tier, false);
                            }
                        }
                    }
                }
            }
        }
    }
}
