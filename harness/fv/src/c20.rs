//! C20 — tracing and bulk results are well-formed records of the evaluation.
//! DESIGN.md §4 C20.
use crate::evalkit::{self, Backend, Clause, trace_str};
use crate::prog::{self, DagSpec, OpSel, POp, Prog};
use crate::refsem::{self, FOp, Flat, RefChoice, ref_choice32};
use crate::runner::{Check, CrashPolicy, Cx, Meta, Tier, panic_site};
use fidget_core::context::{BinaryOpcode as B, Context, UnaryOpcode as U};
use fidget_core::eval::{Function, Tape};
use fidget_core::types::Interval;
use fidget_core::vm::{Choice, GenericVmFunction, VmFunction};
use fidget_jit::JitFunction;
use serde_json::json;

pub struct C20;

fn dag_spec() -> DagSpec {
    DagSpec {
        leaves: vec![POp::Var(0), POp::Var(1), POp::Const(0.5)],
        ops: vec![
            OpSel::Bin(B::Min),
            OpSel::Bin(B::Max),
            OpSel::Bin(B::And),
            OpSel::Bin(B::Or),
            OpSel::Un(U::Neg),
        ],
    }
}

#[derive(Clone)]
enum Unit {
    Dag { n: usize, prefix: Vec<POp> },
    Chain { k: usize, pat: usize },
    NoChoice,
    /// choice clauses with out-of-line calls between them
    Calls { inner: usize, outer: usize },
}

const PATTERNS: [&[B]; 6] = [
    &[B::Min],
    &[B::Max],
    &[B::And],
    &[B::Or],
    &[B::Min, B::Max, B::And, B::Or],
    &[B::Or, B::Min, B::And],
];

fn units(tier: Tier) -> Vec<Unit> {
    let mut v = vec![Unit::NoChoice];
    let spec = dag_spec();
    let nmax = match tier {
        Tier::Quick => 2,
        Tier::Thorough => 3,
    };
    for n in 1..=nmax {
        for p in spec.prefixes(n) {
            v.push(Unit::Dag { n, prefix: p });
        }
    }
    for k in [0usize, 1, 2, 3, 7, 8, 9, 63, 64, 65, 199, 200] {
        for pat in 0..PATTERNS.len() {
            v.push(Unit::Chain { k, pat });
        }
    }
    for inner in 0..4 {
        for outer in 0..4 {
            v.push(Unit::Calls { inner, outer });
        }
    }
    v
}

fn to_ref(c: Choice) -> Option<RefChoice> {
    match c {
        Choice::Left => Some(RefChoice::Left),
        Choice::Right => Some(RefChoice::Right),
        Choice::Both => Some(RefChoice::Both),
        Choice::Unknown => None,
    }
}

/// What operand intervals imply.  `must` is the decided side under strict
/// separation; touching intervals admit either the decided side or Both.
fn ref_choice_interval(op: B, a: Interval, b: Interval) -> Vec<RefChoice> {
    use RefChoice::*;
    if a.has_nan() || b.has_nan() {
        return vec![Both];
    }
    match op {
        B::Min => {
            if a.upper() < b.lower() {
                vec![Left]
            } else if b.upper() < a.lower() {
                vec![Right]
            } else if a.upper() == b.lower() && a.lower() < b.upper() {
                vec![Both, Left]
            } else if b.upper() == a.lower() && b.lower() < a.upper() {
                vec![Both, Right]
            } else {
                vec![Both]
            }
        }
        B::Max => {
            if a.lower() > b.upper() {
                vec![Left]
            } else if b.lower() > a.upper() {
                vec![Right]
            } else if a.lower() == b.upper() && a.upper() > b.lower() {
                vec![Both, Left]
            } else if b.lower() == a.upper() && b.upper() > a.lower() {
                vec![Both, Right]
            } else {
                vec![Both]
            }
        }
        B::And => {
            if a.lower() == 0.0 && a.upper() == 0.0 {
                vec![Left]
            } else if !(a.lower() <= 0.0 && a.upper() >= 0.0) {
                vec![Right]
            } else {
                vec![Both]
            }
        }
        B::Or => {
            if !(a.lower() <= 0.0 && a.upper() >= 0.0) {
                vec![Left]
            } else if a.lower() == 0.0 && a.upper() == 0.0 {
                vec![Right]
            } else {
                vec![Both]
            }
        }
        _ => unreachable!(),
    }
}

fn vars_list(v: &fidget_core::var::VarMap) -> Vec<(String, usize)> {
    let mut l: Vec<(String, usize)> = v.iter().map(|(v, i)| (format!("{v}"), i)).collect();
    l.sort();
    l
}

/// Function-vs-tape metadata agreement
fn check_metadata<F: Backend>(cx: &mut Cx, f: &F, n_roots: usize, desc: &dyn Fn() -> serde_json::Value) {
    let fv = vars_list(f.vars());
    let fo = f.output_count();
    if fo != n_roots {
        cx.violation(
            format!("{} output_count != roots", F::NAME),
            desc(),
            format!("output_count {fo}, roots {n_roots}"),
        );
    }
    let r = crate::runner::guard(|| {
        let p = f.point_tape(Default::default());
        let i = f.interval_tape(Default::default());
        let s = f.float_slice_tape(Default::default());
        let g = f.grad_slice_tape(Default::default());
        [
            ("point", p.output_count(), vars_list(p.vars())),
            ("interval", i.output_count(), vars_list(i.vars())),
            ("float-slice", s.output_count(), vars_list(s.vars())),
            ("grad-slice", g.output_count(), vars_list(g.vars())),
        ]
    });
    match r {
        Ok(list) => {
            cx.add("evals", 4);
            for (kind, oc, vl) in list {
                if oc != fo || vl != fv {
                    cx.violation(
                        format!("{} {kind} tape metadata differs from function", F::NAME),
                        desc(),
                        format!("tape: outputs {oc} vars {vl:?}; function: outputs {fo} vars {fv:?}"),
                    );
                }
            }
        }
        Err(p) => cx.violation(format!("{} tape build panic {}", F::NAME, panic_site(&p)), desc(), p),
    }
    if f.size() == 0 && n_roots > 0 {
        cx.violation(format!("{} size 0", F::NAME), desc(), "size() == 0".to_string());
    }
    if f.can_simplify() != (f.choice_count() > 0) {
        cx.violation(format!("{} can_simplify", F::NAME), desc(), "can_simplify != (choice_count > 0)".to_string());
    }
}

/// Checks a point trace against the reference clauses; returns the trace
fn check_point_trace<F: Backend>(
    cx: &mut Cx,
    f: &F,
    args: &[f32],
    n_roots: usize,
    desc: &dyn Fn() -> serde_json::Value,
) -> Option<Option<Vec<Choice>>> {
    let ops = f.reg_ops();
    let (ref_out, clauses) = evalkit::regtape_point(&ops, f.slot_count(), n_roots, args);
    cx.add("evals", 1);
    let (out, trace) = match evalkit::eval_point(f, args) {
        Ok(r) => r,
        Err(p) => {
            cx.violation(format!("{}-point crash {}", F::NAME, panic_site(&p)), desc(), format!("at {args:?}: {p}"));
            return None;
        }
    };
    if out.len() != n_roots {
        cx.violation(
            format!("{}-point output array length", F::NAME),
            desc(),
            format!("{} outputs, wanted {n_roots}", out.len()),
        );
    }
    let _ = ref_out;
    check_trace_vs_clauses(cx, F::NAME, "point", f.choice_count(), &clauses, &trace, &|c: &Clause| {
        if c.amb { None } else { Some(vec![ref_choice32(c.op, c.a, c.b)]) }
    }, &format!("{args:?}"), desc);
    Some(trace)
}

#[allow(clippy::too_many_arguments)]
fn check_trace_vs_clauses(
    cx: &mut Cx,
    backend: &str,
    kind: &str,
    choice_count: usize,
    clauses: &[Clause],
    trace: &Option<Vec<Choice>>,
    expect: &dyn Fn(&Clause) -> Option<Vec<RefChoice>>,
    at: &str,
    desc: &dyn Fn() -> serde_json::Value,
) {
    if clauses.len() != choice_count {
        cx.violation(
            format!("{backend} choice_count != clauses in tape"),
            desc(),
            format!("choice_count {choice_count}, tape has {} choice ops", clauses.len()),
        );
        return;
    }
    let expected: Vec<Option<Vec<RefChoice>>> = clauses.iter().map(expect).collect();
    match trace {
        None => {
            cx.add("traces_none", 1);
            // allowed only if every clause is undecided
            for (i, e) in expected.iter().enumerate() {
                if let Some(e) = e {
                    if !e.contains(&RefChoice::Both) {
                        cx.violation(
                            format!("{backend}-{kind} no trace although a clause is decided"),
                            desc(),
                            format!("at {at}: clause {i} ({:?}) implies {:?} but no trace was reported", clauses[i].op, e),
                        );
                        return;
                    }
                }
            }
        }
        Some(t) => {
            cx.add("traces_some", 1);
            if t.len() != choice_count {
                cx.violation(
                    format!("{backend}-{kind} trace length"),
                    desc(),
                    format!("at {at}: trace has {} entries, choice_count {choice_count}", t.len()),
                );
                return;
            }
            let mut any_decided = false;
            for (i, c) in t.iter().enumerate() {
                let Some(got) = to_ref(*c) else {
                    cx.violation(
                        format!("{backend}-{kind} trace entry Unknown"),
                        desc(),
                        format!("at {at}: entry {i} of {} is Unknown", trace_str(trace)),
                    );
                    return;
                };
                if got != RefChoice::Both {
                    any_decided = true;
                }
                if let Some(e) = &expected[i] {
                    cx.add("trace_entries_compared", 1);
                    if !e.contains(&got) {
                        cx.violation(
                            format!("{backend}-{kind} trace entry differs from operands"),
                            desc(),
                            format!(
                                "at {at}: clause {i} {:?}({:?}, {:?}) implies {:?}, trace says {:?}; whole trace {}",
                                clauses[i].op, clauses[i].a, clauses[i].b, e, got, trace_str(trace)
                            ),
                        );
                        return;
                    }
                } else {
                    cx.add("trace_entries_skipped_zero_tie", 1);
                }
            }
            if !any_decided {
                cx.violation(
                    format!("{backend}-{kind} trace reported although all Both"),
                    desc(),
                    format!("at {at}: {}", trace_str(trace)),
                );
            }
        }
    }
}

/// Maps every choice clause of the tape (in tape order) to the graph node it
/// implements, by matching operand values at generic points.  Returns, per
/// clause, (lhs node, rhs node) in *tape operand order*.
fn map_clauses<F: Backend>(f: &F, flat: &Flat, n_roots: usize) -> Option<Vec<(usize, usize)>> {
    let gens: [[f32; 2]; 3] = [[0.8125, -1.3125], [-0.4375, 0.1875], [2.5625, 3.0625]];
    let ops = f.reg_ops();
    let mut per_point: Vec<(Vec<f32>, Vec<Clause>)> = vec![];
    for g in gens {
        let pt: Vec<f32> = (0..flat.vars.len()).map(|i| g[i % 2] + 0.03125 * (i / 2) as f32).collect();
        let args = refsem::args_for(f.vars(), flat, &pt);
        let (mut vals, mut amb) = (vec![], vec![]);
        flat.eval_all(&pt, &mut vals, &mut amb);
        let (_, cl) = evalkit::regtape_point(&ops, f.slot_count(), n_roots, &args);
        per_point.push((vals, cl));
    }
    let k = per_point[0].1.len();
    let mut out = vec![];
    for ci in 0..k {
        let mut cands = vec![];
        for (j, op) in flat.ops.iter().enumerate() {
            let FOp::Bin(o, l, r) = *op else { continue };
            if o != per_point[0].1[ci].op {
                continue;
            }
            for (l2, r2) in [(l, r), (r, l)] {
                // an immediate operand is always the tape's rhs, and is a
                // constant node of the graph
                let r_const = matches!(flat.ops[r2], FOp::Const(_));
                let l_const = matches!(flat.ops[l2], FOp::Const(_));
                if l_const || r_const != per_point[0].1[ci].b_is_imm {
                    continue;
                }
                if per_point.iter().all(|(vals, cl)| {
                    vals[l2].to_bits() == cl[ci].a.to_bits() && vals[r2].to_bits() == cl[ci].b.to_bits()
                }) {
                    cands.push((j, l2, r2));
                }
            }
        }
        cands.dedup();
        if cands.len() != 1 {
            return None;
        }
        out.push((cands[0].1, cands[0].2));
    }
    Some(out)
}

fn check_interval_trace<F: Backend>(
    cx: &mut Cx,
    f: &F,
    flat: &Flat,
    n_roots: usize,
    boxes: &[Vec<(f32, f32)>],
    desc: &dyn Fn() -> serde_json::Value,
) {
    // requires every graph node to be an output: flat.roots[i] = node of output i
    let Some(map) = map_clauses(f, flat, n_roots) else {
        cx.add("interval_trace_programs_skipped_ambiguous_mapping", 1);
        return;
    };
    let out_of_node = |n: usize| flat.roots.iter().position(|r| *r == n);
    let ops = f.reg_ops();
    let clause_ops: Vec<B> = ops
        .iter()
        .filter_map(|o| match evalkit::decode(*o) {
            evalkit::Dec::Bin(b, ..) if matches!(b, B::Min | B::Max | B::And | B::Or) => Some(b),
            _ => None,
        })
        .collect();
    for bx in boxes {
        let args_f: Vec<Interval> = {
            let mut a = vec![Interval::new(0.0, 0.0); f.vars().len()];
            for (v, i) in f.vars().iter() {
                if let Some(p) = flat.vars.iter().position(|u| *u == v) {
                    let b = bx.get(p).copied().unwrap_or((0.25, 0.75));
                    a[i] = Interval::new(b.0, b.1);
                }
            }
            a
        };
        cx.add("evals", 1);
        let (out, trace) = match evalkit::eval_interval(f, &args_f) {
            Ok(r) => r,
            Err(_p) => {
                // crashes of the interval evaluator are reported by C11 / C03
                cx.add("interval_eval_crashes_left_to_C11", 1);
                continue;
            }
        };
        if out.len() != n_roots {
            cx.violation(
                format!("{}-interval output array length", F::NAME),
                desc(),
                format!("{} outputs, wanted {n_roots}", out.len()),
            );
            continue;
        }
        let get = |n: usize| -> Option<Interval> {
            match flat.ops[n] {
                FOp::Const(c) => Some(Interval::new(c, c)),
                _ => out_of_node(n).map(|i| out[i]),
            }
        };
        let clauses: Vec<Clause> = clause_ops
            .iter()
            .map(|b| Clause { op: *b, a: 0.0, b: 0.0, b_is_imm: false, amb: false })
            .collect();
        let idx = std::cell::Cell::new(0usize);
        let expect = |c: &Clause| {
            let i = idx.get();
            idx.set(i + 1);
            let (l, r) = map[i];
            match (get(l), get(r)) {
                (Some(a), Some(b)) => Some(ref_choice_interval(c.op, a, b)),
                _ => None,
            }
        };
        check_trace_vs_clauses(
            cx,
            F::NAME,
            "interval",
            f.choice_count(),
            &clauses,
            &trace,
            &expect,
            &format!("{bx:?}"),
            desc,
        );
    }
}

fn point_alphabet() -> Vec<f32> {
    vec![-1.0, 0.0, -0.0, 0.5, 1.0, f32::NAN, 0.25]
}

fn box_alphabet() -> Vec<(f32, f32)> {
    let e = [-1.0f32, 0.0, 0.5, 1.0];
    let mut v = vec![];
    for lo in e {
        for hi in e {
            if lo <= hi {
                v.push((lo, hi));
            }
        }
    }
    v.push((-0.5, -0.25));
    v.push((0.25, 0.75));
    // the NaN interval and an unbounded one are legitimate boxes too
    v.push((f32::NAN, f32::NAN));
    v.push((f32::NEG_INFINITY, f32::INFINITY));
    v
}

fn check_prog(cx: &mut Cx, sub: &mut u64, p: &Prog, tier: Tier, big: bool) {
    let s = *sub;
    *sub += 1;
    if !cx.case(s) {
        return;
    }
    cx.add("cases", 1);
    cx.add("programs", 1);
    // Variant A: roots as given.  Variant B: every non-constant node exported.
    let mut ctx = Context::new();
    let roots_a = p.build(&mut ctx);
    let flat_a = Flat::from_ctx(&ctx, &roots_a);
    let nontrivial = flat_a.ops.iter().any(|o| matches!(o, FOp::Bin(b, ..) if refsem::is_choice(*b)));
    if nontrivial {
        cx.add("nontrivial", 1);
    }
    cx.distinct(flat_a.hash(), nontrivial);
    let desc = || json!({"program": p.describe(), "context_graph": flat_a.describe()});

    let nv = flat_a.vars.len();
    let pa = point_alphabet();
    let points: Vec<Vec<f32>> = if big {
        // chains: a sweep that drives every clause through Left / Right / tie
        let mut v = vec![];
        for x in [-2.0f32, -1.0, -0.75, -0.5, 0.0, 0.25, 0.5, 1.75, 24.25, 50.0, 100.5, f32::NAN] {
            for y in [-1.0f32, 0.0, 0.5, 30.0] {
                v.push(vec![x, y][..nv.min(2)].to_vec());
            }
        }
        v
    } else {
        match nv {
            0 => vec![vec![]],
            1 => pa.iter().map(|a| vec![*a]).collect(),
            _ => pa.iter().flat_map(|a| pa.iter().map(move |b| vec![*a, *b])).collect(),
        }
    };

    macro_rules! backend {
        ($F:ty) => {{
            match evalkit::build::<$F>(&ctx, &roots_a) {
                Err(e) => cx.violation(format!("{} build crash {}", <$F>::NAME, panic_site(&e)), desc(), e),
                Ok(f) => {
                    check_metadata(cx, &f, roots_a.len(), &desc);
                    for pt in &points {
                        let args = refsem::args_for(f.vars(), &flat_a, pt);
                        check_point_trace(cx, &f, &args, roots_a.len(), &desc);
                    }
                }
            }
        }};
    }
    backend!(VmFunction);
    backend!(GenericVmFunction<3>);
    backend!(JitFunction);

    // JIT and VM must produce the same trace for the same point
    if let (Ok(j), Ok(v)) = (
        evalkit::build::<JitFunction>(&ctx, &roots_a),
        evalkit::build::<GenericVmFunction<12>>(&ctx, &roots_a),
    ) {
        for pt in &points {
            let args = refsem::args_for(j.vars(), &flat_a, pt);
            if let (Ok((_, tj)), Ok((_, tv))) = (evalkit::eval_point(&j, &args), evalkit::eval_point(&v, &args)) {
                cx.add("evals", 2);
                cx.add("jit_vm_trace_comparisons", 1);
                if tj != tv {
                    cx.violation(
                        "jit-point trace differs from vm-point trace",
                        desc(),
                        format!("at {pt:?}: jit {} vm {}", trace_str(&tj), trace_str(&tv)),
                    );
                }
            }
        }
    }

    // Variant B: interval traces, with operands observable as outputs
    if !big || p.nodes.len() < 80 {
        let mut ctx_b = Context::new();
        let all = p.build_all(&mut ctx_b);
        let mut roots_b = vec![];
        for n in all {
            if !roots_b.contains(&n) && ctx_b.get_const(n).is_err() {
                roots_b.push(n);
            }
        }
        if roots_b.is_empty() {
            return;
        }
        let flat_b = Flat::from_ctx(&ctx_b, &roots_b);
        let desc_b = || json!({"program": p.describe(), "all_nodes_exported": true, "context_graph": flat_b.describe()});
        let ba = box_alphabet();
        let nvb = flat_b.vars.len();
        let boxes: Vec<Vec<(f32, f32)>> = match nvb {
            0 => vec![vec![]],
            1 => ba.iter().map(|a| vec![*a]).collect(),
            _ => {
                let step = if tier == Tier::Quick { 1 } else { 1 };
                ba.iter()
                    .step_by(step)
                    .flat_map(|a| ba.iter().map(move |b| vec![*a, *b]))
                    .collect()
            }
        };
        macro_rules! backend_i {
            ($F:ty) => {{
                if let Ok(f) = evalkit::build::<$F>(&ctx_b, &roots_b) {
                    check_interval_trace(cx, &f, &flat_b, roots_b.len(), &boxes, &desc_b);
                    // point traces on the all-outputs variant too
                    for pt in points.iter().step_by(3) {
                        let args = refsem::args_for(f.vars(), &flat_b, pt);
                        check_point_trace(cx, &f, &args, roots_b.len(), &desc_b);
                    }
                }
            }};
        }
        backend_i!(VmFunction);
        backend_i!(JitFunction);
    }
    cx.sample(|| json!({"program": p.describe(), "points": points.len()}));
}

impl Check for C20 {
    fn id(&self) -> &'static str {
        "C20"
    }
    fn units(&self, tier: Tier) -> usize {
        units(tier).len()
    }
    fn meta(&self, tier: Tier) -> Meta {
        Meta {
            rule: "case = program; programs: every DAG with 1..=n nodes over leaves {X,Y,0.5} and ops {min,max,and,or,neg} (0..n choice clauses, reg/reg and reg/imm forms, shared operands), chains of k clauses for k in {0,1,2,3,7,8,9,63,64,65,199,200} x 6 kind patterns, and a no-choice program; each evaluated by VM<255>, VM<3>, JIT point evaluators at every point of {-1,0,-0,0.25,0.5,1,NaN}^2 (chains: a 48-point sweep) and by VM and JIT interval evaluators on every box over endpoints {-1,0,0.5,1} (+2 interior boxes, the NaN interval and [-inf,inf]) per axis with all nodes exported; oracle: a reference interpreter over the register tape gives the operand values of every clause in tape order (point), the evaluator's own operand intervals are read from the exported outputs (interval); non-trivial = program has at least one choice clause".into(),
            bounds: match tier {
                Tier::Quick => "DAG nodes <= 2; chains up to 200 clauses".into(),
                Tier::Thorough => "DAG nodes <= 3; chains up to 200 clauses".into(),
            },
            assumptions: vec![
                "touching operand intervals admit either the decided side or Both; clauses downstream of a min/max zero-sign tie are not compared".into(),
                "interval-evaluator crashes on these inputs are left to C11".into(),
                "x86_64 JIT only".into(),
            ],
            crash_policy: CrashPolicy::Violation,
            vacuity: vec![("trace_entries_compared", 1000), ("traces_none", 1), ("traces_some", 100), ("jit_vm_trace_comparisons", 100)],
            transitions_counter: "evals",
            nontrivial_counter: "nontrivial",
            exhaustive: true,
        }
    }
    fn run_unit(&self, tier: Tier, unit: usize, cx: &mut Cx) {
        let u = units(tier)[unit].clone();
        let mut sub = 0u64;
        match u {
            Unit::NoChoice => {
                let p = prog::family_chain(0, &[B::Min], 0);
                check_prog(cx, &mut sub, &p, tier, false);
                let p = prog::family_tree(5, B::Add);
                check_prog(cx, &mut sub, &p, tier, false);
            }
            Unit::Dag { n, prefix } => {
                let spec = dag_spec();
                spec.for_each(n, &prefix, true, &mut |p, _| {
                    check_prog(cx, &mut sub, p, tier, false);
                });
            }
            Unit::Calls { inner, outer } => {
                let ops = [B::Min, B::Max, B::And, B::Or];
                for (h, g) in [
                    (prog::CallOp::Un(U::Sin), prog::CallOp::Un(U::Exp)),
                    (prog::CallOp::Un(U::Exp), prog::CallOp::Un(U::Cos)),
                    (prog::CallOp::Un(U::Atan), prog::CallOp::Un(U::Sin)),
                    (prog::CallOp::Bin(B::Atan), prog::CallOp::Un(U::Sin)),
                    (prog::CallOp::Bin(B::Mod), prog::CallOp::Bin(B::Atan)),
                    (prog::CallOp::Un(U::Cos), prog::CallOp::Bin(B::Mod)),
                ] {
                    for third in [false, true] {
                        for imm in [false, true] {
                            let p = prog::calls_between_choices(ops[inner], ops[outer], h, g, third, imm);
                            check_prog(cx, &mut sub, &p, tier, true);
                        }
                    }
                }
            }
            Unit::Chain { k, pat } => {
                for imm_every in [0usize, 1, 3] {
                    let p = prog::family_chain(k, PATTERNS[pat], imm_every);
                    check_prog(cx, &mut sub, &p, tier, true);
                }
            }
        }
    }
}
