#!/bin/bash
# Confirms a seeded change delivered by a sub-agent and files it under /verif/seeded/<id>/.
#   tools/confirm_seed.sh <id> <worktree> <property> "<demo command run inside the worktree>" "<needs>"
# Steps (all in the scratch worktree, never /repo): apply patch -> workspace test suite must
# pass (only the known ssao_bias failure allowed) -> demo must FAIL; revert -> demo must PASS.
set -u
id=$1; wt=$2; prop=$3; democmd=$4; needs=$5
out=/verif/seeded/$id
cd $wt || exit 2
git checkout -q -- . 2>/dev/null
git apply seed_out/patch.diff || { echo "patch does not apply"; exit 2; }
echo "== test suite with the change"
cargo test --workspace --no-fail-fast --offline 2>&1 | grep -E "^test result|^test .* FAILED|^error\[E|^error: could not compile" > /tmp/confirm_$id.suite
grep -E "FAILED|^error" /tmp/confirm_$id.suite | grep -v ssao_bias | grep -v "test result: FAILED. 6 passed; 1 failed" 
fails=$(grep -E "^test .* \.\.\. FAILED" /tmp/confirm_$id.suite | grep -v ssao_bias | wc -l)
errs=$(grep -cE "^error(\[E|: could not compile)" /tmp/confirm_$id.suite)
echo "   non-baseline failures: $fails, build errors: $errs"
echo "== demo with the change (must fail)"
( eval "$democmd" ) > /tmp/confirm_$id.with 2>&1; rc_with=$?
echo "   exit $rc_with"
git apply -R seed_out/patch.diff
echo "== demo without the change (must pass)"
( eval "$democmd" ) > /tmp/confirm_$id.without 2>&1; rc_without=$?
echo "   exit $rc_without"
if [ "$fails" = 0 ] && [ "$errs" = 0 ] && [ $rc_with != 0 ] && [ $rc_without = 0 ]; then
  mkdir -p $out
  cp seed_out/patch.diff $out/patch.diff
  rm -rf $out/demo; mkdir -p $out/demo
  (cd demo && tar --exclude=target -cf - .) | (cd $out/demo && tar xf -)
  cp seed_out/README.md $out/AGENT_README.md 2>/dev/null
  python3 - "$id" "$prop" "$democmd" "$needs" "$rc_with" "$rc_without" <<'PY'
import json,sys
id,prop,cmd,needs,rw,rwo=sys.argv[1:7]
json.dump({"id":id,"breaks_property":prop,"needs_to_manifest":needs,
 "confirmed":{"workspace_tests_with_change":"pass (only the baseline-failing fidget-wgpu effects::test::ssao_bias fails)",
   "demo_command":cmd,"demo_exit_with_change":int(rw),"demo_exit_without_change":int(rwo)},
 "how_to_apply":"git -C /repo apply /verif/seeded/%s/patch.diff ; run checks ; git -C /repo checkout -- ."%id,
 "detected_by":[]}, open(f"/verif/seeded/{id}/meta.json","w"), indent=1)
PY
  echo "CONFIRMED -> $out"
else
  echo "NOT CONFIRMED"; tail -5 /tmp/confirm_$id.with; tail -5 /tmp/confirm_$id.without; exit 1
fi
