#!/usr/bin/env python3
"""Regenerates /verif/MANIFEST.json from the table below (kept by hand)."""
import json, sys

ALL = ["C%02d" % i for i in range(1, 21)]

# property -> (category, technique, level text, level note, design ref)
CHECKS = {
 "C01": ("model_checking",
         "bounded-exhaustive enumeration of programs x register budgets on the real compiler+VM, vs. reference f32 semantics",
         "Every expression DAG up to the node bound (every opcode/operand form, families that force spills) is compiled at every instantiated register budget and executed by the real point and many-point interpreters; each output is compared bit-for-bit with an independent operation-by-operation evaluation of the graph the Context holds. Exhaustive within the stated bounds, no sampling.",
         "Trusted: ref32 (Rust std f32 ops), the DAG enumerator; bounded to <=3 (quick) / <=5 (thorough) operation nodes plus parametric families up to width 24; budgets 3..12,16,255.",
         "DESIGN.md §4 C01"),
 "C02": ("model_checking",
         "bounded-exhaustive enumeration of programs x inputs x slice lengths; x86_64 JIT vs interpreter per node, guard-paged input slices",
         "Every opcode/operand form over the special-value alphabet squared, every DAG up to the node bound and spill-forcing families (libm/atan2/mod call-outs among live registers, up to 40 variables / 79 outputs) are compiled by the JIT and compared per exported node with the interpreter: point evaluator at every grid point, SIMD evaluator for every slice length 0..=35 with inputs placed against PROT_NONE guard pages on either side (an out-of-slice access faults and is attributed to the case by the crash journal).",
         "Trusted: per-node comparison logic (min/max-of-zeros exception applied only there), guard-page granularity; x86_64 only.",
         "DESIGN.md §4 C02"),
 "C03": ("model_checking",
         "bounded-exhaustive enumeration of ops/programs x boxes x points in the box on VM and JIT interval evaluators, vs. reference point semantics",
         "For every opcode and operand form, every interval (pair) over a finite endpoint alphabet that contains each branch constant of the implementations (quadrant boundaries, +-1+-ulp, zero, denormals, 1e20, f32::MAX) is evaluated by the real VM and JIT interval evaluators and checked against the point value at endpoints, midpoints, endpoint neighbours and all alphabet values inside (all combinations for binary ops); every DAG up to the node bound is checked node by node on the intermediate intervals that actually arise (local obligation with clamped operand values); the Shape transform path is checked with 7 matrices. Tolerance 4 ulp.",
         "Trusted: ref32 point semantics; exclusions exactly as the property states (NaN interval, NaN value, atan2(0,0)); crashes deferred to C11; x86_64 JIT only.",
         "DESIGN.md §4 C03"),
 "C04": ("model_checking",
         "bounded-exhaustive enumeration of choice programs x boxes x trace sources x nested simplification histories on the real simplifier (VM budgets and JIT)",
         "For every choice program up to the bound and every box of a 100-box dyadic grid, traces from the interval evaluator (box) and the point evaluator (each sample point) of VM<255>, VM<3> and JIT are fed to simplify; every resulting child, and every child of a child over nested sub-boxes up to the nesting bound, is compared bit-for-bit with the original function on the traced domain under point, float-slice and grad-slice evaluators; simplification into other budgets (3, 4, 12) is included; simplify must never fail.",
         "Trusted: dyadic alphabets make interval decisions exact; child-vs-parent comparison under the same evaluator.",
         "DESIGN.md §4 C04"),
 "C05": ("model_checking",
         "bounded-exhaustive enumeration of ops/programs x points x seed gradients on VM and JIT gradient evaluators, vs. f64 dual numbers (local chain-rule obligation)",
         "Every opcode and operand form over a 20-value alphabet (squared for binary ops) with six different seed gradients per operand, in slices of every length 1..=9, and every DAG up to the node bound over 20 differentiable ops with all nodes exported, are evaluated by the VM and JIT gradient evaluators; each node's gradient must equal the f64 dual-number rule applied to the evaluator's own operand gradients (cancellation-aware tolerance), its value must equal the float-slice evaluator's, the symbolic derivative from Context::deriv must evaluate to the evaluator's partials, and the Shape transform path (7 matrices incl. projective) is checked against f64 duals.",
         "Trusted: dual64 rules and the 1e-3 locus-exclusion rule (skips are counted); rand/mix taken as locally constant; x86_64 JIT only.",
         "DESIGN.md §4 C05"),
 "C06": ("model_checking",
         "exhaustive Cartesian product of shapes x image sizes x tile-size chains x transforms x modes x backends on the real 2D renderer, vs. per-pixel f64 evaluation",
         "Every combination of 13 shapes, all image sizes of a grid that includes non-multiples of every tile size and non-square images, tile-size chains (thorough: all 15 valid chains over {16,8,4,2}), 5 view transforms, slice heights, pixel-perfect on/off, thread pool / none and VM / JIT is rendered by the real renderer; every pixel is compared with the f64 value of the shape at its sample position (sign for decidable pixels, value in pixel-perfect mode); image dimensions must equal the request.",
         "Trusted: f64 evaluation of the same program and the decidability margin 2e-5*(1+magnitude); the pool dimension uses the rayon stand-in's default schedule (schedules are C09's).",
         "DESIGN.md §4 C06"),
 "C07": ("model_checking",
         "exhaustive Cartesian product of shapes x voxel grids x tile-size chains x transforms x backends on the real 3D renderer, vs. brute-force column scan and f64 dual-number gradients",
         "Every combination of 9 shapes (occluding slabs, holes, tilted planes, empty, full, a free variable), voxel grids with width != height != depth incl. non-multiples of every tile size, 7 tile-size chains, 5 view transforms, thread pool / none and VM / JIT is rendered by the real renderer; for every column the depth must equal 1 + the highest decidably negative voxel found by scanning the whole column in f64 (with the documented clamp to the grid depth, counted separately, and the property's exclusion of columns negative beyond the grid top), and the normal of every unclamped surface pixel must match the f64 dual-number gradient of shape o transform at the surface voxel.",
         "Trusted: f64 evaluation / dual numbers of the same program, decidability margin; pool dimension in the stand-in's default schedule.",
         "DESIGN.md §4 C07"),
 "C10": ("model_checking",
         "exhaustive enumeration of use histories over real long-lived evaluators / storage pools / workspace, differential oracle against fresh objects",
         "Every sequence of up to 2-3 (quick) / 3-4 (thorough) uses from a 70-use alphabet (4 evaluator kinds x 7 differently shaped functions x 2 inputs with different sample counts, plus simplify-evaluate-recycle) is run through one evaluator per kind, one stack of recycled tape storage (JIT mappings larger and smaller than the next code), one stack of recycled function storage and one workspace, on VM<255>, VM<3> and JIT; every step's outputs, trace and simplified tape must equal bit-for-bit the same call on fresh objects; all RenderHandle simplify/recycle sequences over three traces (cache hit and miss) up to depth 3/4.",
         "Trusted: the observation function (bit patterns of outputs, traces, child size / choice count / tape hash); no state de-duplication is attempted.",
         "DESIGN.md §4 C10"),
 "C11": ("model_checking",
         "bounded-exhaustive enumeration of programs x finite inputs on all evaluator kinds of both backends, crash journal for aborts/faults",
         "Every opcode/operand form on all finite special-value points and finite-endpoint boxes, every composition op2(op1(..),..) / op2(p1(..),p2(..)) / op3(op2(p1,p2)) of overflow-or-invalid producers with all 30 opcodes (register and immediate forms) on 12^3 grids of points and boxes reaching +-f32::MAX, the Shape API with extreme and projective matrices, and malformed argument lists, are executed on VM and JIT point / interval / float-slice / grad-slice evaluators; any panic, abort, fault, malformed returned interval or non-error on malformed arguments is a violation, attributed to the operation that creates it.",
         "Trusted: the crash journal (process-level attribution) and the alphabets; composition depth 2 (quick) / 3 (thorough); x86_64 JIT only.",
         "DESIGN.md §4 C11"),
 "C12": ("model_checking",
         "bounded-exhaustive enumeration of expression trees over all opcodes and special constants x assignments, context graph vs. un-rewritten evaluation; deep-tree stack bound",
         "Every expression tree of depth <= 2 over all 30 opcodes with leaves {x,y} and the special constants (0,-0,1,-1,2,NaN,3.7; thorough adds 0.5,+-inf,denormal), shared sub-trees included, is built through the public constructors and, separately, as a Tree that is imported; the graph the context then holds is evaluated at an 11x11 grid of assignments and must equal (==) the operation-by-operation value of the un-rewritten expression wherever that stays finite; node identity on rebuild, import(export(n)) = n, Tree == and Hash agreement are checked on every tree; 1e5/1e6-node trees of three shapes are built, compared, hashed, imported, exported and dropped on a 256 KiB stack.",
         "Trusted: ref32; points where a zero reaches an op sensitive to the sign of zero are skipped (the property holds up to the sign of zero).",
         "DESIGN.md §4 C12"),
 "C13": ("model_checking",
         "exhaustive enumeration of remap sequences (builder API) x targets x dyadic points, imported tree vs. f64 substitution semantics",
         "Every sequence of up to 3 (thorough 4) remaps from a 12-element alphabet (affine: translation, negative/non-uniform scale, 90-degree rotations, shear, general rotation; remap_xyz: permutation, non-linear, constant, free-variable, duplicated-axis and min/max expressions) is applied through the builder API to four targets (one with a free variable), to sub-trees before combination, and to one sub-tree shared under two different frames; the imported result is evaluated at 54 dyadic points and compared with the composed substitution (later remaps act on coordinates first), exactly where all entries are dyadic; collapse of consecutive affine remaps is checked structurally.",
         "Trusted: f64 closure composition as the reference; builder API only (hand-built nested RemapAffine nodes are outside the claim).",
         "DESIGN.md §4 C13"),
 "C14": ("model_checking",
         "exhaustive enumeration of variable sets x operand orders x supply orders x transforms x evaluator kinds (VM, JIT) through the Shape API, vs. an explicit Var->value map",
         "Weighted sums over every subset of {X,Y,Z} united with 0..4 and 30 free variables are written in every operand order (so that first-encounter numbering takes every permutation) and evaluated through the Shape API with variables supplied in both orders, with an unrelated extra variable, with one variable missing (the error must name it), with no / identity / affine / projective transform, by point, interval, float-slice (scalars and arrays) and grad-slice evaluators of both backends, and again after a simplification that drops a variable (map unchanged); values are compared exactly with an explicit identity-keyed map at the f64-transformed position.",
         "Trusted: dyadic data make the comparison exact; the reference map.",
         "DESIGN.md §4 C14"),
 "C15": ("model_checking",
         "bounded-exhaustive enumeration of programs x budgets; bytecode executed by a documentation-only interpreter and compared with the VM",
         "Every program of the C01 sets is serialised with Bytecode::new at budgets that force memory traffic and executed by an interpreter written only from the format documentation (opcode numbers by name from iter_ops); outputs must equal the VM's bit-for-bit and every structural promise (markers, word count, register/memory bounds, reserved register) is checked on every bytecode.",
         "Trusted: the documentation-only interpreter and ref32; the WGSL consumer is not executed.",
         "DESIGN.md §4 C15"),
 "C16": ("model_checking",
         "exhaustive enumeration of a parameter grid per library shape/transform x sample-point grid, vs. closed-form f64 geometry; all transform sequences up to length 3",
         "Each of the 26 shapes and transforms is instantiated over a full Cartesian grid of its parameters (centres, radii, offsets, angles, named and general axes and planes, negative and non-uniform scales), imported and evaluated at a 125-point asymmetric grid; primitives and CSG are compared by sign with closed-form geometry away from the boundary, transforms via T(s)(p) = s(T^-1 p) on an asymmetric probe to 1e-4; every sequence of up to three transforms from an 8-step alphabet is compared with the composed reference.",
         "Trusted: my reading of the doc comments (listed in the evidence assumptions) and the f64 reference geometry.",
         "DESIGN.md §4 C16"),
 "C17": ("model_checking",
         "grammar-exhaustive enumeration of scripts (expressions to depth 2; shape call forms x omitted-default subsets x argument orders), engine result vs. Rust-built tree",
         "Every script the grammar of tree expressions generates to depth 2 (all operators and functions, tree/number/number-on-the-left operands, unary minus, arrays in tree position) and, for 16 shapes covering each call-form class, the map form with every subset of defaulted fields omitted, the positional form in every argument order, tree-first, chained and two-tree forms, numeric spellings, vec2-to-vec3 promotion and reducers with 2..8 arguments or an array, is evaluated by the real engine and compared structurally with the tree built by the corresponding Rust calls; comparison operators on trees and unknown / missing fields must be errors.",
         "Trusted: the generator's pairing of script text with Rust calls; 16 of 26 shapes; depth 2.",
         "DESIGN.md §4 C17"),
 "C18": ("model_checking",
         "explicit-state BFS (stateright) over event histories; transitions call the real Canvas2/Canvas3 methods; obligations as always-properties",
         "All histories of interact / begin_drag / drag / end_drag / zoom / resize events up to depth 3 (quick) / 4-5 (thorough) over small alphabets of screen positions (incl. off-canvas), scroll amounts and image sizes are explored breadth-first with state de-duplication on the bit pattern of the view, the image size and the shadow record of the active drag; each transition executes the real method and checks: zoom keeps the point under the cursor, an active pan keeps the grabbed point under the cursor, rotation leaves centre/scale bit-identical with pitch and yaw in range, changed==false for bit-identical views, world_to_model equals translate*rotate*scale.",
         "Trusted: the state key (the opaque drag handle is a function of the recorded view and cursor at drag start); tolerance 1e-4 relative.",
         "DESIGN.md §4 C18"),
 "C19": ("model_checking",
         "exhaustive enumeration of linear systems x fixed-parameter subsets x starts on the real solver (VM and JIT), vs. residual and key-set oracles",
         "Five matrix families with known integer solutions are solved for every number of unknowns (1..=40 thorough) with every subset of parameters fixed for n <= 6 (2^n, including all and none) and structured subsets above, from a start away from the solution and from the exact solution, on both backends; the result keys must be exactly the free parameters, the exact start must come back bit-for-bit, the residual (fixed parameters at their values) must be below 1e-3 relative, backends must agree, and nothing may panic.",
         "Trusted: the matrix families are well-conditioned by construction; the solver's internal HashMap order is uncontrolled (oracle is order-independent).",
         "DESIGN.md §4 C19"),
 "C20": ("model_checking",
         "bounded-exhaustive enumeration of choice programs x points x boxes on VM and JIT tracing evaluators, vs. a reference interpreter over the register tape",
         "Every DAG of min/max/and/or clauses up to the node bound and chains of up to 200 clauses are evaluated by the VM (two budgets) and JIT point evaluators at every point of a special-value grid and by both interval evaluators on every box of an endpoint grid; each trace must have one Left/Right/Both entry per clause equal to what the operand values (from a reference interpreter over the emitted tape) or the evaluator's own operand intervals (exported as outputs) imply, be absent only if all clauses are undecided, and agree between VM and JIT; output-array shapes and function-vs-tape metadata are checked on every program.",
         "Trusted: RegOp decoding and ref32; touching operand intervals admit either answer; x86_64 JIT only.",
         "DESIGN.md §4 C20"),
}

NOT_YET = "check not built yet in this round (see DESIGN.md build order); no claim is made"

def main():
    checks = []
    for pid in ALL:
        if pid not in CHECKS:
            continue
        cat, tech, text, note, ref = CHECKS[pid]
        checks.append({
            "property_id": pid,
            "quick_cmd": f"./check {pid} quick",
            "thorough_cmd": f"./check {pid} thorough",
            "evidence_file": f"/verif/evidence/{pid}.json",
            "replay_cmd_template": "./check replay {path}",
            "engine": "fv",
            "level_claimed": {"category": cat, "text": text, "design_ref": ref},
            "level_note": note,
            "technique": tech,
        })
    m = {
        "version": 1,
        "setup_cmd": "./setup.sh",
        "hooks": {
            "guard": "cargo feature `verif-hooks` (fidget-core, fidget-raster, fidget-mesh)",
            "enable": "the harness crate /verif/harness/fv depends on the /repo crates by path with features = [\"verif-hooks\"]; no RUSTFLAGS",
            "baseline_off_cmd": "cd /repo && cargo nextest run --workspace --no-fail-fast --tool-config-file pb:/w/lib/nextest.toml --profile pb --test-threads 8 --offline || cargo test --workspace --no-fail-fast --offline",
            "source_commits": ["4c8569f", "e76fb60", "10e6ef4"],
            "add_only": True,
        },
        "engines": [
            {"name": "fv", "path": "/verif/harness/fv",
             "serves_properties": sorted(CHECKS.keys()),
             "kind_free_text": "Rust harness: bounded-exhaustive enumerators, explicit-state search and a controlled-scheduler rayon stand-in (/verif/harness/rayon-shim) driving the real fidget crates built from /repo by path; sharded over worker subprocesses with a crash journal"},
        ],
        "checks": checks,
        "notes": "All checks rebuild the harness (and through path dependencies the changed fidget crates) from /repo's working tree on every run via ./check. Known findings: /verif/known_findings.json.",
        "not_applicable": [{"property_id": p, "reason": NOT_YET} for p in ALL if p not in CHECKS],
    }
    json.dump(m, open("/verif/MANIFEST.json", "w"), indent=1)
    print("wrote MANIFEST.json with", len(checks), "checks")

main()
