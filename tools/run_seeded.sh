#!/bin/bash
# tools/run_seeded.sh <seed-id> <tier> <check> [<check>...]
# Applies /verif/seeded/<id>/patch.diff to /repo, runs the given checks, reverts /repo,
# and prints which checks reported a (non-known) violation.  Evidence/replays go to a
# scratch directory so that committed evidence is not disturbed.
set -u
id=$1; tier=$2; shift 2
mkdir -p /verif/.target
exec 8>/verif/.target/.repo.lock
flock -x 8
export FV_REPO_LOCK_HELD=1
cd /repo && git diff --quiet || { echo "/repo has uncommitted changes"; exit 2; }
git -C /repo apply /verif/seeded/$id/patch.diff || { echo "patch does not apply"; exit 2; }
export FV_EVIDENCE_DIR=/tmp/fv-seeded/$id/evidence FV_REPLAY_DIR=/tmp/fv-seeded/$id/replays
mkdir -p $FV_EVIDENCE_DIR $FV_REPLAY_DIR
caught=""
for c in "$@"; do
  out=$(cd /verif && ./check $c $tier 2>&1); rc=$?
  nv=$(echo "$out" | grep -c "^VIOLATION")
  echo "$c: exit $rc, VIOLATION lines $nv"
  echo "$out" | grep -A1 "^VIOLATION" | grep "^  \[" | head -3 | cut -c1-260
  if [ $rc = 1 ]; then caught="$caught $c"; fi
done
git -C /repo checkout -- .
echo "RESULT $id caught_by:$caught"
