#!/usr/bin/env python3
"""Mutant schemata audit of the checks (a gap finder, not part of the deciding technique).

Many small source mutations of the anchored files are compiled into ONE scratch copy of the
repository, each guarded by `verif_mutant(<id>)` (true iff the environment variable
VERIF_MUTANT equals <id>), so that one build serves a whole batch: every mutant is then
"switched on" by the environment alone and the quick tiers of the properties anchored in the
mutated file are run against it.  Mutants that no check reports are listed for triage
(equivalent mutant? caught by the repository's own tests? genuine blind spot?).

Never touches /repo: works in a scratch git worktree + a scratch copy of the harness.

  tools/mutants.py setup                      create /tmp/fv-mut/{repo,harness,target}
  tools/mutants.py gen <batch> [stride] [offset]   write schemata into the scratch repo, build, prune non-compiling ones
  tools/mutants.py run <batch>                run the mapped quick checks per mutant -> /tmp/fv-mut/<batch>.results.jsonl
  tools/mutants.py suite <batch>              run the repository's test suite for the missed mutants
  tools/mutants.py teardown
"""
import json, os, re, subprocess, sys, time, shutil

ROOT = '/tmp/fv-mut'
REPO = f'{ROOT}/repo'
HARN = f'{ROOT}/harness'
TARGET = f'{ROOT}/target'

FILES = {
 # file : properties whose quick tier is run for a mutant in it
 'fidget-core/src/compiler/ssa_tape.rs': ['C01', 'C04', 'C14', 'C20'],
 'fidget-core/src/compiler/alloc.rs': ['C01', 'C04', 'C10', 'C15'],
 'fidget-core/src/compiler/lru.rs': ['C01', 'C04'],
 'fidget-core/src/compiler/reg_tape.rs': ['C01', 'C15'],
 'fidget-core/src/vm/mod.rs': ['C01', 'C03', 'C04', 'C05', 'C10', 'C20', 'C11'],
 'fidget-core/src/vm/data.rs': ['C04', 'C10', 'C01'],
 'fidget-core/src/vm/choice.rs': ['C04', 'C20'],
 'fidget-core/src/types/interval.rs': ['C03', 'C04', 'C11', 'C20'],
 'fidget-core/src/types/grad.rs': ['C05'],
 'fidget-core/src/types/float.rs': ['C01', 'C04', 'C20'],
 'fidget-core/src/context/mod.rs': ['C12', 'C13', 'C05', 'C01'],
 'fidget-core/src/context/tree.rs': ['C12', 'C13', 'C17'],
 'fidget-core/src/context/op.rs': ['C12', 'C01'],
 'fidget-core/src/context/indexed.rs': ['C12'],
 'fidget-core/src/shape/mod.rs': ['C14', 'C03', 'C05', 'C11'],
 'fidget-core/src/var/mod.rs': ['C14', 'C11'],
 'fidget-core/src/render/mod.rs': ['C10', 'C06', 'C07', 'C09', 'C04'],
 'fidget-core/src/render/region.rs': ['C06', 'C07', 'C18'],
 'fidget-core/src/render/config.rs': ['C09', 'C06', 'C07'],
 'fidget-core/src/eval/mod.rs': ['C20'],
 'fidget-jit/src/lib.rs': ['C02', 'C10', 'C11', 'C09', 'C04', 'C20', 'C03', 'C05'],
 'fidget-jit/src/mmap.rs': ['C02', 'C10'],
 'fidget-jit/src/x86_64/mod.rs': ['C02', 'C03', 'C05'],
 'fidget-jit/src/x86_64/point.rs': ['C02', 'C04', 'C20'],
 'fidget-jit/src/x86_64/float_slice.rs': ['C02'],
 'fidget-jit/src/x86_64/interval.rs': ['C03', 'C04', 'C20', 'C11'],
 'fidget-jit/src/x86_64/grad_slice.rs': ['C05'],
 'fidget-raster/src/pixel.rs': ['C06', 'C09'],
 'fidget-raster/src/voxel.rs': ['C07', 'C09'],
 'fidget-raster/src/lib.rs': ['C06', 'C07', 'C09'],
 'fidget-mesh/src/octree.rs': ['C08', 'C09'],
 'fidget-mesh/src/dc.rs': ['C08'],
 'fidget-mesh/src/cell.rs': ['C08'],
 'fidget-mesh/src/qef.rs': ['C08'],
 'fidget-mesh/src/builder.rs': ['C08', 'C09'],
 'fidget-bytecode/src/lib.rs': ['C15'],
 'fidget-shapes/src/lib.rs': ['C16'],
 'fidget-shapes/src/types.rs': ['C16', 'C17'],
 'fidget-rhai/src/tree.rs': ['C17'],
 'fidget-rhai/src/shapes.rs': ['C17'],
 'fidget-rhai/src/types.rs': ['C17'],
 'fidget-rhai/src/lib.rs': ['C17'],
 'fidget-gui/src/lib.rs': ['C18'],
 'fidget-solver/src/lib.rs': ['C19'],
}

VM_FN = '''
/// Audit only (never committed to /repo): true iff env VERIF_MUTANT == id
#[doc(hidden)]
#[inline(never)]
pub fn verif_mutant(id: u32) -> bool {
    use std::sync::atomic::{AtomicU32, Ordering};
    static M: AtomicU32 = AtomicU32::new(u32::MAX);
    let mut v = M.load(Ordering::Relaxed);
    if v == u32::MAX {
        v = std::env::var("VERIF_MUTANT").ok().and_then(|s| s.parse().ok()).unwrap_or(0);
        M.store(v, Ordering::Relaxed);
    }
    v == id
}
'''

def sh(cmd, **kw):
    return subprocess.run(cmd, shell=True, text=True, capture_output=True, **kw)

def setup():
    os.makedirs(ROOT, exist_ok=True)
    if not os.path.exists(REPO):
        r = sh(f'git -C /repo worktree add --detach {REPO} HEAD'); assert r.returncode == 0, r.stderr
    if os.path.exists(HARN): shutil.rmtree(HARN)
    shutil.copytree('/verif/harness', HARN)
    p = f'{HARN}/fv/Cargo.toml'
    s = open(p).read().replace('/repo/', REPO + '/'); open(p, 'w').write(s)
    if not os.path.exists(TARGET):
        sh(f'cp -r /verif/.target {TARGET}; rm -rf {TARGET}/tsan {TARGET}/run {TARGET}/fv-run')
    print('setup done')

def vm(path):
    return 'crate::verif_mutant' if path.startswith('fidget-core/') else 'fidget_core::verif_mutant'

# ---------------------------------------------------------------- expression-level operators
def expr_mutations(e):
    """yields (opname, mutated expression) for a single-line expression"""
    out = []
    def first(pat, rep, name):
        m = re.search(pat, e)
        if m: out.append((name, e[:m.start()] + rep + e[m.end():]))
    def every(pat, rep, name, limit=2):
        for k, m in enumerate(re.finditer(pat, e)):
            if k >= limit: break
            out.append((f'{name}@{k}', e[:m.start()] + rep + e[m.end():]))
    every(r' <= ', ' < ', 'le->lt'); every(r' >= ', ' > ', 'ge->gt')
    every(r' < ', ' <= ', 'lt->le'); every(r' > ', ' >= ', 'gt->ge')
    every(r' == ', ' != ', 'eq->ne'); every(r' != ', ' == ', 'ne->eq')
    every(r' \+ ', ' - ', 'add->sub'); every(r' - ', ' + ', 'sub->add')
    every(r' && ', ' || ', 'and->or'); every(r' \|\| ', ' && ', 'or->and')
    first(r'\.min\(', '.max(', 'min->max'); first(r'\.max\(', '.min(', 'max->min')
    first(r'\btrue\b', 'false', 'true->false'); first(r'\bfalse\b', 'true', 'false->true')
    first(r'\[0\]', '[1]', 'idx0->1'); first(r'\[1\]', '[0]', 'idx1->0'); first(r'\[2\]', '[1]', 'idx2->1')
    first(r'\.0\b(?!\.)', '.1', 'tup0->1'); first(r'\.1\b(?!\.)', '.0', 'tup1->0')
    first(r'\b1\b(?![\.\d_a-z])', '2', 'one->two'); first(r'\b0\b(?![\.\d_a-z])', '1', 'zero->one')
    first(r'\b0\.0\b', '1.0', 'f0->f1'); first(r'\b1\.0\b', '0.0', 'f1->f0'); first(r'\b0\.5\b', '0.25', 'half->quarter')
    def swapw(a, b, name):
        if re.search(rf'\b{a}\b', e) or re.search(rf'\b{b}\b', e):
            t = re.sub(rf'\b{a}\b', '\x00', e); t = re.sub(rf'\b{b}\b', a, t); t = t.replace('\x00', b)
            if t != e: out.append((name, t))
    swapw('lhs', 'rhs', 'lhs<->rhs'); swapw('lower', 'upper', 'lower<->upper')
    swapw('lhs_reg', 'rhs_reg', 'lhs_reg<->rhs_reg'); swapw('a', 'b', 'a<->b')
    swapw('x', 'y', 'x<->y'); swapw('y', 'z', 'y<->z'); swapw('i', 'j', 'i<->j')
    swapw('width', 'height', 'width<->height'); swapw('min', 'max', 'minw<->maxw')
    first(r'\bneg\b', 'abs', 'neg->abs'); first(r'\bsin\b', 'cos', 'sin->cos')
    return out

def asm_mutations(l):
    out = []
    def first(pat, rep, name):
        m = re.search(pat, l)
        if m: out.append((name, l[:m.start()] + rep + l[m.end():]))
    pairs = [('ja', 'jb'), ('jb', 'ja'), ('jae', 'ja'), ('jbe', 'jb'), ('jz', 'jnz'), ('jnz', 'jz'), ('je', 'jne'), ('jne', 'je'),
             ('vminps', 'vmaxps'), ('vmaxps', 'vminps'), ('vminss', 'vmaxss'), ('vmaxss', 'vminss'),
             ('vaddps', 'vsubps'), ('vsubps', 'vaddps'), ('vaddss', 'vsubss'), ('vsubss', 'vaddss'),
             ('vmulps', 'vaddps'), ('vmulss', 'vaddss'), ('vdivps', 'vmulps'), ('vdivss', 'vmulss'),
             ('vandps', 'vorps'), ('vorps', 'vandps'), ('vandnps', 'vandps'), ('vxorps', 'vorps'),
             ('CHOICE_LEFT', 'CHOICE_RIGHT'), ('CHOICE_RIGHT', 'CHOICE_LEFT'), ('CHOICE_BOTH', 'CHOICE_LEFT'),
             ('>L', '>R'), ('>R', '>L'), ('>N', '>O'),
             ('xmm1', 'xmm2'), ('xmm2', 'xmm1'), ('xmm0', 'xmm1'), ('ymm1', 'ymm2'), ('ymm2', 'ymm1'), ('ymm0', 'ymm1'),
             ('rsi', 'rdx'), ('rdi', 'rsi'), ('r12', 'r13'), ('r13', 'r12'), ('r14', 'r15'),
             ('lhs_reg', 'rhs_reg'), ('rhs_reg', 'lhs_reg'), ('out_reg', 'lhs_reg'), ('arg_reg', 'out_reg')]
    for a, b in pairs:
        first(rf'(?<![\w>]){re.escape(a)}(?!\w)', b, f'{a}->{b}')
    m = re.search(r'0b([01]+)', l)
    if m:
        bits = m.group(1); fl = bits[:-1] + ('0' if bits[-1] == '1' else '1')
        out.append(('imm-bit0', l[:m.start(1)] + fl + l[m.end(1):]))
        if len(bits) > 2:
            fl2 = bits[:-2] + ('0' if bits[-2] == '1' else '1') + bits[-1]
            out.append(('imm-bit1', l[:m.start(1)] + fl2 + l[m.end(1):]))
    m = re.search(r'(?<![\w.])(\d+)(?![\w.])', l)
    if m and not re.search(r'0b', l):
        v = int(m.group(1)); out.append(('imm+1', l[:m.start(1)] + str(v + 1) + l[m.end(1):]))
    if re.match(r'\s*; (or|add|sub|mov|vmov\w+|vzeroupper|pop|push|and|inc|dec|vbroadcastss|vpshufd|vshufps|vblendps)\b', l):
        out.append(('asm-del', None))
    return out

def cut_tests(lines):
    for i, l in enumerate(lines):
        if l.strip().startswith('#[cfg(test)]'): return i
    return len(lines)

def candidates(path):
    """returns a list of mutants: dict(file, start, end (0-based inclusive), op, new (list of lines))"""
    lines = open(f'{REPO}/{path}').read().split('\n')
    n = cut_tests(lines); V = vm(path); out = []
    i = 0
    in_const = False
    while i < n:
        l = lines[i]; s = l.strip()
        if s.startswith('//') or s.startswith('#[') or 'assert' in s or 'panic!' in s or 'unreachable!' in s or s.startswith('const ') or s.startswith('pub const ') or s.startswith('static '):
            i += 1; continue
        # dynasm blocks
        if re.match(r'\s*dynasm!\(self\.0\.ops\s*$', l):
            j = i + 1
            while j < n and lines[j].strip() != ');': j += 1
            if j < n:
                block = lines[i:j + 1]
                for k in range(1, len(block) - 1):
                    bl = block[k]
                    if not bl.strip().startswith(';'): continue
                    for name, ml in asm_mutations(bl):
                        nb = block[:k] + ([] if ml is None else [ml]) + block[k + 1:]
                        ind = re.match(r'\s*', l).group(0)
                        new = [f'{ind}if {V}(@ID@) {{'] + nb + [f'{ind}}} else {{'] + block + [f'{ind}}}']
                        out.append(dict(file=path, start=i, end=j, op=f'asm:{name}', line=i + k + 1, orig=bl.strip(), mut=(ml or '<deleted>').strip(), new=new))
                i = j + 1; continue
        ind = re.match(r'\s*', l).group(0)
        # conditions
        m = re.match(r'^(\s*)(\} else )?(if|while) (.+) \{\s*$', l)
        if m and 'let ' not in m.group(4) and not m.group(4).rstrip().endswith('=='):
            cond = m.group(4)
            for name, c2 in expr_mutations(cond):
                new = [f'{m.group(1)}{m.group(2) or ""}{m.group(3)} (if {V}(@ID@) {{ {c2} }} else {{ {cond} }}) {{']
                out.append(dict(file=path, start=i, end=i, op=f'cond:{name}', line=i + 1, orig=s, mut=c2, new=new))
            new = [f'{m.group(1)}{m.group(2) or ""}{m.group(3)} (if {V}(@ID@) {{ !({cond}) }} else {{ {cond} }}) {{']
            if m.group(3) == 'if':
                out.append(dict(file=path, start=i, end=i, op='cond:negate', line=i + 1, orig=s, mut=f'!({cond})', new=new))
            i += 1; continue
        # single-line let
        m = re.match(r'^(\s*)let (mut )?([\w]+)(: [^=]+)? = ([^;]+);\s*$', l)
        if m and '|' not in m.group(5).replace('||', '') and not m.group(5).strip().startswith('&mut'):
            e = m.group(5)
            for name, e2 in expr_mutations(e):
                new = [f'{m.group(1)}let {m.group(2) or ""}{m.group(3)}{m.group(4) or ""} = if {V}(@ID@) {{ {e2} }} else {{ {e} }};']
                out.append(dict(file=path, start=i, end=i, op=f'let:{name}', line=i + 1, orig=s, mut=e2, new=new))
            i += 1; continue
        # assignments
        m = re.match(r'^(\s*)([\w\.\[\]\*\(\)]+) (=|\+=|-=|\*=|\|=|&=) ([^;]+);\s*$', l)
        if m and not m.group(2).startswith('let'):
            e = m.group(4)
            for name, e2 in expr_mutations(e):
                new = [f'{m.group(1)}{m.group(2)} {m.group(3)} if {V}(@ID@) {{ {e2} }} else {{ {e} }};']
                out.append(dict(file=path, start=i, end=i, op=f'assign:{name}', line=i + 1, orig=s, mut=e2, new=new))
            out.append(dict(file=path, start=i, end=i, op='stmt-del', line=i + 1, orig=s, mut='<deleted>', new=[f'{ind}if !{V}(@ID@) {{ {s} }}']))
            i += 1; continue
        # method-call statements
        m = re.match(r'^(\s*)((self\.|[a-z_][\w]*\.)[\w\.\[\]]*\w+\((.*)\));\s*$', l)
        if m and '?' not in l:
            e = m.group(2)
            out.append(dict(file=path, start=i, end=i, op='stmt-del', line=i + 1, orig=s, mut='<deleted>', new=[f'{ind}if !{V}(@ID@) {{ {s} }}']))
            for name, e2 in expr_mutations(e):
                new = [f'{ind}if {V}(@ID@) {{ {e2}; }} else {{ {e}; }}']
                out.append(dict(file=path, start=i, end=i, op=f'call:{name}', line=i + 1, orig=s, mut=e2, new=new))
            i += 1; continue
        # match arms on one line:  pat => expr,
        m = re.match(r'^(\s*)([^=]+) => ([^{};]+),\s*$', l)
        if m and '(' in m.group(3) or (m and re.search(r'[+\-<>]', m.group(3))):
            e = m.group(3)
            for name, e2 in expr_mutations(e):
                new = [f'{m.group(1)}{m.group(2)} => if {V}(@ID@) {{ {e2} }} else {{ {e} }},']
                out.append(dict(file=path, start=i, end=i, op=f'arm:{name}', line=i + 1, orig=s, mut=e2, new=new))
            i += 1; continue
        # single-line tail expression
        if i > 0 and i + 1 < n and lines[i + 1].strip() == '}' and lines[i - 1].rstrip().endswith(('{', ';')) and s and not s.endswith((';', '{', '}', ',')) and not s.startswith(('.', '&', '|', '+', '-', '*')) :
            for name, e2 in expr_mutations(s):
                new = [f'{ind}if {V}(@ID@) {{ {e2} }} else {{ {s} }}']
                out.append(dict(file=path, start=i, end=i, op=f'tail:{name}', line=i + 1, orig=s, mut=e2, new=new))
        i += 1
    return out

def apply_batch(muts):
    """muts: list with disjoint spans; writes the schemata into the scratch repo (from a clean checkout)"""
    sh(f'git -C {REPO} checkout -- .')
    byfile = {}
    for m in muts: byfile.setdefault(m['file'], []).append(m)
    for f, ms in byfile.items():
        lines = open(f'{REPO}/{f}').read().split('\n')
        for m in sorted(ms, key=lambda m: -m['start']):
            new = [x.replace('@ID@', str(m['id'])) for x in m['new']]
            lines[m['start']:m['end'] + 1] = new
        open(f'{REPO}/{f}', 'w').write('\n'.join(lines))
    p = f'{REPO}/fidget-core/src/lib.rs'
    open(p, 'a').write(VM_FN)

def build():
    env = dict(os.environ, CARGO_TARGET_DIR=TARGET, CARGO_NET_OFFLINE='true')
    r = subprocess.run('cargo build --offline --profile verif -p fv --message-format short 2>&1', shell=True, text=True, capture_output=True, cwd=HARN, env=env)
    return r.returncode, r.stdout

def gen(batch, stride, offset):
    sh(f'git -C {REPO} checkout -- .')
    allm = []
    for f in FILES:
        c = candidates(f)
        allm += c
    print('candidates:', len(allm))
    # choose every stride-th candidate, at most one per span
    chosen = []; used = {}
    for k, m in enumerate(allm):
        if k % stride != offset: continue
        spans = used.setdefault(m['file'], [])
        if any(not (m['end'] < a or m['start'] > b) for a, b in spans): continue
        spans.append((m['start'], m['end'])); chosen.append(m)
    for k, m in enumerate(chosen): m['id'] = k + 1
    print('chosen:', len(chosen))
    for attempt in range(12):
        apply_batch(chosen)
        rc, out = build()
        if rc == 0: break
        bad = set()
        for mm in re.finditer(r'^(?:/tmp/fv-mut/repo/)?([\w\-/\.]+\.rs):(\d+):\d+: error', out, re.M):
            bad.add((mm.group(1).replace(REPO + '/', ''), int(mm.group(2))))
        if not bad:
            print(out[-3000:]); raise SystemExit('build failed without attributable errors')
        # map error lines (in the mutated file) back to mutants
        drop = set()
        byfile = {}
        for m in chosen: byfile.setdefault(m['file'], []).append(m)
        for f, ms in byfile.items():
            shift = 0; pos = []
            for m in sorted(ms, key=lambda m: m['start']):
                a = m['start'] + shift; b = a + len(m['new']) - 1
                pos.append((a + 1, b + 1, m['id'])); shift += len(m['new']) - (m['end'] - m['start'] + 1)
            for (ff, ln) in bad:
                if ff.endswith(f):
                    hit = False
                    for a, b, mid in pos:
                        if a <= ln <= b: drop.add(mid); hit = True
                    if not hit:
                        # an error after the mutated site (e.g. "use of moved value"): blame the
                        # nearest mutant above it in the same file
                        above = [(a, mid) for a, b, mid in pos if a <= ln]
                        if above: drop.add(max(above)[1])
        if not drop:
            print(out[-3000:]); raise SystemExit('errors outside mutants')
        print(f'attempt {attempt}: dropping {len(drop)} non-compiling mutants')
        chosen = [m for m in chosen if m['id'] not in drop]
    else:
        raise SystemExit('could not get a compiling batch')
    json.dump(chosen, open(f'{ROOT}/{batch}.mutants.json', 'w'), indent=1)
    shutil.copy(f'{TARGET}/verif/fv', f'{ROOT}/{batch}.fv')
    print('compiling mutants:', len(chosen))

def run(batch, only=None):
    muts = json.load(open(f'{ROOT}/{batch}.mutants.json'))
    resf = f'{ROOT}/{batch}.results.jsonl'
    done = set()
    if os.path.exists(resf):
        for l in open(resf): done.add(json.loads(l)['id'])
    fv = f'{ROOT}/{batch}.fv'
    for m in muts:
        if m['id'] in done or (only and m['id'] not in only): continue
        caught = []; notes = {}
        t0 = time.time()
        for c in FILES[m['file']]:
            d = f'{ROOT}/scratch/{batch}-{m["id"]}'
            os.makedirs(d + '/e', exist_ok=True); os.makedirs(d + '/r', exist_ok=True)
            env = dict(os.environ, VERIF_MUTANT=str(m['id']), FV_EVIDENCE_DIR=d + '/e', FV_REPLAY_DIR=d + '/r', FV_RUN_DIR=d + '/run', RUST_BACKTRACE='0')
            try:
                r = subprocess.run([fv, 'check', c, 'quick'], text=True, capture_output=True, env=env, timeout=900)
                rc = r.returncode
                v = [x for x in r.stdout.split('\n') if x.startswith('  [')][:1]
            except subprocess.TimeoutExpired:
                rc = 'timeout'; v = []
            notes[c] = rc
            if rc == 1:
                caught.append(c); notes[c + '_first'] = (v[0][:200] if v else '')
                break           # one catching check is enough
            shutil.rmtree(d, ignore_errors=True)
        shutil.rmtree(f'{ROOT}/scratch/{batch}-{m["id"]}', ignore_errors=True)
        rec = dict(id=m['id'], file=m['file'], line=m['line'], op=m['op'], orig=m['orig'], mut=m['mut'], caught=caught, rcs=notes, secs=round(time.time() - t0, 1))
        open(resf, 'a').write(json.dumps(rec) + '\n')
        print(('CAUGHT ' if caught else 'MISSED ') + f"{m['id']} {m['file']}:{m['line']} {m['op']}  {m['orig'][:70]}  ->  {m['mut'][:70]}  {notes}", flush=True)

def suite(batch):
    """for every missed mutant run the repository's own tests (built once with the schemata)"""
    res = [json.loads(l) for l in open(f'{ROOT}/{batch}.results.jsonl')]
    missed = [r for r in res if not r['caught']]
    env = dict(os.environ, CARGO_NET_OFFLINE='true')
    print('building the test suite once ...', flush=True)
    subprocess.run('cargo test --workspace --offline --no-run 2>&1 | tail -2', shell=True, cwd=REPO, env=env)
    out = open(f'{ROOT}/{batch}.suite.jsonl', 'a')
    for r in missed:
        e = dict(env, VERIF_MUTANT=str(r['id']))
        p = subprocess.run('cargo test --workspace --no-fail-fast --offline 2>&1 | grep -E "^test .* FAILED|^test result: FAILED|panicked|SIGSEGV|SIGABRT|signal" | grep -v ssao_bias | head -5',
                           shell=True, text=True, capture_output=True, cwd=REPO, env=e, timeout=3600)
        fails = [x for x in p.stdout.split('\n') if x.strip() and 'test result: FAILED. 6 passed; 1 failed' not in x]
        r['suite_fails'] = fails[:3]
        out.write(json.dumps(r) + '\n'); out.flush()
        print(('SUITE-CATCHES ' if fails else 'SURVIVES-BOTH ') + f"{r['id']} {r['file']}:{r['line']} {r['op']}  {r['orig'][:80]} -> {r['mut'][:80]}", flush=True)

if __name__ == '__main__':
    cmd = sys.argv[1]
    if cmd == 'setup': setup()
    elif cmd == 'gen': gen(sys.argv[2], int(sys.argv[3]) if len(sys.argv) > 3 else 20, int(sys.argv[4]) if len(sys.argv) > 4 else 0)
    elif cmd == 'run': run(sys.argv[2], set(map(int, sys.argv[3].split(','))) if len(sys.argv) > 3 else None)
    elif cmd == 'suite': suite(sys.argv[2])
    elif cmd == 'count':
        tot = 0
        for f in FILES:
            c = candidates(f); tot += len(c); print(len(c), f)
        print(tot)
    elif cmd == 'teardown':
        sh(f'git -C /repo worktree remove --force {REPO}'); shutil.rmtree(ROOT, ignore_errors=True)
