#!/bin/bash
# Free-running thread-sanitizer pass over the C09 workload bodies (supplement to the
# controlled-scheduler exploration, which cannot see unsynchronised accesses: its
# hand-offs are happens-before edges).  Builds the harness with -Zsanitizer=thread
# (nightly, -Zbuild-std, offline) into /verif/.target/tsan and runs `fv tsan-bodies`.
#   tools/tsan_pass.sh [rounds]      prints one JSON object on the last line of stdout
# exit: 0 no race reported / pass unavailable, 1 race reported in fidget code, 2 machinery.
set -u
ROOT=/verif
rounds=${1:-16}
logdir=${FV_RUN_DIR:-$ROOT/.target}/tsan-logs
mkdir -p $ROOT/.target $logdir; rm -f $logdir/tsan.*
export CARGO_NET_OFFLINE=true RUST_BACKTRACE=0
if ! cargo +nightly --version >/dev/null 2>&1; then
  echo '{"available": false, "reason": "no nightly toolchain"}'; exit 0
fi
(
  if [ -z "${FV_REPO_LOCK_HELD:-}" ]; then flock -s 8; fi
  cd $ROOT/harness && RUSTFLAGS="-Zsanitizer=thread" CARGO_TARGET_DIR=$ROOT/.target/tsan \
    cargo +nightly build --offline -Zbuild-std --target x86_64-unknown-linux-gnu --profile verif -p fv >$ROOT/.target/tsan-build.log 2>&1 \
    && cp $ROOT/.target/tsan/x86_64-unknown-linux-gnu/verif/fv $ROOT/.target/tsan/fv.run.$$
) 8>$ROOT/.target/.repo.lock
if [ ! -x $ROOT/.target/tsan/fv.run.$$ ]; then
  echo "{\"available\": false, \"reason\": \"sanitizer build failed (see $ROOT/.target/tsan-build.log)\"}"; exit 0
fi
s=$(date +%s)
TSAN_OPTIONS="halt_on_error=0 exitcode=0 log_path=$logdir/tsan history_size=4" \
  $ROOT/.target/tsan/fv.run.$$ tsan-bodies $rounds > $logdir/bodies.out 2>&1
rc=$?
rm -f $ROOT/.target/tsan/fv.run.$$
python3 - "$logdir" "$rounds" "$rc" "$(( $(date +%s) - s ))" <<'PY'
import sys, glob, json, re
logdir, rounds, rc, wall = sys.argv[1], int(sys.argv[2]), int(sys.argv[3]), int(sys.argv[4])
reports, in_fidget, first = 0, 0, None
for f in glob.glob(logdir + "/tsan.*"):
    txt = open(f, errors="replace").read()
    for blk in txt.split("==================")[1:]:
        if "WARNING: ThreadSanitizer" not in blk:
            continue
        reports += 1
        if re.search(r"fidget_(core|jit|raster|mesh)", blk):
            in_fidget += 1
            if first is None:
                first = f
workloads = [l.strip() for l in open(logdir + "/bodies.out", errors="replace") if l.startswith("TSAN-BODIES")]
wrong = sum(int(re.search(r"wrong_results=(\d+)", l).group(1)) for l in workloads)
out = {"available": True, "kind": "free-running thread-sanitizer pass (dynamic race detection; supplement, not the deciding exploration)",
       "rounds_per_workload": rounds, "workloads": len(workloads), "reports": reports, "reports_with_fidget_frames": in_fidget,
       "wrong_results": wrong, "bodies_exit": rc, "first_report_log": first, "wall_s": wall,
       "per_workload": workloads}
print(json.dumps(out))
sys.exit(1 if (in_fidget > 0 or wrong > 0) else (2 if rc not in (0, 3) or len(workloads) == 0 else 0))
PY
