#!/usr/bin/env python3
"""tools/seed_meta.py <seed-id> "<check tier>[,<check tier>...]" "<notes>"  - records detection in the seed's meta.json"""
import json, sys
p = f'/verif/seeded/{sys.argv[1]}/meta.json'
m = json.load(open(p))
m['detected_by'] = [x.strip() for x in sys.argv[2].split(',') if x.strip()]
m['notes'] = sys.argv[3]
json.dump(m, open(p, 'w'), indent=1)
