#!/usr/bin/env python3
"""Prints the prompt given to a seeding sub-agent for one property (only the property text)."""
import json, sys
pid = sys.argv[1]
wt = sys.argv[2]
extra = sys.argv[3] if len(sys.argv) > 3 else ""
for l in open('/verif/properties.jsonl'):
    p = json.loads(l)
    if p['id'] == pid:
        break
print(f"""You are helping to evaluate a verification effort for the Rust project mkeeter/fidget (a library that compiles implicit-surface math expressions into tapes, evaluates them with an interpreter VM or an x86_64 JIT, and renders / meshes them).

Your own scratch git worktree of the repository is at {wt} . Work ONLY inside that directory (never touch /repo or /verif, and do not read anything under /verif). The machine is offline: use `cargo ... --offline`. Use CARGO_TARGET_DIR={wt}/target (the default) so that builds do not collide with anyone else.

The property under study:

  Title: {p['title']}
  Statement: {p['statement']}
  Quantified over: {p['quantifier']['text']}
  Why the existing tests cannot settle it: {p['why_tests_cant']}
  Code it is anchored in: {', '.join(p['anchors']['files'])}

Your task: make ONE realistic source change to the library (the kind of slip a maintainer could plausibly commit: an off-by-one, a swapped operand, a dropped guard, a stale buffer, a wrong register, an ordering mistake, two cooperating sites that each look fine alone...) that BREAKS this property, while
  (1) the workspace still compiles, and
  (2) the repository's existing test suite still passes: run `cd {wt} && cargo test --workspace --no-fail-fast --offline 2>&1 | grep -E "^test result|FAILED|failed"` and check there are no failures (the single test `effects::test::ssao_bias` in fidget-wgpu fails before any change as well; ignore it), and
  (3) the breakage needs something SPECIFIC to manifest - a particular input shape or value, a particular register budget / slice length / tile size, a multi-step sequence of operations, a particular interleaving or crash point - rather than being exposed at once by ordinary use.
{extra}
Do not change tests. Do not add new public API. Keep the change small (a few lines).

Then write a demonstration: a small Rust test or example program (put it under {wt}/demo/ as its own tiny cargo package with path dependencies on the crates in {wt}, and copy {wt}/Cargo.lock next to its Cargo.toml so it resolves offline; or as an extra #[test] in a NEW file that you list separately from the patch) that FAILS with your change and PASSES without it. Verify both directions yourself (use `git stash` or `git diff > patch; git checkout -- <files>` to flip).

Deliver, inside {wt}/seed_out/ :
  - patch.diff   : `git diff` of the library change only (no demo, no tests)
  - demo/        : the demonstration (sources + the exact command to run it)
  - README.md    : which property it breaks, what precisely it needs in order to manifest, the commands you ran and their observed results (test suite with the change; demo with and without the change).
Leave the worktree with the change REVERTED in the library sources (so that only seed_out/ and demo/ are new). Finish by replying with a short summary (what you changed, where, what is needed to trigger it).""")
