#!/usr/bin/env python3
"""Regenerates the C08 entries of /verif/known_findings.json from the violations that the C08 check
reports on the UNCHANGED tree.  Run by hand (never by a check):
    FV_ALL_VIOLATIONS=/tmp/c08-all.jsonl FV_EVIDENCE_DIR=/tmp/x FV_REPLAY_DIR=/tmp/y ./check C08 quick
    FV_ALL_VIOLATIONS=/tmp/c08-all.jsonl FV_EVIDENCE_DIR=/tmp/x FV_REPLAY_DIR=/tmp/y FV_BUDGET_S=4000 ./check C08 thorough
    python3 tools/gen_c08_known.py /tmp/c08-all.jsonl
Each finding is one exact input (backend, shape, depth, transform) of one of the three documented
input classes; a violation on any other input is reported as a VIOLATION."""
import json, sys
CLASSES = {
 "[the sign lattice of some octree level has a face with alternating corner signs]":
   "non-manifold edge at an ambiguous lattice face (one vertex per filled corner component in the manifold-DC table, fidget-mesh/build.rs: a cell with two empty corners diagonal on a face and connected filled corners has a single vertex carrying all four crossing edges of that face; with the same configuration across the face the mesh edge between the two vertices belongs to four quads)",
 "[part of the surface lies exactly on the octree lattice: zero at a lattice point or along a lattice edge]":
   "zero-area triangle: part of the surface lies exactly on the octree lattice, neighbouring cells solve their QEF to the same position",
 "[the shape is not differentiable where its surface crosses a lattice edge]":
   "zero-area triangle: the surface crosses a lattice edge where the gradient is undefined; the NaN-gradient guard snaps the vertex of every cell around the edge to the same intersection point",
}
sigs = {}
for l in open(sys.argv[1]):
    d = json.loads(l)
    if " :: " not in d["sig"]:
        print("UNCLASSIFIED violation, not recorded:", d["sig"], d["case"]); continue
    sigs.setdefault(d["sig"], d)
k = json.load(open("/verif/known_findings.json"))
k["findings"] = [f for f in k["findings"] if f["property"] != "C08"]
for sig in sorted(sigs):
    cls = next((c for c in CLASSES if c in sig), None)
    if cls is None:
        print("UNCLASSIFIED class, not recorded:", sig); continue
    what = CLASSES[cls]
    if "non-finite vertex" in sig:
        what = "NaN vertex: " + what.replace("zero-area triangle: ", "") + " (the QEF of a cell whose intersections coincide yields NaN)"
    k["findings"].append({"property": "C08", "signature": sig, "what": what + "; input: " + sig.split(" :: ")[1] + " (" + sig.split(" mesh:")[0] + ")"})
json.dump(k, open("/verif/known_findings.json", "w"), indent=1)
print("C08 findings recorded:", sum(1 for f in k["findings"] if f["property"] == "C08"))
