#!/usr/bin/env python3
import json, jsonschema, glob, sys
ok = True
m = json.load(open('/verif/MANIFEST.json'))
jsonschema.validate(m, json.load(open('/root/.vp/MANIFEST.schema.json')))
es = json.load(open('/root/.vp/EVIDENCE.schema.json'))
for c in m['checks']:
    p = c['evidence_file']
    try:
        jsonschema.validate(json.load(open(p)), es)
    except Exception as e:
        ok = False
        print("BAD", p, str(e)[:300])
ids = [c['property_id'] for c in m['checks']] + [n['property_id'] for n in m.get('not_applicable', [])]
assert sorted(ids) == ["C%02d" % i for i in range(1, 21)], ids
print("manifest ok; evidence", "ok" if ok else "BAD")
